"""C06 — every archive snapshot equals the live state when taken, under any history.

proof:   lean/RV/Props/C06.lean about lean/RV/Model/Bin.lean (byte-level model of the format, of
         reb_binary_diff's pos1/pos2 logic, of reb_input_fields at payload level, of the archive writer/reader)
tie:     the native model (drv_c06) gets the serialisations s0..sn of the live states of a history executed on
         the real code and must output the real archive file byte for byte, the index the real reader reports
         and the snapshots the real loader decodes
search:  on the real code: every loaded snapshot == the copy kept at save time, field-wise equal to the live
         serialisation through an independent Python re-parser; count / offsets / times; automatic cadence
"""
import json, os, shutil, struct, subprocess, sys, tempfile, time
sys.path.insert(0, os.path.dirname(os.path.abspath(__file__)))
from common import *
import archive_common as ac

STRUCT_KINDS = ["reset_after_whfast", "single_change", "lazy_arrays", "ias15_reset", "time_games", "remove_all", "single_change", "lazy_arrays",
                "shrink_zero_reappear", "roles", "grow_first", "callbacks", "same_time", "lazy_arrays", "variations", "negzero", "nothing_changed",
                "lazy_arrays"]

# dimensions the history generator must cross with the oracle (a zero count is a broken obligation)
REQUIRED_DIMS = ["integrator:" + i for i in ac.INTEGRATORS] + [
    "lazy_arrays:ias15", "lazy_arrays:whfast_unsafe", "lazy_arrays:mercurius_encounter", "lazy_arrays:bs", "lazy_arrays:janus",
    "lazy_arrays:trace_encounter", "roles:N_active<N", "roles:testparticle_type", "roles:massless_particle", "roles:single_body",
    "variational:nonzero_data", "variational:testparticle", "variational:megno", "variational:second_order", "variational:lrescale",
    "callbacks:additional_forces", "callbacks:post_timestep_modifications", "callbacks:collision_resolve", "callbacks:heartbeat",
    "options:safe_mode=0", "options:keep_unsynchronized", "time:dt<0_cadence", "time:direction_reversal", "time:integrate_split",
    "time:exact_finish_time=1", "time:exact_finish_time_omitted", "time:repeats_t0_later", "time:goes_backwards", "time:huge_t",
    "history:nothing_changed", "history:array_vanishes", "history:array_appears", "history:particles_to_zero", "history:merge_collision",
    "history:integrator_switch", "history:reset_integrator", "history:single_field_change", "history:synchronize",
    "cadence:interval", "cadence:step", "cadence:walltime", "cadence:mixed_manual", "scale:archive>1024", "scale:archive>2048",
    "scale:counter>=2^32", "scale:counter>=2^32_in_history", "scale:huge_N", "restart:residual_tail", "python_api:getitem", "python_api:getitem_negative", "python_api:iteration",
    "python_api:getSimulation_snapshot_between", "python_api:getSimulation_exact", "python_api:getSimulation_close",
    "python_api:getSimulations", "python_api:tmin_tmax", "python_api:Simulation(filename,snapshot)", "python_api:delete_file",
    "python_api:delete_file_interval_rearmed"]
K_F1 = "F1:vanished-array-old-size"
K_F11 = "F11:index-time-when-t-equals-t0"
K_F19 = "F19:index-builder-trusts-field-size"
K_F18 = "F18:particles-sign-of-zero"
K_DUP = "cadence:lagging-next-duplicate"
PRELUDE_IDX = {1, 3, 6, 14, 19, 20, 21, 22, 29, 33, 39, 42, 48, 60, 66, 75, 93, 96, 109, 114, 129, 147, 168}


def vstr(v):
    return "".join("1" if x else "0" for x in v)


def probe_variant(c, rebound, wd):
    """behaviour of the source under test on the two C06 defect repros: which model variant it is.
    The probes are themselves instances of the property (search)."""
    os.makedirs(wd, exist_ok=True)
    fn = os.path.join(wd, "p1.bin")
    sim = rebound.Simulation()
    sim.add(m=1.); sim.add(m=1e-3, a=1.); sim.add(m=1e-3, a=2.)
    sim.integrator = "whfast"; sim.dt = 0.01
    sim.steps(1); sim.save_to_file(fn)
    sim.reset_integrator(); sim.integrator = "leapfrog"; sim.steps(1); sim.save_to_file(fn)
    sim.steps(1); sim.save_to_file(fn)
    nb = rebound.Simulationarchive(fn, process_warnings=False).nblobs
    f1 = (nb == 3)
    if not f1:
        c.violation(K_F1, "after reset_integrator() following a WHFast step the archive exposes %d of 3 snapshots" % nb,
                    dict(ops="whfast step; save; reset_integrator; leapfrog step; save; step; save", nblobs=int(nb)))
    fn = os.path.join(wd, "p2.bin")
    sim = rebound.Simulation()
    sim.add(m=1.); sim.add(m=1e-3, a=1.)
    sim.integrator = "leapfrog"; sim.dt = 0.01
    sim.integrate(5.0)
    t5 = sim.t
    sim.save_to_file(fn); sim.G = 2.0; sim.save_to_file(fn); sim.steps(3); sim.save_to_file(fn)
    sa = rebound.Simulationarchive(fn, process_warnings=False)
    ts = [sa.t[i] for i in range(sa.nblobs)]
    f11 = (len(ts) == 3 and ts[1] == t5)
    # F19 probe: a well-formed archive whose second blob carries a 16-byte 't' record: the fixed reader rejects
    # the blob (1 snapshot), the current one reads 16 bytes into an 8-byte slot (harmless here: slot 1 of 1024)
    fn3 = os.path.join(wd, "p3.bin")
    b = open(fn, "rb").read()
    blobs = ac.parse_archive(b)
    first = b[:blobs[0]["end"] - 12]
    delta = struct.pack("<IIQ", 0, 0, 16) + struct.pack("<dd", 7.0, 8.0)
    img = first + struct.pack("<iii", 0, 0, len(delta) + 16) + delta + struct.pack("<IIQ", ac.END, 0, 0) + struct.pack("<iii", 1, len(delta) + 16, 0)
    open(fn3, "wb").write(img)
    sa3 = rebound.Simulationarchive(fn3, process_warnings=False)
    f19 = (sa3.nblobs == 1)
    if not f11:
        c.violation(K_F11, "index times of snapshots taken at t=%r,%r,... are %r" % (t5, t5, ts),
                    dict(ops="integrate(5); save; G=2; save; 3 steps; save", index_t=ts))
    # F18 probe (sign of zero) and F5 probe (variational configuration compared member-wise)
    import math
    fn4 = os.path.join(wd, "p4.bin")
    sim = rebound.Simulation()
    sim.integrator = "none"
    sim.add(m=1.)
    sim.save_to_file(fn4)
    sim.particles[0].x = -0.0
    sim.save_to_file(fn4)
    s1 = rebound.Simulationarchive(fn4, process_warnings=False)[1]
    f18 = math.copysign(1.0, s1.particles[0].x) < 0
    if not f18:
        c.violation(K_F18, "snapshot restores x=+0.0 where the live particle had x=-0.0", dict(ops="integrator none; add(m=1); save; particles[0].x=-0.0; save; load snapshot 1"))
    sim = rebound.Simulation()
    sim.add(m=1.); sim.add(m=1e-3, a=1.)
    sim.add_variation()
    f5 = bool(sim.copy() == sim)
    return (f1, f11, False, f19, f18, f5)


_asan = {}


def asan_classify(hist, W):
    """the real code died inside an archive operation: re-run the history on an AddressSanitizer build in a
    subprocess and report where the first memory error happens -> (file, line, function) or None"""
    import subprocess
    try:
        if "d" not in _asan:
            _asan["d"] = build(sanitize=True)
            _asan["lib"] = subprocess.run(["clang", "-print-file-name=libclang_rt.asan-x86_64.so"], capture_output=True, text=True).stdout.strip()
        wd = os.path.join(W, "asan")
        shutil.rmtree(wd, ignore_errors=True)
        os.makedirs(wd)
        hp = os.path.join(wd, "hist.json")
        json.dump(hist, open(hp, "w"))
        script = ("import sys, json; sys.path.insert(0, %r); sys.path.insert(0, %r); import warnings; warnings.filterwarnings('ignore'); "
                  "import archive_common as ac, rebound; ac.run_history(rebound, json.load(open(%r)), %r, True)") % (
                      os.path.dirname(os.path.abspath(__file__)), _asan["d"], hp, wd)
        log = os.path.join(wd, "asan.log")
        env = dict(os.environ, LD_PRELOAD=_asan["lib"], ASAN_OPTIONS="detect_leaks=0:abort_on_error=0")
        with open(log, "w") as lf:
            subprocess.run([sys.executable, "-c", script], stdout=lf, stderr=lf, env=env, timeout=180)
        txt = open(log, errors="replace").read()
        i = txt.find("ERROR: AddressSanitizer")
        if i < 0:
            return None
        import re as _re
        kind = txt[i:i + 120].split("\n")[0]
        for m in _re.finditer(r"#\d+ 0x[0-9a-f]+ in (\w+) .*?/src/(\w+\.c):(\d+)", txt[i:i + 6000]):
            return (m.group(2), int(m.group(3)), m.group(1), kind[:80])
        return ("?", 0, "?", kind[:80])
    except Exception as e:
        return ("asan-run-failed", 0, repr(e)[:80], "")


ARCHIVE_SOURCES = ("binarydiff.c", "simulationarchive.c", "output.c", "input.c")


def first_diff(a, b):
    for i in range(min(len(a), len(b))):
        if a[i] != b[i]:
            return i
    return min(len(a), len(b))


def expected_cadence(meta, repaired=False):
    """declarative cadence: every prescribed time start + j*sign*interval (resp. step start + j*s) that the run
    reaches gets exactly one automatic snapshot, at the first step boundary at or after it (in the direction of
    integration: sign = sign of dt, backward integrations included).  The heartbeat runs once per recorded
    boundary.  -> (expected [(steps_done, t_hex)], lagging: bool, segments for the model tie)"""
    exp, lag, segs = [], False, []
    nxt = None
    for e in meta["events"]:
        if not (isinstance(e, dict) and "hb" in e) or e["auto"] is None:
            continue
        mode, val, start = e["auto"]
        sign = e.get("dir", 1)
        if nxt is None:
            nxt = h2d(start) if mode == "interval" else start
        seg = dict(mode=mode, val=val, sign=sign, next0=nxt, bounds=e["hb"], nnew=0,
                   next_after=e.get("next_after"), next_step_after=e.get("next_step_after"))
        for sd, th in e["hb"]:
            if mode == "interval":
                t = h2d(th)
                if sign * nxt <= sign * t:
                    exp.append((sd, th)); seg["nnew"] += 1
                    nxt += sign * val
                    if sign * nxt <= sign * t:
                        lag = True      # more than one prescribed time passed within one step (|dt| > |interval|),
                                        # or the direction was reversed with `next` left behind
                        if repaired and val > 0:      # repaired source: passed output times are skipped
                            import math
                            nxt += sign * (math.floor(sign * (t - nxt) / val) + 1.0) * val
                            if sign * nxt <= sign * t:
                                nxt += sign * val
            else:
                if nxt <= sd:
                    exp.append((sd, th)); seg["nnew"] += 1
                    nxt += val
                    if nxt <= sd:
                        lag = True
        segs.append(seg)
    return exp, lag, segs


def wall_case(c, rebound, exe, W, stats, rng, idx):
    """wall-time cadence (auto_walltime): the clock is whatever the machine gives; the heartbeat callback records the
    clock value of every heartbeat, the Lean model run over that sequence must give the number of snapshots and
    the persisted `simulationarchive_next`; every snapshot must carry a wall time >= its prescribed one (never early)"""
    wd = os.path.join(W, "wall%d" % idx)
    os.makedirs(wd, exist_ok=True)
    fn = os.path.join(wd, "wall.bin")
    iv = rng.choice([5e-5, 2e-4, 1e-3])
    npart = rng.randint(20, 60)
    nsteps = rng.randint(150, 400)
    parts = [ac.gen_particle(rng, star=True)] + [ac.gen_particle(rng) for _ in range(npart)]

    def child():
        import warnings
        warnings.filterwarnings("ignore")
        sim = rebound.Simulation()
        for p in parts:
            sim.add(**p)
        sim.integrator = "leapfrog"
        sim.dt = 1e-3
        trace = []

        def hb(simp):
            trace.append(ac.hex64(simp.contents.walltime))
        sim.heartbeat = hb
        next0 = ac.hex64(sim.walltime)
        sim.save_to_file(fn, walltime=iv)
        sim.integrate(sim.dt * (nsteps - 0.5), exact_finish_time=0)
        json.dump(dict(trace=trace, next0=next0, next_after=ac.hex64(sim.simulationarchive_next)), open(os.path.join(wd, "res.json"), "w"))
    rc = ac.fork_run(child, timeout=60)
    if rc != 0 or not os.path.exists(os.path.join(wd, "res.json")):
        stats["wall_hazards"] = stats.get("wall_hazards", 0) + 1
        return
    res = json.load(open(os.path.join(wd, "res.json")))
    blobs = ac.parse_archive(open(fn, "rb").read()) if os.path.exists(fn) else []
    o = run_driver(exe, ["cadwall %s %s %s" % (d2h(iv), res["next0"], " ".join(res["trace"]))])[0].split()
    stats["wall_runs"] = stats.get("wall_runs", 0) + 1
    stats["wall_snapshots"] = stats.get("wall_snapshots", 0) + len(blobs)
    c.count(("walltime", iv, len(blobs)), n=len(res["trace"]))
    rep = dict(interval=iv, particles=npart, steps=nsteps, snapshots=len(blobs), model=o[0].count("1"), next_real=res["next_after"], next_model=o[1])
    if o[0].count("1") != len(blobs) or o[1] != res["next_after"]:
        c.corr_break("wall-time heartbeat model: %d snapshots next=%s, real code: %d snapshots next=%s" % (o[0].count("1"), o[1], len(blobs), res["next_after"]), rep)
    else:
        stats["cadence_segments_model_equal"] += 1
    # never early: snapshot j carries walltime >= next0 + j*interval
    recs0 = blobs[0]["recs"] if blobs else []
    nxt = h2d(res["next0"])
    for j, bl in enumerate(blobs):
        recs = ac.overlay(recs0, bl["recs"]) if j else bl["recs"]
        w = struct.unpack("<d", ac.rec_value(recs, ac.WALL))[0]
        if not w >= nxt:
            c.violation("cadence:walltime-early", "wall-time snapshot %d taken at walltime %r before its prescribed time %r" % (j, w, nxt), rep)
            break
        nxt += iv
    shutil.rmtree(wd, ignore_errors=True)


def api_case(c, rebound, W, stats, dims, rng):
    """every public restore path of the Python layer on one archive with strictly increasing times"""
    wd = os.path.join(W, "api")
    os.makedirs(wd, exist_ok=True)
    fn = os.path.join(wd, "api.bin")
    integ = rng.choice(["leapfrog", "whfast", "ias15"])
    nsn = rng.randint(5, 8)

    def child():
        import warnings
        warnings.filterwarnings("ignore")
        bad, done = [], []
        sim = rebound.Simulation()
        sim.add(m=1.0); sim.add(m=1e-3, a=1.0); sim.add(m=1e-3, a=1.7)
        sim.integrator = integ
        sim.dt = 0.01
        if integ == "ias15":
            sim.ri_ias15.epsilon = 0      # fixed step: the tolerances below are stated in units of dt
        ts, xs = [], []
        for i in range(nsn):
            sim.save_to_file(fn)
            ts.append(sim.t); xs.append(sim.particles[1].x)
            sim.steps(3 + i)
        sa = rebound.Simulationarchive(fn)
        n = len(sa)

        def chk(name, cond, info=""):
            done.append(name)
            if not cond:
                bad.append((name, str(info)[:200]))
        chk("len", n == nsn and sa.nblobs == nsn, (n, sa.nblobs))
        chk("tmin_tmax", sa.tmin == ts[0] and sa.tmax == ts[-1], (sa.tmin, sa.tmax))
        chk("getitem", all(sa[i].t == ts[i] and sa[i].particles[1].x == xs[i] for i in range(n)))
        chk("getitem_negative", sa[-1].t == ts[-1] and sa[-n].t == ts[0] and sa[-2].t == ts[-2])
        try:
            sa[n]
            chk("getitem_out_of_range", False)
        except IndexError:
            chk("getitem_out_of_range", True)
        chk("iteration", [s_.t for s_ in sa] == ts)
        chk("Simulation(filename,snapshot)", all(rebound.Simulation(fn, snapshot=i).t == ts[i] for i in range(n)))
        chk("Simulation(filename)", rebound.Simulation(fn).t == ts[-1])
        try:
            chk("Simulation(sa,snapshot)", rebound.Simulation(sa, snapshot=1).t == ts[1])
        except AttributeError as e:
            chk("Simulation(sa,snapshot)", False, "AttributeError: %s" % e)
        sq = rebound.Simulationarchive(fn, process_warnings=False)
        chk("Simulation(sa_quiet,snapshot)", rebound.Simulation(sq, snapshot=1).t == ts[1])
        del sq
        chk("getSimulation_snapshot_exact_time", all(sa.getSimulation(ts[i]).t == ts[i] for i in range(n)))
        mids = [(0.5 * (ts[i] + ts[i + 1]), i) for i in range(n - 1)]
        chk("getSimulation_snapshot_between", all(sa.getSimulation(tm).t == ts[i] for tm, i in mids), [(tm, sa.getSimulation(tm).t, ts[i]) for tm, i in mids][:3])
        chk("getSimulation_exact", all(sa.getSimulation(tm, mode="exact").t == tm for tm, i in mids))
        chk("getSimulation_close", all(tm <= sa.getSimulation(tm, mode="close").t <= tm + 0.011 for tm, i in mids))
        chk("getSimulations", [s_.t for s_ in sa.getSimulations([ts[1], ts[2]])] == [ts[1], ts[2]])
        try:
            sa.getSimulation(ts[-1] + 1.0)
            chk("getSimulation_outside", False)
        except ValueError:
            chk("getSimulation_outside", True)
        # archive contents from memory (pickle path: Simulation(bytes) -> reb_simulationarchive_init_from_buffer_with_messages)
        import pickle, io, contextlib
        chk("Simulation(bytes_of_archive)", rebound.Simulation(open(fn, "rb").read()).t == ts[-1])
        s3 = sa[3]
        s3p = pickle.loads(pickle.dumps(s3))
        chk("pickle_roundtrip", s3p.t == ts[3] and s3p.particles[1].x == xs[3] and s3p == s3)
        s3c = s3.copy()
        chk("copy_of_restored", s3c.t == ts[3] and s3c.particles[1].x == xs[3] and s3c == s3)
        chk("eq_distinguishes_snapshots", not (sa[2] == sa[3]))
        buf = io.StringIO()
        with contextlib.redirect_stdout(buf):
            s3.diff(sa[2])
        chk("diff_names_t", "t" in buf.getvalue() and len(buf.getvalue()) > 0, buf.getvalue()[:80])
        buf = io.StringIO()
        with contextlib.redirect_stdout(buf):
            s3.diff(sa[3])
        chk("diff_of_equal_is_empty", buf.getvalue().strip() == "", buf.getvalue()[:80])
        buf = io.StringIO()
        with contextlib.redirect_stdout(buf):
            s3.status(showAllFields=True)
        chk("status_lists_fields", "dt" in buf.getvalue(), buf.getvalue()[-120:])
        # reuse_index: a second archive of exactly the same shape opened with the first one's index
        fn2 = os.path.join(wd, "api2.bin")
        sim2 = rebound.Simulation()
        sim2.add(m=1.0); sim2.add(m=1e-3, a=1.1); sim2.add(m=1e-3, a=1.9)
        sim2.integrator = integ
        sim2.dt = 0.01
        if integ == "ias15":
            sim2.ri_ias15.epsilon = 0
        xs2 = []
        for i in range(nsn):
            sim2.save_to_file(fn2)
            xs2.append(sim2.particles[1].x)
            sim2.steps(3 + i)
        sb2 = rebound.Simulationarchive(fn2, reuse_index=sa)
        sb3 = rebound.Simulationarchive(fn2)
        chk("reuse_index", len(sb2) == nsn and all(sb2[i].particles[1].x == xs2[i] and sb2[i] == sb3[i] for i in range(nsn)),
            [(sb2[i].particles[1].x, xs2[i]) for i in range(min(nsn, len(sb2)))][:3])
        del sb2, sb3
        try:
            verts, codes = sa.getBezierPaths(origin=0)
            chk("getBezierPaths", verts.shape == (3 * n - 2, 3, 2) and len(codes) == 3 * n - 2 and
                all(abs(verts[3 * i, 1, 0] - (sa[i].particles[1].x - sa[i].particles[0].x)) < 1e-15 for i in range(n)), verts.shape)
        except ImportError:
            chk("getBezierPaths", True, "numpy missing")
        del sa
        # delete_file=True: the archive starts over with the current state
        sim.save_to_file(fn, delete_file=True)
        sb = rebound.Simulationarchive(fn)
        chk("delete_file", len(sb) == 1 and sb[0].t == sim.t and sb[0] == sim, (len(sb),))
        del sb
        # delete_file=True with a cadence: re-armed at the current time
        tstart = sim.t
        sim.save_to_file(fn, interval=0.05, delete_file=True)
        sim.integrate(sim.t + 0.2, exact_finish_time=0)
        sc = rebound.Simulationarchive(fn)
        chk("delete_file_interval_rearmed", len(sc) >= 4 and sc[0].t == tstart and abs(sc[1].t - (tstart + 0.05)) < 0.011, [sc.t[i] for i in range(len(sc))][:5])
        json.dump(dict(bad=bad, done=done), open(os.path.join(wd, "res.json"), "w"))
    rc = ac.fork_run(child, timeout=60)
    rp = os.path.join(wd, "res.json")
    if rc != 0 or not os.path.exists(rp):
        c.violation("api:died", "Python restore paths kill the process (status %s)" % rc, dict(integrator=integ, snapshots=nsn))
        return
    res = json.load(open(rp))
    for name in res["done"]:
        dims["python_api:" + name] = dims.get("python_api:" + name, 0) + 1
        c.count(("api", name, integ))
    for name, info in res["bad"]:
        c.violation("api:" + name, "Python path %s returns the wrong snapshot (%s)" % (name, info), dict(integrator=integ, snapshots=nsn))
    shutil.rmtree(wd, ignore_errors=True)


def big_counter_case(c, rebound, exe, W, stats, dims):
    """step cadence across steps_done = 2^32 (uint64 counters)"""
    wd = os.path.join(W, "ctr")
    os.makedirs(wd, exist_ok=True)
    fn = os.path.join(wd, "ctr.bin")
    start = 2 ** 32 - 5

    def child():
        import warnings
        warnings.filterwarnings("ignore")
        sim = rebound.Simulation()
        sim.add(m=1.0); sim.add(m=0.0, x=1.0, vy=1.0)
        sim.integrator = "leapfrog"
        sim.dt = 0.01
        sim.steps_done = start
        sim.save_to_file(fn, step=2)
        sim.integrate(sim.dt * 11.5, exact_finish_time=0)
        sa = rebound.Simulationarchive(fn, process_warnings=False)
        last = sa[-1]
        json.dump(dict(nblobs=int(sa.nblobs), last_steps=int(last.steps_done), live_steps=int(sim.steps_done),
                       next_step=int(sim.simulationarchive_next_step), last_next=int(last.simulationarchive_next_step),
                       loaded_steps=[int(sa[i].steps_done) for i in range(sa.nblobs)],
                       loaded_next=[int(sa[i].simulationarchive_next_step) for i in range(sa.nblobs)]), open(os.path.join(wd, "res.json"), "w"))
    rc = ac.fork_run(child, timeout=60)
    if rc != 0 or not os.path.exists(os.path.join(wd, "res.json")):
        c.violation("counter:died", "step cadence across steps_done = 2^32 kills the process (status %s)" % rc, dict(start=start))
        return
    res = json.load(open(os.path.join(wd, "res.json")))
    blobs = ac.parse_archive(open(fn, "rb").read())
    recs0 = blobs[0]["recs"]
    sds = []
    for j, bl in enumerate(blobs):
        recs = ac.overlay(recs0, bl["recs"]) if j else bl["recs"]
        sds.append(int.from_bytes(ac.rec_value(recs, ac.STEPS), "little"))       # whatever size the writer used
    want = [start + 2 * j for j in range(len(sds))]
    o = run_driver(exe, ["cadstep 2 %d %s" % (start, " ".join(str(start + i) for i in range(13)))])[0].split()
    dims["scale:counter>=2^32"] = dims.get("scale:counter>=2^32", 0) + len([x for x in sds if x >= 2 ** 32])
    c.count(("counter", len(sds)), n=len(sds))
    rep = dict(start=start, snapshots_at=sds, reader=res, model=o)
    wantL = [start + 2 * j for j in range(res["nblobs"])]
    if res["loaded_steps"] != wantL or res["loaded_next"] != [x + 2 for x in wantL] or res["last_steps"] != res["live_steps"]:
        c.violation("counter:restored-steps_done", "snapshots taken at steps_done %s ... are restored with steps_done %s, next_step %s (live at the end: %d)" % (
            wantL[:4], res["loaded_steps"][:4], res["loaded_next"][:4], res["live_steps"]), rep)
    if sds != want or res["nblobs"] != len(sds) or res["last_steps"] != sds[-1] or res["last_next"] != sds[-1] + 2:
        c.violation("counter:steps_done-2^32", "step cadence across steps_done = 2^32: snapshots at %s, want %s" % (sds, want), rep)
    if o[0].count("1") != len(sds):
        c.corr_break("step-cadence model across 2^32 differs from the real code", rep)
    shutil.rmtree(wd, ignore_errors=True)


def big_archive(c, rebound, exe, V, W, n, stats):
    """more snapshots than the reader's initial index capacity (1024, grown in chunks of 1024): a tiny simulation,
    one automatic snapshot per step; count, offsets, times and the last snapshot must be right"""
    wd = os.path.join(W, "big%d" % n)
    os.makedirs(wd, exist_ok=True)
    fn = os.path.join(wd, "big.bin")

    def child():
        import warnings
        warnings.filterwarnings("ignore")
        sim = rebound.Simulation()
        sim.add(m=1.0)
        sim.add(m=0.0, x=1.0, vy=1.0)
        sim.integrator = "leapfrog"
        sim.dt = 0.01
        sim.save_to_file(fn, step=1)
        sim.integrate(sim.dt * (n - 1.5), exact_finish_time=0)
        sa = rebound.Simulationarchive(fn, process_warnings=False)
        nb = int(sa.nblobs)
        last = sa[nb - 1]
        res = dict(nblobs=nb, t=[ac.hex64(sa.t[i]) for i in range(nb)], offset=[int(sa.offset[i]) for i in range(nb)],
                   last_t=ac.hex64(last.t), last_steps=int(last.steps_done), live_t=ac.hex64(sim.t), live_steps=int(sim.steps_done),
                   last_eq=bool(last == sim) or None)
        json.dump(res, open(os.path.join(wd, "res.json"), "w"))
    rc = ac.fork_run(child, timeout=120)
    rep = dict(snapshots=n, rc=rc)
    if rc != 0 or not os.path.exists(os.path.join(wd, "res.json")):
        c.violation("big-archive-died", "writing/reading an archive with %d snapshots kills the process (status %s)" % (n, rc), rep)
        return
    res = json.load(open(os.path.join(wd, "res.json")))
    blobs = ac.parse_archive(open(fn, "rb").read())
    stats["big_archive_blobs"] = max(stats.get("big_archive_blobs", 0), len(blobs))
    c.count(("big-archive", n), n=len(blobs))
    rep.update(real_nblobs=res["nblobs"], reparser_blobs=len(blobs))
    want_t = []
    t0 = ac.rec_value(blobs[0]["recs"], ac.T_ID) if blobs else None
    for bl in blobs:
        t = ac.rec_value(bl["recs"], ac.T_ID)
        want_t.append((t if t is not None else t0)[::-1].hex())
    if len(blobs) < n - 2:
        c.violation("big-archive-written", "only %d blobs in a file after %d automatic snapshots" % (len(blobs), n), rep)
    if res["nblobs"] != len(blobs):
        c.violation("big-archive-count", "reader exposes %d of the %d snapshots in the file (index capacity 1024 + k*1024)" % (res["nblobs"], len(blobs)), rep)
    elif res["offset"] != [b["off"] for b in blobs] or res["t"] != want_t:
        c.violation("big-archive-index", "index offsets/times of a %d-snapshot archive are wrong" % len(blobs), rep)
    elif res["last_t"] != res["live_t"] or res["last_steps"] != res["live_steps"]:
        c.violation("big-archive-last", "last snapshot of a %d-snapshot archive is not the final state (t %s vs %s)" % (len(blobs), res["last_t"], res["live_t"]), rep)
    # tie: model index of the real file
    o = run_driver(exe, ["open %s %s" % (V, fn), "capat %d" % (len(blobs) - 1)])
    got = " ".join(x for x in o[0].replace(":none", ":0000000000000000").split() if not x.startswith("warn="))
    want = "ok %d " % res["nblobs"] + " ".join("%d:%s" % (a, b) for a, b in zip(res["offset"], res["t"]))
    if got != want:
        c.corr_break("model index of a %d-snapshot archive differs from reb_simulationarchive (model %s.., real %s..)" % (len(blobs), got[:40], want[:40]), rep)
    else:
        stats["index_equal"] += 1
    stats["big_archive_capacity_model"] = int(o[1])
    shutil.rmtree(wd, ignore_errors=True)


def run(c):
    d = build()
    rebound = use_scratch_rebound(d)
    c.prove(["RV.Props.C06"])
    exe = lean_exe("drv_c06")
    W = tempfile.mkdtemp(prefix="c06.", dir=os.environ.get("VERIF_TMP", "/tmp"))
    try:
        _run(c, rebound, exe, W, d)
    finally:
        shutil.rmtree(W, ignore_errors=True)


def _run(c, rebound, exe, W, d):
    from common import REPO
    cent, cint = ac.entry_points(REPO)
    pyent = ac.py_entry_points(REPO, cent)
    elog = os.path.join(W, "entry.log")
    ac.install_entry_trace(rebound, elog, cent, pyent)
    v = probe_variant(c, rebound, os.path.join(W, "probe"))
    V = vstr(v)
    cad_repaired = ac.probe_cadence_variant(rebound, os.path.join(W, "probe"))
    # extracted: the field table of the library under test against the struct (Python mirror): a scalar dtype whose size is not
    # the member's size truncates / over-reads that member in every snapshot
    c.cov["field_table"] = ac.image_table_report(rebound)
    if c.cov["field_table"]["dtype_size_mismatch"]:
        c.corr_break("field table dtype size differs from the struct member size [name, id, dtype bytes, member bytes]: %s" % c.cov["field_table"]["dtype_size_mismatch"][:4])
    if c.cov["field_table"]["scalar_members_resolved"] < 100:
        c.corr_break("field table: only %d scalar members resolved against the struct mirror" % c.cov["field_table"]["scalar_members_resolved"])
    c.cov["source_variant"] = {"F1_fixed": v[0], "F11_fixed": v[1], "F19_fixed": v[3], "F18_particles_bitwise": v[4], "F5_varconfig_memberwise": v[5],
                               "cadence_skips_passed_times": cad_repaired}
    c.log("source behaves as model variant", V)
    nh = 2500 if c.thorough else 260
    maxapp = 25 if c.thorough else 10
    budget = (22 * 60) if c.thorough else 85
    c.cov["rule"] = ("histories = random op lists (integrate k steps, add/remove particle, switch among 11 integrators, "
                     "reset_integrator, 26 settings, variational particles order 1/2, merging collision, coordinate edit, manual "
                     "snapshot; a quarter built by construction so that a persisted array vanishes / shrinks to zero / reappears / "
                     "appears after the first snapshot / two snapshots share t0; a sixth use automatic interval or step cadence mixed "
                     "with manual snapshots) executed on the real code in a forked child; live state serialised at every append. "
                     "distinct_nontrivial = distinct (kind, first integrator, number of appends, ids that vanished, ids that appeared) "
                     "with at least 2 appends")
    c.cov["trusted_base"] = ["Lean 4.33 kernel", "byte-identical reproduction of real archive files by drv_c06 on generated histories (differential)",
                             "Python re-parser rv/archive_common.py (format description only)", "fork/ctypes; file system"]
    c.assumptions += ["files are byte lists; fseek/fread/fwrite as in stdio (short reads leave the bytes read, forward seeks never fail)",
                      "field ids unique within a serialisation; only array-valued ids can be absent (descriptor table: C05)",
                      "offsets < 2^31 (32-bit trailer members)",
                      "comparison of particle arrays ignores pointer members, padding and the sign of zeros (reb_particle_diff): "
                      "delta law stated for an exact comparison and, for any comparison, up to what it calls 'same'"]
    stats = dict(histories=0, appends=0, bytes_equal=0, index_equal=0, snapshots_decoded=0, child_crash=0, skipped_ops=0,
                 vanish_histories=0, appear_histories=0, shrink_zero=0, same_t0=0, auto_histories=0, auto_snapshots=0,
                 lagging=0, pairwise_histories=0, live_value_checks=0, reduced_oracle_histories=0, auto_forward=0, auto_backward=0, auto_mixed=0, cadence_segments_model_equal=0, single_change_snapshots=0, reader_overflow=0, model_undefined=0, eq_checked=0, fieldwise_checked=0, link_true=0, merges=0, nocapture=0)
    integ_hist = {}
    hazards = {}
    dims = {}
    dim_by_fixed = {}
    capture_exc = {}
    change_kinds = {}
    outside = {}
    kinds_hist = {}
    t_start = time.time()
    for nbig in ((1030, 2100, 3100) if c.thorough else (1030, 2100)):
        big_archive(c, rebound, exe, V, W, nbig, stats)
    for iw in range(6 if c.thorough else 2):
        wall_case(c, rebound, exe, W, stats, c.rng.fork(), iw)
    for irt in range(8 if c.thorough else 2):
        rr = ac.residual_tail_case(c, rebound, run_driver, exe, V, os.path.join(W, "rtail%d" % irt), c.rng.fork(), irt + 4 * irt)
        if rr:
            dims["restart:residual_tail"] = dims.get("restart:residual_tail", 0) + 1
            stats["residual_tail_model_appends_equal"] = stats.get("residual_tail_model_appends_equal", 0) + rr["model_appends_equal"]
    api_case(c, rebound, W, stats, dims, c.rng.fork())
    big_counter_case(c, rebound, exe, W, stats, dims)
    if stats.get("wall_runs"):
        dims["cadence:walltime"] = stats["wall_runs"]
    if stats.get("big_archive_blobs", 0) > 1024:
        dims["scale:archive>1024"] = 1
    if stats.get("big_archive_blobs", 0) > 2048:
        dims["scale:archive>2048"] = 1
    c.log("big archives, wall-time cadence, API paths, counters done")
    batch = []
    hi = 0

    def flush(batch):
        """tie + oracle for a batch of executed histories"""
        lines, owners = [], []
        for h in batch:
            wd, meta, n = h["wd"], h["meta"], h["n"]
            if n == 0:
                continue
            if not h["nocapture"]:
                ss = " ".join(os.path.join(wd, "s%d.bin" % k) for k in range(n))
                lines.append("arch %s %s %s" % (V, os.path.join(wd, "model.bin"), ss)); owners.append((h, "arch", None))
            lines.append("open %s %s" % (V, os.path.join(wd, "arch.bin"))); owners.append((h, "open", None))
            nb = (meta["back"].get("nblobs", 0) or 0) if not meta["back"].get("error") else 0
            for k in range(nb):
                lines.append("snap %s %s %d %s" % (V, os.path.join(wd, "arch.bin"), k, os.path.join(wd, "m%d.bin" % k)))
                owners.append((h, "snap", k))
        out = run_driver(exe, lines) if lines else []
        if len(out) != len(lines):
            c.corr_break("driver returned %d lines for %d ops" % (len(out), len(lines)))
            return
        for (h, kind, k), o, l in zip(owners, out, lines):
            wd, meta = h["wd"], h["meta"]
            if kind == "arch":
                real = open(os.path.join(wd, "arch.bin"), "rb").read()
                mp = os.path.join(wd, "model.bin")
                model = open(mp, "rb").read() if (o.startswith("done") and os.path.exists(mp)) else b""
                if model != real:
                    i = first_diff(model, real)
                    c.corr_break("model archive differs from the real file (history %d, first byte %d of %d/%d)" % (h["i"], i, len(model), len(real)),
                                 dict(history=h["hist"], driver=o[:300], at=i, real=real[max(0, i - 16):i + 32].hex(), model=model[max(0, i - 16):i + 32].hex()))
                else:
                    stats["bytes_equal"] += 1
                if "link=true" in o:
                    stats["link_true"] += 1
                elif o.startswith("done"):
                    c.corr_break("diffRaw and encFs(diffF(parse)) disagree inside the model (history %d)" % h["i"], dict(history=h["hist"], driver=o[:300]))
            elif kind == "open":
                back = meta["back"]
                if o.startswith("undefined"):
                    stats["model_undefined"] += 1     # the real reader is out of bounds here (F19): nothing to compare
                    h["undefined"] = True
                    continue
                if back.get("error"):
                    want = "ERR"
                else:
                    ents = []
                    for off, t in zip(back["offset"], back["t"]):
                        ents.append("%d:%s" % (off, t))
                    want = "ok %d " % back["nblobs"] + " ".join(ents)
                got = o.replace(":none", ":0000000000000000")
                got = " ".join(x for x in got.split() if not x.startswith("warn="))
                if got != want:
                    c.corr_break("model index differs from reb_simulationarchive (history %d)" % h["i"], dict(history=h["hist"], model=o[:400], real=want[:400]))
                else:
                    stats["index_equal"] += 1
            else:
                lp, mp = os.path.join(wd, "l%d.bin" % k), os.path.join(wd, "m%d.bin" % k)
                if h.get("undefined"):
                    continue
                if not o.startswith("ok") or not os.path.exists(lp):
                    c.corr_break("model cannot decode snapshot %d which the real loader decodes (history %d)" % (k, h["i"]), dict(history=h["hist"], driver=o))
                    continue
                _, rl, _, _ = ac.parse_stream(open(lp, "rb").read())
                mrecs, _ = ac.parse_records(open(mp, "rb").read() + struct.pack("<IIQ", ac.END, 0, 0), 0)
                a, b = ac.canon(rl), ac.canon(mrecs)
                a.pop(87, None); b.pop(87, None)
                # descriptor-level coupling the payload model does not carry: loading a particles record sets N
                pm = ac.rec_value(mrecs, ac.PARTICLES)
                if pm is not None:
                    b[ac.N_ID] = struct.pack("<I", len(pm) // ac.PSIZE)
                dd = ac.diff_canon(a, b)
                if dd:
                    c.corr_break("snapshot %d decoded by the model differs from the real loader in ids %s (history %d)" % (k, dd[:6], h["i"]), dict(history=h["hist"], ids=dd))
                else:
                    stats["snapshots_decoded"] += 1
        # ---------------- search oracle on the real code (independent re-parser)
        for h in batch:
            oracle(h)
        for h in batch:
            shutil.rmtree(h["wd"], ignore_errors=True)

    def oracle(h):
        pending = []

        def V(key, what, rep):
            pending.append((key, what, rep))
        oracle_body(h, V)
        if pending and any(c.is_known(k) is None for k, _, _ in pending):
            # before blaming the archive code: did an integrator damage the heap while this history ran?
            loc = asan_classify(h["hist"], W)
            if loc is not None and loc[0] not in ARCHIVE_SOURCES and loc[0] not in ("?", "asan-run-failed"):
                key = "%s:%d" % (loc[0], loc[1])
                outside[key] = outside.get(key, 0) + 1
                return
        for k, w, r in pending:
            c.violation(k, w, r)

    def oracle_body(h, V):
        wd, meta, n, hist = h["wd"], h["meta"], h["n"], h["hist"]
        if n == 0:
            return
        real = open(os.path.join(wd, "arch.bin"), "rb").read()
        blobs = ac.parse_archive(real)
        back = meta["back"]
        S = []
        for k in range(n):
            p = os.path.join(wd, "s%d.bin" % k)
            S.append(ac.parse_stream(open(p, "rb").read())[1] if os.path.exists(p) else None)
        reduced = any(s_ is None for s_ in S)
        if reduced:
            # automatic snapshots under exact_finish_time=1 / omitted: no live serialisation could be captured.  The
            # independent re-parser's view of the file stands in: count, offsets, times, cadence and the real
            # loader (vs the re-parser) are still checked
            stats["reduced_oracle_histories"] += 1
            for k in range(n):
                if S[k] is None and k < len(blobs):
                    S[k] = ac.overlay(blobs[0]["recs"], blobs[k]["recs"]) if k else blobs[0]["recs"]
            if any(s_ is None for s_ in S):
                V("count:nocapture", "archive holds %d blobs after %d snapshots were taken" % (len(blobs), n), dict(history=hist))
                return
        ids0 = {ty for ty, pl, _ in S[0] if len(pl)}
        # structural events, by construction and measured
        van, app = set(), set()
        firstvan = None
        for k in range(1, n):
            idk = {ty for ty, pl, _ in S[k] if len(pl)}
            if ids0 - idk and firstvan is None:
                firstvan = k
            van |= ids0 - idk
            app |= idk - ids0
        if hist["structural"] == "single_change":
            stats["single_change_snapshots"] += len([e for e in meta["events"] if isinstance(e, str) and e.startswith("change:")])
            for e in meta["events"]:
                if isinstance(e, str) and e.startswith("change:"):
                    change_kinds[e] = change_kinds.get(e, 0) + 1
        if van:
            stats["vanish_histories"] += 1
        if app:
            stats["appear_histories"] += 1
        if ac.PARTICLES in van:
            stats["shrink_zero"] += 1
        t0 = ac.rec_value(S[0], ac.T_ID)
        same_t0 = [k for k in range(1, n) if ac.rec_value(S[k], ac.T_ID) == t0]
        if same_t0:
            stats["same_t0"] += 1
        skipped = [json.dumps(x) for x in meta["skipped"]]
        done_ops = [o for o in hist["ops"] if json.dumps(o) not in skipped]
        evs = [e for e in meta["events"] if isinstance(e, str)]
        D = set()
        D.add("integrator:" + hist["init"]["integrator"])
        for o in done_ops:
            if o[0] == "integrator":
                D.add("integrator:" + o[1]); D.add("history:integrator_switch")
            elif o[0] == "reset":
                D.add("history:reset_integrator")
            elif o[0] == "synchronize":
                D.add("history:synchronize")
            elif o[0] == "set":
                if o[1] == "N_active" and o[2] > 0:
                    D.add("roles:N_active<N")
                if o[1] == "testparticle_type":
                    D.add("roles:testparticle_type")
                if o[1].endswith("safe_mode") and o[2] == 0:
                    D.add("options:safe_mode=0")
                if o[1].endswith("keep_unsynchronized") and o[2] == 1:
                    D.add("options:keep_unsynchronized")
            elif o[0] == "massless":
                D.add("roles:massless_particle")
            elif o[0] == "lrescale" or (o[0] == "change" and o[1][0] == "lrescale"):
                D.add("variational:lrescale")
            elif o[0] == "variation" and o[1] == 2 and hist["init"]["integrator"] == "ias15":
                D.add("variational:second_order")
            elif o[0] == "change":
                D.add("history:single_field_change")
            elif o[0] == "setsteps":
                D.add("scale:counter>=2^32_in_history")
            elif o[0] == "sett":
                D.add({"t0": "time:repeats_t0_later", "prev": "time:goes_backwards"}.get(o[1], "time:huge_t" if isinstance(o[1], float) and abs(o[1]) > 1e12 else "time:goes_backwards"))
        if any(p_.get("m") == 0.0 for p_ in hist["init"]["particles"][1:]):
            D.add("roles:massless_particle")
        if len(hist["init"]["particles"]) == 1:
            D.add("roles:single_body")
        for e in evs:
            if e.startswith("capture-exception:"):
                capture_exc[e[18:80]] = capture_exc.get(e[18:80], 0) + 1
            if e == "varinit":
                D.add("variational:nonzero_data")
            elif e == "variation_tp":
                D.add("variational:testparticle")
            elif e == "megno":
                D.add("variational:megno")
            elif e.startswith("callback:"):
                D.add("callbacks:" + e.split(":")[1])
            elif e.startswith("merge:"):
                D.add("history:merge_collision")
        if hist.get("tag"):
            D.add("lazy_arrays:" + hist["tag"])
        if hist["structural"] == "nothing_changed":
            D.add("history:nothing_changed")
        if hist["structural"] == "huge_n":
            D.add("scale:huge_N")
        if van:
            D.add("history:array_vanishes")
        if app:
            D.add("history:array_appears")
        if ac.PARTICLES in van:
            D.add("history:particles_to_zero")
        if hist["auto"]:
            D.add("cadence:" + hist["auto"]); D.add("callbacks:heartbeat")
            ievs = [e for e in meta["events"] if isinstance(e, dict) and "hb" in e]
            dirs_ = [e.get("dir", 1) for e in ievs]
            if any(d_ < 0 for d_ in dirs_):
                D.add("time:dt<0_cadence")
            if len(set(dirs_)) > 1:
                D.add("time:direction_reversal")
            if len(ievs) > 1:
                D.add("time:integrate_split")
            if any(e["exact"] == 1 for e in ievs):
                D.add("time:exact_finish_time=1")
            if any(e["exact"] is None for e in ievs):
                D.add("time:exact_finish_time_omitted")
            if any(a["kind"] == "manual" for a in meta["appends"]):
                D.add("cadence:mixed_manual")
        for d_ in D:
            dims[d_] = dims.get(d_, 0) + 1
        if "fixed_idx" in hist:
            dim_by_fixed[hist["fixed_idx"]] = sorted(D)
        if hist.get("row"):
            row = dict(hist["row"])
            # an event whose op was skipped at run time does not count as covered
            evops = {"merge": "merge", "switch": "integrator", "reset": "reset", "n_to_zero": "remove_all", "add": "add", "remove": "remove",
                     "lrescale": "lrescale", "sett_t0": "sett", "hash": "hash", "callback": "callback", "edit": "edit", "synchronize": "synchronize",
                     "setting": "set"}
            sk = {x[0] for x in meta["skipped"]}
            for fk in ("eventA", "eventB"):
                if evops.get(row[fk]) in sk:
                    row[fk] = None
            if row["roles"] == "variational" and "variation" in sk:
                row["roles"] = None
            if row.get("prev", "none") != "none" and "integrator" in sk:
                row["prev"] = None
            if back.get("error") or reduced:
                row["restore"] = None
            if row.get("restore") == "c_api":
                rr = subprocess.run([open_exe, os.path.join(wd, "arch.bin"), "-"], capture_output=True, text=True)
                ls = rr.stdout.splitlines()
                got = [(int(x.split("off=")[1].split()[0]), x.split("t=")[1].split()[0], "load=ok" in x) for x in ls if x.startswith("blob")]
                want = [(bl["off"], (ac.rec_value(bl["recs"], ac.T_ID) or ac.rec_value(blobs[0]["recs"], ac.T_ID))[::-1].hex(), True) for bl in blobs]
                # the other C entry points on the same archive: reb_simulation_copy / reb_simulation_diff_char of the last
                # snapshot (mode 4), index reuse (mode 5), caller-owned handle (1), from memory (2), create_from_file (3)
                eb = subprocess.run([open_exe, "--batch"], input="".join("%s - %d\n" % (os.path.join(wd, "arch.bin"), m_) for m_ in (1, 2, 3, 4, 5)),
                                    capture_output=True, text=True).stdout.splitlines()
                tl = want[-1][1] if want else "-"
                okl = [l for l in eb if l.startswith("entry ")]
                badl = [l for l in okl if not (("nblobs=%d " % len(want)) in l or ("sim=ok t=%s" % tl) in l)]
                if len(okl) != 5 or badl or any(l.startswith("status ") and l != "status 0" for l in eb) or any(l.startswith("load") and not l.endswith("ok") for l in eb):
                    V("c_api:entry", "C entry points on a complete archive of %d snapshots (last t=%s): %s" % (len(want), tl, (badl or eb)[:3]), dict(history=hist))
                elif any(l.startswith("entry 4") and ("copy=ok copy_t=%s" % tl) not in l for l in okl):
                    V("c_api:copy", "reb_simulation_copy of the restored last snapshot: %s" % [l for l in okl if l.startswith("entry 4")], dict(history=hist))
                else:
                    stats["c_api_entry_sets"] = stats.get("c_api_entry_sets", 0) + 1
                if rr.returncode != 0 or got != want:
                    V("c_api:index", "C API (create_from_file + create_from_simulationarchive) exposes %s, the file holds %s" % (got[:4], want[:4]), dict(history=hist, rc=rr.returncode))
            tracker.add(row)
            if row["first"] and row["eventA"] and row["eventB"]:
                tri_done.add((row["first"], row["eventA"], row["eventB"]))
            stats["pairwise_histories"] += 1
        key = (hist["structural"] or hist["auto"] or "free", hist["init"]["integrator"], n, tuple(sorted(van)), tuple(sorted(app)))
        c.count(key, nontrivial=n >= 2, n=n)
        kinds_hist[key[0]] = kinds_hist.get(key[0], 0) + 1
        stats["appends"] += n
        rep = dict(history=hist, n_appends=n)
        # (a) count: every append is a readable snapshot
        nb_real = back.get("nblobs", 0) if not back.get("error") else 0
        limit = n
        if str(back.get("error", "")).startswith("reader died"):
            limit = 0       # reported when it happened
        elif len(blobs) != n or nb_real != n:
            if firstvan is not None and min(len(blobs), nb_real) >= firstvan and not v[0]:
                V(K_F1, "archive exposes %d of %d snapshots after a persisted array vanished" % (nb_real, n), rep)
            else:
                V("count:%s" % key[0], "archive exposes %d (re-parser: %d) of %d snapshots written (%s)" % (nb_real, len(blobs), n, back.get("error")), rep)
            limit = min(len(blobs), nb_real, n)
        # (b) offsets and times
        for k in range(limit):
            tk = ac.rec_value(S[k], ac.T_ID)
            if back["offset"][k] != blobs[k]["off"]:
                V("offset:%s" % key[0], "index offset of snapshot %d is %d, blob starts at %d" % (k, back["offset"][k], blobs[k]["off"]), rep)
            if back["t"][k] != tk[::-1].hex():
                if firstvan is not None and k >= firstvan and not v[0]:
                    V(K_F1, "index time of snapshot %d (after a persisted array vanished) is wrong" % k, rep)
                elif k > 0 and tk == t0 and back["t"][k] == "0" * 16 and not v[1]:
                    V(K_F11, "index time of snapshot %d taken at t0=%r is reported as 0" % (k, struct.unpack("<d", tk)[0]), rep)
                else:
                    V("time:%s" % key[0], "index time of snapshot %d is %s, live time was %s" % (k, back["t"][k], tk[::-1].hex()), rep)
        # (c) snapshot k equals the live state
        for k in range(limit):
            live = ac.canon(S[k])
            recs = ac.overlay(blobs[0]["recs"], blobs[k]["recs"]) if k else blobs[0]["recs"]
            dd = ac.diff_canon(ac.canon(recs), live)
            lp = os.path.join(wd, "l%d.bin" % k)
            dl = ["unreadable"]
            if os.path.exists(lp):
                try:
                    la = ac.canon(ac.parse_stream(open(lp, "rb").read())[1])
                    lv = dict(live)
                    la.pop(87, None); lv.pop(87, None)
                    dl = ac.diff_canon(la, lv)
                except ac.FormatError:
                    pass
            stats["fieldwise_checked"] += 1
            if (dd or dl) and firstvan is not None and k >= firstvan and not v[0]:
                V(K_F1, "snapshot %d, written after a persisted array vanished, differs from the live state in field ids %s" % (k, dd[:8]), rep)
            elif dd or dl:
                ids = sorted(set(dd) | set(x for x in dl if isinstance(x, int)))
                szero = False
                if ids == [ac.PARTICLES] and os.path.exists(lp):
                    try:
                        szero = ac.only_sign_of_zero(ac.canon(recs).get(85, b""), live.get(85, b"")) and \
                            ac.only_sign_of_zero(ac.canon(ac.parse_stream(open(lp, "rb").read())[1]).get(85, b""), live.get(85, b""))
                    except Exception:
                        szero = False
                if szero:
                    V(K_F18, "snapshot %d restores +0.0 where the live particle coordinate was -0.0 (reb_particle_diff compares with !=)" % k, rep)
                else:
                    V("snapshot-differs:%s" % key[0], "snapshot %d differs from the live state in field ids %s (file) / %s (loader)" % (k, dd[:8], dl[:8]), rep)
            # memory image of the live state (struct members and the arrays they point to, read without the stream writer)
            # against (i) the serialisation written at that moment, (ii) the memory image of the restored snapshot
            idf = meta["appends"][k].get("image_diff")
            if idf is not None:
                stats["image_vs_stream_checks"] = stats.get("image_vs_stream_checks", 0) + 1
                if idf:
                    V("image:%d" % idf[0][0], "snapshot %d: the serialisation written by reb_simulation_save_to_stream differs from the live memory in field id(s) %s "
                      "([id, bytes in memory, bytes in the stream])" % (k, idf[:6]), rep)
            rdf = (back.get("image_diff") or {}).get(str(k))
            if rdf is not None:
                stats["restored_image_checks"] = stats.get("restored_image_checks", 0) + 1
                if rdf:
                    V("restored-image:%d" % rdf[0][0], "snapshot %d restored: memory differs from the live memory at save time in field id(s) %s "
                      "([id, bytes live, bytes restored])" % (k, rdf[:6]), rep)
            lv = meta["appends"][k].get("live")
            rv_ = back["vals"][k] if k < len(back.get("vals", [])) else None
            if lv is not None and rv_ is not None:
                stats["live_value_checks"] += 1
                bad = sorted(a_ for a_ in lv if lv[a_] != rv_.get(a_))
                if bad:
                    V("restored-value:%s" % bad[0], "snapshot %d restores %s = %r, the live simulation had %r (compared on the structs, not on streams)" % (
                        k, bad[0], rv_.get(bad[0]), lv[bad[0]]), rep)
            e = back["eq"][k] if k < len(back.get("eq", [])) else None
            if meta["appends"][k]["selfeq"] and e is not None:
                stats["eq_checked"] += 1
                if not e and firstvan is not None and k >= firstvan and not v[0]:
                    V(K_F1, "loaded snapshot %d (after a persisted array vanished) != the kept copy" % k, rep)
                elif not e:
                    V("eq:%s" % key[0], "loaded snapshot %d != the copy of the live state kept at save time" % k, rep)
        # (d) automatic cadence
        if hist["auto"]:
            stats["auto_histories"] += 1
            exp, lag, segs = expected_cadence(meta, cad_repaired)
            got = [(a["steps"], a["t"]) for a in meta["appends"] if a["kind"] == "auto"]
            stats["auto_snapshots"] += len(got)
            dirs = tuple(sg["sign"] for sg in segs)
            stats["auto_backward" if all(d < 0 for d in dirs) and dirs else "auto_mixed" if len(set(dirs)) > 1 else "auto_forward"] += 1
            if lag:
                # the prescribed time lags behind t (interval shorter than a step): which boundaries get a snapshot is
                # not prescribed, but one state is never written twice
                stats["lagging"] += 1
                # (a reversal of the direction of integration writes a second snapshot at the turning point with the other
                #  sign of dt: a different state, not counted)
                evs_ = [e_ for e_ in meta["events"] if isinstance(e_, dict) and "hb" in e_ and e_["auto"] is not None]
                sgn_of = [e_.get("dir", 1) for e_ in evs_ for _ in range(e_["nnew"])]
                gotd = [g + (sgn_of[i_] if i_ < len(sgn_of) else 0,) for i_, g in enumerate(got)]
                dup = sorted({g[:2] for g in gotd if gotd.count(g) > 1})
                if dup:
                    stats.setdefault("duplicate_examples", [])
                    if len(stats["duplicate_examples"]) < 4:
                        stats["duplicate_examples"].append(dict(dup=dup[:3], integrator=hist["init"]["integrator"], ops=[o for o in hist["ops"] if o[0] in ("auto_interval", "integrate", "auto_step")][:8],
                                                               dirs=dirs, vals=[sg["val"] for sg in segs][:3]))
                    V(K_DUP, "automatic snapshots are written twice at the same (steps_done, t) %s: the prescribed time lags behind t (interval %s "
                      "shorter than a step) and the heartbeat runs twice at the same time (end of one integrate(), start of the next)" % (
                          dup[:4], [sg["val"] for sg in segs][:1]), rep)
                else:
                    stats["lagging_no_duplicate"] = stats.get("lagging_no_duplicate", 0) + 1
            elif got != exp:
                V("cadence:%s" % hist["auto"], "automatic snapshots at (steps,t) %s, prescribed cadence gives %s (directions %s)" % (got[:8], exp[:8], dirs), rep)
            # tie: the Lean heartbeat model (same definitions as in the cadence theorems, on IEEE doubles) run over the
            # recorded step boundaries must give the number of snapshots of every integrate() call and the persisted
            # cadence state after it (lagging runs included)
            lines = []
            evs = [e for e in meta["events"] if isinstance(e, dict) and "hb" in e and e["auto"] is not None]
            for sg in segs:
                if sg["mode"] == "interval":
                    lines.append("%s %d %s %s %s" % ("cadR" if cad_repaired else "cad", sg["sign"], d2h(sg["val"]), d2h(sg["next0"]), " ".join(th for _, th in sg["bounds"])))
                else:
                    lines.append("cadstep %d %d %s" % (sg["val"], sg["next0"], " ".join(str(sd) for sd, _ in sg["bounds"])))
            outs = run_driver(exe, lines) if lines else []
            for sg, e, o in zip(segs, evs, outs):
                flags, nx = o.split()
                real_next = sg["next_after"] if sg["mode"] == "interval" else str(sg["next_step_after"])
                if flags.count("1") != e["nnew"] or nx != real_next:
                    c.corr_break("heartbeat model: %d snapshots, next=%s; real code: %d snapshots, next=%s (history %d, sign %d)" % (
                        flags.count("1"), nx, e["nnew"], real_next, h["i"], sg["sign"]), dict(history=hist, segment={k: v for k, v in sg.items() if k != "bounds"}))
                else:
                    stats["cadence_segments_model_equal"] += 1

    # pairwise covering array over the explicit factors (fixed array; quick = seed-rotated slice, thorough = all rows)
    prow_all = ac.covering_array(ac.C06_FACTORS, ac.c06_excluded, SplitMix(20260930), 120)
    tracker = ac.PairTracker(ac.C06_FACTORS, ac.c06_excluded)
    # 3-way for the factors closest to the delta encoder: (first snapshot with/without the lazily allocated arrays, event A,
    # event B) - every admissible triple gets a row (thorough tier), integrator / restore path rotating
    F6 = ac.C06_FACTORS
    tri_all, tri_rows, tri_done = [], [], set()
    for f_ in F6["first"]:
        for a_ in F6["eventA"]:
            for b_ in F6["eventB"]:
                for i_ in range(len(F6["integrator"])):
                    row = dict(integrator=F6["integrator"][(len(tri_all) + i_) % len(F6["integrator"])], first=f_, cadence="manual", eventA=a_, eventB=b_,
                               roles=("variational" if a_ == "lrescale" else "plain"), prev="none", restore=F6["restore"][len(tri_all) % len(F6["restore"])])
                    ks_ = sorted(row)
                    if not any(ac.c06_excluded(x_, row[x_], y_, row[y_]) for ix_, x_ in enumerate(ks_) for y_ in ks_[ix_ + 1:]):
                        tri_all.append((f_, a_, b_))
                        tri_rows.append(row)
                        break
    if c.thorough:
        prows = list(prow_all) + tri_rows
    else:
        nsl = 90
        off = ((c.seed - 1) * nsl) % len(prow_all)
        prows = (prow_all + prow_all)[off:off + nsl]
    c.cov["pairwise_rows"] = {"array": len(prow_all), "this_run": len(prows)}
    open_exe = compile_harness(d, os.path.join(ROOT, "harness", "c07_open.c"), os.path.join(d, "c07_open"))
    def make_hist(hi, rng, rows, maxapp_):
        r = hi % 12
        if r in (2, 4, 8, 10, 11) and rows:
            return ac.c06_history_from_row(rng, rows.pop(0))
        if hi == 5:
            return ac.gen_history(rng, 2500 if c.thorough else 700, structural="huge_n")
        if r in (0, 3, 6, 9):
            return ac.gen_history(rng, rng.randint(2, maxapp_), structural=STRUCT_KINDS[(hi // 3) % len(STRUCT_KINDS)], variant=hi // 3)
        if r in (1, 7):
            return ac.gen_history(rng, 0, auto=("interval" if (hi // 2) % 2 else "step"))
        return ac.gen_history(rng, rng.randint(1, maxapp_))

    # the dimension obligations must not depend on the seed: a FIXED list of histories (fixed generator seed, independent of
    # --seed) runs first; PRELUDE_IDX = a set cover of REQUIRED_DIMS computed once over that list (C06_DUMP_DIMS=<file> dumps
    # the dimensions of every fixed history for recomputing it)
    prng = SplitMix(20261002)
    frows = list(prow_all)
    fixed = []
    for i_ in range(300):
        if i_ == 5:
            continue
        h_ = make_hist(i_, prng.fork(), frows, 10)
        h_["fixed_idx"] = i_
        fixed.append(h_)
    dump_dims = os.environ.get("C06_DUMP_DIMS")
    forced = list(fixed) if dump_dims else [h_ for h_ in fixed if h_["fixed_idx"] in PRELUDE_IDX]
    forced.append(ac.gen_history(prng.fork(), 2500 if c.thorough else 700, structural="huge_n"))
    c.cov["prelude_histories"] = len(forced)
    while (hi < nh or forced) and time.time() - t_start < budget:
        rng = c.rng.fork()
        if forced:
            hist = forced.pop(0)
        else:
            hist = make_hist(hi, rng, prows, maxapp)
        wd = os.path.join(W, "h%d" % hi)
        os.makedirs(wd)
        if cad_repaired:
            hist["cad_repaired"] = True
        rc = ac.fork_run(ac.run_history, rebound, hist, wd)
        mp = os.path.join(wd, "meta.json")
        stats["histories"] += 1
        integ_hist[hist["init"]["integrator"]] = integ_hist.get(hist["init"]["integrator"], 0) + 1
        bp = os.path.join(wd, "back.json")
        if os.path.exists(mp) and not os.path.exists(bp):
            # the history ran, the real reader died (or hung) on the archive the real writer produced
            prog = "readback"
            mo = run_driver(exe, ["open %s %s" % (V, os.path.join(wd, "arch.bin"))])[0]
            rep = dict(history=hist, rc=rc, model_open=mo)
            if mo.startswith("undefined"):
                stats["reader_overflow"] += 1
                c.violation(K_F19, "opening the archive the writer produced kills the process (rc %s): a garbled blob (F1) makes the index "
                            "builder fread a 't' field with the size found in the file into an 8-byte slot" % rc, rep)
            else:
                # heap damage done by an integrator earlier in the same process shows up here as well: locate the
                # first memory error on an AddressSanitizer build before blaming the reader
                loc = asan_classify(hist, W)
                if loc is not None and loc[0] not in ARCHIVE_SOURCES and loc[0] not in ("?", "asan-run-failed"):
                    key = "%s:%d" % (loc[0], loc[1])
                    outside[key] = outside.get(key, 0) + 1
                    shutil.rmtree(wd, ignore_errors=True)
                    hi += 1
                    continue
                stats["child_crash"] += 1
                rep["asan"] = loc
                c.violation("crash:readback", "real reader died (rc %s) on an archive written by the real code; model says %s" % (rc, mo[:80]), rep)
            meta = json.load(open(mp))
            meta["back"] = dict(error="reader died rc %s" % rc, nblobs=0, t=[], offset=[], eq=[])
            json.dump(meta, open(mp, "w"))
            json.dump(meta["back"], open(bp, "w"))
        if not os.path.exists(mp):
            # the real code died / hung while executing a history: an output.  Only a death inside an archive
            # operation (snapshot, automatic cadence) concerns C06; elsewhere it is a hazard of the
            # generated op (counted, history dropped)
            prog = open(os.path.join(wd, "progress")).read() if os.path.exists(os.path.join(wd, "progress")) else "?"
            opn = prog.split()[-1]
            if opn in ("snap", "auto_interval", "auto_step") or (opn == "integrate" and rc != -14):
                # heap damage done earlier (by an integrator) typically shows at the next malloc, i.e. here:
                # locate the first memory error with an AddressSanitizer build before blaming the archive code
                loc = asan_classify(hist, W)
                if loc is not None and loc[0] not in ARCHIVE_SOURCES and loc[0] not in ("?", "asan-run-failed"):
                    key = "%s:%d" % (loc[0], loc[1])
                    outside[key] = outside.get(key, 0) + 1
                else:
                    stats["child_crash"] += 1
                    c.violation("crash:%s" % opn, "real code died (rc %s) during '%s' (first memory error: %s)" % (rc, prog, loc), dict(history=hist, progress=prog, asan=loc))
            else:
                hazards[opn] = hazards.get(opn, 0) + 1
            shutil.rmtree(wd, ignore_errors=True)
            hi += 1
            continue
        meta = json.load(open(mp))
        meta["back"] = json.load(open(bp))
        stats["skipped_ops"] += len(meta["skipped"])
        stats["merges"] += len([e for e in meta["events"] if isinstance(e, str) and e.startswith("merge")])
        nocap = any(a.get("nocapture") for a in meta["appends"])
        if nocap:
            stats["nocapture"] += 1
        batch.append(dict(i=hi, wd=wd, meta=meta, hist=hist, n=len(meta["appends"]), nocapture=nocap))
        if hi < 3:
            c.sample({"history": hi, "init_integrator": hist["init"]["integrator"], "ops": [o[0] for o in hist["ops"]][:20], "appends": len(meta["appends"])})
        hi += 1
        if len(batch) >= 40:
            flush(batch)
            batch = []
    if batch:
        flush(batch)
    c.cov.update(stats)
    c.cov["pairs"] = tracker.report()
    c.cov["pairs"]["triples_first_eventA_eventB"] = dict(covered=len(tri_done & set(tri_all)), total=len(tri_all),
                                                         missing=sorted(set(tri_all) - tri_done)[:12])
    if c.thorough and c.cov["pairs"]["covered"] < c.cov["pairs"]["total"]:
        c.broken.append("pairwise coverage of the history factors incomplete: %d of %d pairs; missing e.g. %s" % (
            c.cov["pairs"]["covered"], c.cov["pairs"]["total"], c.cov["pairs"]["missing"][:5]))
    if c.thorough and len(tri_done & set(tri_all)) < len(tri_all):
        c.broken.append("3-way coverage (first, eventA, eventB) incomplete: missing %s" % sorted(set(tri_all) - tri_done)[:8])
    c.cov["dimensions"] = dict(sorted(dims.items()))
    # ---- public entry points (extracted from the source under test): each must have run at least once
    c_seen, py_seen = ac.read_entry_trace(elog)
    if stats.get("c_api_entry_sets"):
        c_seen |= ac.harness_calls([os.path.join(ROOT, "harness", "c07_open.c")], cent)
    ep_missing = sorted(set(cent) - c_seen) + sorted(set(pyent) - py_seen)
    c.cov["entry_points"] = dict(c_extracted=len(cent), c_exercised=len(set(cent) & c_seen), python_extracted=len(pyent), python_exercised=len(set(pyent) & py_seen),
                                 c=sorted(cent), python=sorted(pyent), not_exported_on_the_way=sorted(cint), missing=ep_missing)
    if len(cent) < 15 or len(pyent) < 10:
        c.corr_break("entry-point extraction found only %d C functions / %d Python methods" % (len(cent), len(pyent)))
    if ep_missing:
        c.broken.append("public entry point(s) reaching the archive code not exercised in this run: %s" % ", ".join(ep_missing))
    if os.environ.get("C06_DUMP_DIMS"):
        json.dump({str(k_): v_ for k_, v_ in dim_by_fixed.items()}, open(os.environ["C06_DUMP_DIMS"], "w"))
    missing = [d_ for d_ in REQUIRED_DIMS if not dims.get(d_)]
    c.cov["dimensions_missing"] = missing
    if missing and time.time() - t_start < budget:
        c.broken.append("dimension(s) not covered by the generated histories: %s" % ", ".join(missing))
    c.cov["capture_exceptions"] = capture_exc
    c.cov["single_change_kinds"] = change_kinds
    c.cov["generator_hazards_dropped"] = hazards
    c.cov["memory_errors_outside_the_archive_code"] = outside
    c.cov["first_integrator_histogram"] = integ_hist
    c.cov["history_kind_histogram"] = kinds_hist
    c.log("histories %d appends %d bytes_equal %d index_equal %d snapshots %d" % (stats["histories"], stats["appends"], stats["bytes_equal"], stats["index_equal"], stats["snapshots_decoded"]))


if __name__ == "__main__":
    main("C06", run)
