"""Greedy all-pairs covering arrays with explicit constraints (used by rv/c02.py and rv/c04.py).

factors : dict name -> list of values (order = declaration order)
ok      : function(case dict) -> bool, the constraints (combinations the code rejects / that are meaningless);
          every exclusion is listed by the caller in its notes, never silent
"""
import itertools


def _pairs_of(case, names):
    return {(f, case[f], g, case[g]) for i, f in enumerate(names) for g in names[i + 1:]}


def valid_pairs(factors, ok, rng, tries=120):
    """the pairs for which at least one complete admissible case exists (found by sampling completions)"""
    names = list(factors)
    valid, excluded = set(), set()
    for i, f in enumerate(names):
        for g in names[i + 1:]:
            for a in factors[f]:
                for b in factors[g]:
                    found = False
                    for _ in range(tries):
                        case = {h: rng.choice(factors[h]) for h in names}
                        case[f], case[g] = a, b
                        if ok(case):
                            found = True
                            break
                    (valid if found else excluded).add((f, a, g, b))
    return valid, excluded


def covering_array(factors, ok, rng, ncand=50, maxcases=2000):
    """greedy: repeatedly pick, among `ncand` random admissible candidates seeded with an uncovered pair, the one covering most uncovered pairs"""
    names = list(factors)
    valid, excluded = valid_pairs(factors, ok, rng)
    todo = set(valid)
    cases = []
    while todo and len(cases) < maxcases:
        seedp = sorted(todo, key=repr)[rng.randint(0, len(todo) - 1)]
        best, bestn = None, -1
        for _ in range(ncand):
            case = {h: rng.choice(factors[h]) for h in names}
            case[seedp[0]], case[seedp[2]] = seedp[1], seedp[3]
            if not ok(case):
                continue
            n = len(_pairs_of(case, names) & todo)
            if n > bestn:
                best, bestn = case, n
        if best is None:
            todo.discard(seedp)
            valid.discard(seedp)
            excluded.add(seedp)
            continue
        cases.append(best)
        todo -= _pairs_of(best, names)
    return cases, valid, excluded


def triples_array(factors, ok, rng, names3, base_cases):
    """extend `base_cases` so that every admissible triple of the factors `names3` occurs"""
    names = list(factors)
    seen = {tuple(c[n] for n in names3) for c in base_cases}
    extra = []
    for combo in itertools.product(*[factors[n] for n in names3]):
        if combo in seen:
            continue
        for _ in range(200):
            case = {h: rng.choice(factors[h]) for h in names}
            for n, v in zip(names3, combo):
                case[n] = v
            if ok(case):
                extra.append(case)
                break
    return extra


class PairLog:
    """records the factor vectors of the cases that were really evaluated and reports coverage"""

    def __init__(self, factors, valid, excluded):
        self.names = list(factors)
        self.valid = valid
        self.excluded = excluded
        self.seen = set()
        self.ncases = 0

    def add(self, case):
        self.ncases += 1
        self.seen |= _pairs_of(case, self.names)

    def report(self):
        cov = self.seen & self.valid
        missing = sorted(self.valid - self.seen, key=repr)
        return {"covered": len(cov), "total": len(self.valid), "excluded": len(self.excluded), "cases": self.ncases,
                "factors": {n: None for n in self.names}, "missing": [list(m) for m in missing[:20]]}
