"""C19 translator: the process-global mutable state of the compiled library as plain Lean data
-> lean/RV/Gen/C19Globals.lean.

Nothing is decided here; the tables are compared with the committed allow-list
(ref/C19_globals_allow.json, also transcribed) by `decide` in RV/Props/C19.lean.

sources   nm -S on every scratch object          writable symbols (b B d D C s S g G), with sizes
          readelf -SW on every scratch object    bytes in writable allocated data sections
          nm -u on the scratch shared library    undefined references (libc/libm/pthread routines)
          gcc -E (repo flags) of every compiled  `static` non-const object declarations that survive the
          src/*.c, own lines only                preprocessor (the compiler may have folded them away)
          grep of src/*.c                        assignments to allow-listed "never assigned" pointers
"""
import json, os, re, subprocess, sys

HERE = os.path.dirname(os.path.abspath(__file__))
sys.path.insert(0, HERE)
from common import CFLAGS, SKIP_C, SUFFIX, Infra, ROOT, LEAN, write_if_changed

ALLOW = os.path.join(ROOT, "ref", "C19_globals_allow.json")
WRITABLE_TYPES = set("bBdDCsSgG")
DEFS = [f for f in CFLAGS if f.startswith("-D")]


def sh(cmd, cwd=None):
    p = subprocess.run(cmd, cwd=cwd, capture_output=True, text=True)
    if p.returncode != 0:
        raise Infra("%s failed: %s" % (" ".join(cmd[:3]), p.stderr[:800]))
    return p.stdout


def object_symbols(src):
    """[(object, type, name, size)] writable symbols of every object; [(object, wa_bytes)]"""
    syms, secs = [], []
    objs = sorted(f for f in os.listdir(src) if f.endswith(".o"))
    for o in objs:
        for l in sh(["nm", "-S", o], cwd=src).splitlines():
            t = l.split()
            # "addr size T name"  |  "addr T name"  |  "     U name"
            if len(t) == 4 and t[2] in WRITABLE_TYPES:
                syms.append((o, t[2], t[3], int(t[1], 16)))
            elif len(t) == 3 and t[1] in WRITABLE_TYPES:
                syms.append((o, t[1], t[2], 0))
        wa = 0
        for l in sh(["readelf", "-SW", o], cwd=src).splitlines():
            m = re.match(r"\s*\[\s*\d+\]\s+(\S+)\s+(PROGBITS|NOBITS)\s+\S+\s+\S+\s+([0-9a-f]+)\s+\S+\s+(\S+)\s", l)
            if m and "W" in m.group(4) and "A" in m.group(4) and not m.group(1).startswith(".data.rel.ro"):
                wa += int(m.group(3), 16)
        secs.append((o, wa))
    return objs, syms, secs


def so_tables(d):
    so = os.path.join(d, "librebound" + SUFFIX)
    und = []
    for l in sh(["nm", "-u", so]).splitlines():
        t = l.split()
        if len(t) == 2 and t[0] in ("U", "w"):
            und.append(t[1].split("@")[0])
    wr = []
    for l in sh(["nm", so]).splitlines():
        t = l.split()
        if len(t) == 3 and t[1] in WRITABLE_TYPES:
            wr.append(t[2])
    return sorted(set(und)), sorted(set(wr))


DECL = re.compile(r"^\s*static\s+(?!inline\b|__inline)((?:(?!\().)*?)\s*(=|;)", re.S)


def static_decls(src, objs):
    """`static` object declarations (file scope or inside functions) left after preprocessing,
    from the file's own lines: [(file, name, is_const)]"""
    from concurrent.futures import ThreadPoolExecutor

    def one(o):
        out = []
        cfile = o[:-2] + ".c"
        if not os.path.exists(os.path.join(src, cfile)):
            return out
        p = subprocess.run(["gcc", "-E", "-std=c99"] + DEFS + [cfile], cwd=src, capture_output=True, text=True)
        if p.returncode != 0:
            raise Infra("gcc -E %s failed: %s" % (cfile, p.stderr[:800]))
        own = False
        for line in p.stdout.splitlines():
            m = re.match(r'#\s*\d+\s+"([^"]*)"', line)
            if m:
                own = os.path.basename(m.group(1)) == cfile or (m.group(1).endswith(".h") and "/" not in m.group(1))
                continue
            if not own or "static" not in line:
                continue
            m = DECL.match(line)
            if not m:
                continue
            decl = m.group(1)
            # a declarator list: last identifier before [..] / = / ;
            ids = re.findall(r"[A-Za-z_]\w*", re.sub(r"\[[^\]]*\]", "", decl))
            if not ids:
                continue
            name = ids[-1]
            # `static const T x`, `static T const x`, `static const T* const x` are read-only objects;
            # `static const T* x` is a writable pointer
            toks = decl.replace("*", " * ").split()
            if "*" in toks:
                after = toks[len(toks) - 1 - toks[::-1].index("*"):]
                is_const = "const" in after
            else:
                is_const = "const" in toks
            out.append((cfile, name, is_const))
        return out
    with ThreadPoolExecutor(8) as ex:
        res = list(ex.map(one, objs))
    return [x for r in res for x in r]


def assigned_anywhere(src, names):
    """names (of allow-listed never-assigned pointers) that are assigned somewhere other than their definition"""
    bad = []
    for f in sorted(os.listdir(src)):
        if not f.endswith((".c", ".h")) or f in SKIP_C:
            continue
        txt = open(os.path.join(src, f), errors="replace").read()
        txt = re.sub(r"/\*.*?\*/", "", txt, flags=re.S)
        txt = re.sub(r"//.*", "", txt)
        for n in names:
            for m in re.finditer(r"(?<![\w.>])%s\s*(\[[^\]]*\])?\s*(=(?!=)|\+=|-=|\+\+|--)" % re.escape(n), txt):
                # the definition itself: preceded by a type on the same line
                ls = txt.rfind("\n", 0, m.start()) + 1
                pre = txt[ls:m.start()]
                if re.search(r"\bchar\s*\*\s*$", pre) or re.search(r"\bchar\s*\*\s*const\s*$", pre):
                    continue
                bad.append("%s:%s" % (f, n))
    return sorted(set(bad))


def save_writes(src):
    """what reb_simulation_save_to_stream (output.c) writes into the LIVE simulation it serialises: assignments to r->…
    and calls that receive r without const (the anchored mechanism 'serialisation must not change the evolving state')"""
    txt = open(os.path.join(src, "output.c")).read()
    txt = re.sub(r"/\*.*?\*/", "", txt, flags=re.S)
    txt = re.sub(r"//.*", "", txt)
    m = re.search(r"void\s+reb_simulation_save_to_stream\s*\([^)]*\)\s*\{", txt)
    if not m:
        raise Infra("reb_simulation_save_to_stream not found in output.c")
    i, depth = m.end(), 1
    while i < len(txt) and depth:
        depth += txt[i] == "{"
        depth -= txt[i] == "}"
        i += 1
    body = txt[m.end():i]
    writes = sorted(set(re.findall(r"\br->([\w\.\->\[\]]+?)\s*(?:[-+*/|&]?=(?!=)|\+\+|--)", body)))
    calls = sorted(set(c for c in re.findall(r"\b(reb_\w+)\s*\(\s*r\s*[,)]", body)))
    return writes, calls, len(body)


def lstr(xs):
    return "[" + ", ".join('"%s"' % x for x in xs) + "]"


def generate(d):
    src = os.path.join(d, "src")
    allow = json.load(open(ALLOW))
    objs, syms, secs = object_symbols(src)
    und, so_wr = so_tables(d)
    statics = static_decls(src, objs)
    sw, sc, sblen = save_writes(src)
    never = [n for n, e in allow["writable_globals"].items() if e.get("never_assigned")]
    assigned = assigned_anywhere(src, never)
    symbytes = {}
    for o, t, n, sz in syms:
        symbytes[o] = symbytes.get(o, 0) + sz
    L = []
    L.append("/- generated by rv/extract_c19.py from the scratch build of the working tree; do not edit -/")
    L.append("namespace RV.Gen.C19")
    L.append("")
    L.append("/-- number of objects examined -/")
    L.append("def nObjects : Nat := %d" % len(objs))
    L.append("")
    L.append("/-- writable symbols of the objects (nm types b B d D C s S g G): (object, type, name, size) -/")
    L.append("def writableSyms : List (String × String × String × Nat) := [")
    L.append(",\n".join('  ("%s", "%s", "%s", %d)' % s for s in syms))
    L.append("]")
    L.append("")
    L.append("/-- bytes in writable allocated data sections per object (objects with none omitted): (object, section bytes, bytes covered by the symbols above) -/")
    L.append("def writableBytes : List (String × Nat × Nat) := [")
    L.append(",\n".join('  ("%s", %d, %d)' % (o, w, symbytes.get(o, 0)) for o, w in secs if w))
    L.append("]")
    L.append("")
    L.append("/-- writable symbols of the linked shared library (includes toolchain symbols) -/")
    L.append("def soWritable : List String := " + lstr(so_wr))
    L.append("")
    L.append("/-- undefined references of the shared library -/")
    L.append("def undefinedRefs : List String := " + lstr(und))
    L.append("")
    L.append("/-- `static` non-const object declarations that survive the preprocessor: (file, name) -/")
    L.append("def staticMutable : List (String × String) := [")
    L.append(",\n".join('  ("%s", "%s")' % (f, n) for f, n, c in statics if not c))
    L.append("]")
    L.append("def nStaticConst : Nat := %d" % len([1 for f, n, c in statics if c]))
    L.append("")
    L.append("/-- allow-listed `never assigned` pointers that are assigned somewhere in src/ -/")
    L.append("def assignedNeverAssigned : List String := " + lstr(assigned))
    L.append("")
    L.append("/-- fields of the live simulation that reb_simulation_save_to_stream assigns, and the functions it hands `r` to -/")
    L.append("def saveWrites : List String := " + lstr(sw))
    L.append("def saveCalls : List String := " + lstr(sc))
    L.append("def saveBodyLength : Nat := %d" % sblen)
    L.append("def allowSaveWrites : List String := " + lstr(sorted(allow.get("save_writes", {}))))
    L.append("def allowSaveCalls : List String := " + lstr(sorted(allow.get("save_calls", {}))))
    L.append("")
    L.append("/-! transcription of ref/C19_globals_allow.json -/")
    L.append("def allowGlobals : List String := " + lstr(sorted(allow["writable_globals"])))
    L.append("def allowToolchain : List String := " + lstr(sorted(allow["toolchain_symbols"])))
    L.append("def nonReentrant : List String := " + lstr(sorted(allow["libc_nonreentrant"])))
    L.append("def allowLibc : List String := " + lstr(sorted(allow["libc_allow"])))
    L.append("def allowStatics : List (String × String) := [" +
             ", ".join('("%s", "%s")' % tuple(k.split(":")) for k in sorted(allow["static_decls"])) + "]")
    L.append("")
    L.append("end RV.Gen.C19")
    content = "\n".join(L) + "\n"
    changed = write_if_changed(os.path.join(LEAN, "RV", "Gen", "C19Globals.lean"), content)
    info = {"objects": len(objs), "writable_symbols": [(o, t, n) for o, t, n, s in syms],
            "undefined_refs": len(und), "static_mutable": [(f, n) for f, n, c in statics if not c],
            "static_const": len([1 for f, n, c in statics if c]), "assigned": assigned,
            "so_writable": so_wr, "changed": changed, "save_writes": sw, "save_calls": sc,
            "unallowed_save_writes": sorted(set(sw) - set(allow.get("save_writes", {}))) + sorted(set(sc) - set(allow.get("save_calls", {}))),
            "unallowed_globals": sorted({n for o, t, n, s in syms if n not in allow["writable_globals"]}),
            "unallowed_statics": sorted({"%s:%s" % (f, n) for f, n, c in statics
                                         if not c and "%s:%s" % (f, n) not in allow["static_decls"]}),
            "unallowed_libc": sorted(set(und) & set(allow["libc_nonreentrant"]) - set(allow["libc_allow"]))}
    return info


if __name__ == "__main__":
    from common import build
    d = build(python_pkg=False)
    print(json.dumps(generate(d), indent=1))
