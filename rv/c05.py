"""C05 — a saved simulation restores bit-for-bit and continues bit-for-bit.

proof:   lean/RV/Props/C05.lean — codec theorems for every table with unique ids (decode∘encode = restore,
         exact round trip on the persisted projection, re-save reproduces the stream) + kernel-decided theorems
         about the table/struct layout regenerated from the working tree (coverage, sizes, uniqueness)
tie:     rv/extract_c05.py (table + layout from output.c / rebound.h / compiler) and drv_c05: the model decodes
         streams written by the compiled library and must re-encode them to identical bytes, and must predict
         the stream written after a real load
search:  (i) save -> load -> every persisted byte equal; continue k steps, bitwise, over a lattice of integrators
         and options, four save/load paths; (ii) single-member perturbation sweep through raw struct memory;
         (iii) targeted scenarios derived from the members the coverage theorem lists as not persisted
"""
import ctypes, os, pickle, sys, tempfile, copy as pycopy
sys.path.insert(0, os.path.dirname(os.path.abspath(__file__)))
from common import *
from persist_common import *
import extract_c05

PJH_KEEP = ((0, 48), (72, 80))   # x y z vx vy vz, m : the members of ri_whfast.p_jh that every WHFast coordinate system writes


def translator_obligations(c, info):
    """things the translator itself must find (an extraction that silently finds less fails)"""
    for p in info["problems"]:
        c.corr_break("translator: " + p)
    if info["stale_transient"]:
        c.corr_break("ref/C05_transient.json lists members that no longer exist: %s" % info["stale_transient"])
    if len(info["rows"]) < 100 or len(info["members"]) < 200 or not info["specs"]:
        c.corr_break("translator found too little: rows=%d members=%d compare specs=%d" % (
            len(info["rows"]), len(info["members"]), len(info["specs"])))


def prove_with_gen(c, d, mods):
    """regenerate RV/Gen/C05Descriptors.lean and build the property modules.  The generated file is shared with
    concurrent runs of c05 / c17 against other source trees (seeded-bug runs): if it was rewritten by somebody else
    between our generation and the end of our build, the build is repeated (the proof must be about OUR tree)."""
    gen = os.path.join(LEAN, "RV", "Gen", "C05Descriptors.lean")
    for attempt in range(4):
        info = extract_c05.extract(d, REPO)
        mine = extract_c05.render(info)
        rd = extract_c05.extract_reads(REPO, info)
        info["reads"] = rd
        mine_rd = extract_c05.render_reads(info, rd)
        nb, ob, di = len(c.broken), c.cov["obligations"], c.cov["discharged"]
        ok = c.prove(mods)
        # the native driver embeds the generated table: build it now and keep a private copy of the binary
        exe = lean_exe("drv_c05")
        priv = os.path.join(d, "drv_c05_private")
        try:
            shutil.copy(exe, priv)
            same = open(gen).read() == mine and open(os.path.join(LEAN, "RV", "Gen", "C05Reads.lean")).read() == mine_rd
        except OSError:
            same = False
        if same:
            translator_obligations(c, info)
            info["drv"] = priv
            return info, ok
        c.log("generated table was rewritten by a concurrent run; rebuilding (attempt %d)" % (attempt + 2))
        del c.broken[nb:]
        c.cov["obligations"], c.cov["discharged"] = ob, di
        time.sleep(2 + 3 * attempt)
    translator_obligations(c, info)
    info["drv"] = lean_exe("drv_c05")
    return info, ok


def read_set_report(c, info):
    """Python view of the read-set table (the Lean theorems c05_reads_* decide it): names the offending access"""
    rd = info.get("reads")
    if not rd:
        return
    rules, tj = rd["rules"], info["transient"]
    per = extract_c05.persisted_member_paths(info)
    unr = set(rules["unrestricted_classes"])
    al = {(e["tu"], e["member"]) for e in rules["allowed"]}
    fi = {(e["tu"], e["member"]): e["key"] for e in rules["findings"]}
    allacc = {(f, p_) for f in rd["tus"] for p_ in rd["accesses"][f]}
    restored = set(rules.get("restored_counters", {}))
    cross = [(f, p_) for f, p_ in sorted(allacc) if p_ not in per and p_ not in restored and tj.get(p_, {}).get("class") not in unr
             and f not in extract_c05.owners_of(p_, rules, tj)]
    bad = [x for x in cross if x not in al and x not in fi]
    for f, p_ in bad[:5]:
        c.corr_break("read set: %s accesses the not-persisted member %s which it does not own; not reviewed in ref/C05_reads.json" % (f, p_))
    stale = sorted((al | set(fi)) - allacc)
    for x in stale[:5]:
        c.corr_break("read set: ref/C05_reads.json lists an access that no longer exists: %s" % (x,))
    c.cov["read_sets"] = {"translation_units": len(rd["tus"]), "accesses": len(allacc), "cross_owner_accesses_to_carried_state": len(cross),
                          "reviewed_allowed": len([x for x in cross if x in al]), "finding_rows": {"%s:%s" % k_: v for k_, v in fi.items()}}


def uncovered_members(info):
    per = persisted_paths(info)
    return [m["path"] for m in info["members"] if m["path"] not in per and m["path"] not in info["transient"]]


def persisted_paths(info):
    per = set()
    for r in info["rows"]:
        if r.get("path") and r["dtype"] not in ("REB_OTHER", "REB_FIELD_END"):
            per.add(r["path"])
            if r["dtype"] == "REB_DP7":
                base = r["path"][:-1]
                for k in range(7):
                    per.add(base + str(k))
    return per


def uses_tree(cfg):
    return cfg.get("gravity") == "tree" or cfg.get("collision") in ("tree", "linetree")


class Search:
    def __init__(self, c, rb, info, R):
        self.c, self.rb, self.info, self.R = c, rb, info, R
        self.tmp = tempfile.mkdtemp(prefix="c05.", dir=os.environ.get("VERIF_TMP", "/tmp"))
        self.hist = {}
        self.libc = ctypes.CDLL(None)
        self.libc.malloc.restype = ctypes.c_void_p

    def off(self, path):
        return self.info["by_path"][path]["off"]

    def tag(self, cfg, path, kind):
        for dn in case_dims(cfg, path, kind):
            self.hist["dim|" + dn] = self.hist.get("dim|" + dn, 0) + 1

    def peek(self, sim, path, ty=ctypes.c_uint):
        return ty.from_address(ctypes.addressof(sim) + self.off(path)).value

    def poke(self, sim, path, val, ty=ctypes.c_uint):
        ty.from_address(ctypes.addressof(sim) + self.off(path)).value = val

    # ---- the four save/load paths
    def restore(self, sim, path):
        R = self.R
        if path == "buffer":
            return R.load_bytes(R.save(sim))
        if path == "file":
            fn = os.path.join(self.tmp, "s.bin")
            if os.path.exists(fn):
                os.remove(fn)
            sim.save_to_file(fn)
            r = R.load_file(fn)
            os.remove(fn)
            return r
        if path == "copy":
            return R.copy(sim)
        if path == "pickle":
            import warnings
            with warnings.catch_warnings(record=True) as w:
                warnings.simplefilter("always")
                r = pickle.loads(pickle.dumps(sim))
            return r, [str(x.message) for x in w]
        if path in ("sa_index", "sim_file_snapshot", "bytes_archive"):
            # two-snapshot archive: snapshot 0 = now, one more step of the ORIGINAL, snapshot 1 = the state returned
            import warnings
            fn = os.path.join(self.tmp, "two.bin")
            if os.path.exists(fn):
                os.remove(fn)
            sim.save_to_file(fn)
            gap = getattr(self, "gap", None) or "step"
            if gap in ("step",):
                advance(sim, 1)
            elif gap == "reset":
                sim.reset_integrator()                 # every integrator array of snapshot 0 vanishes
            elif gap == "reset_step":
                sim.reset_integrator(); advance(sim, 1)
            elif gap == "remove_step":
                apply_ops(sim, ["remove_last"]); advance(sim, 1)
            elif gap == "switch_reset_step":
                apply_ops(sim, ["switch:leapfrog"]); advance(sim, 1)
            sim.save_to_file(fn)
            with warnings.catch_warnings(record=True) as w:
                warnings.simplefilter("always")
                if path == "sa_index":
                    sa = self.rb.Simulationarchive(fn)
                    r = sa[1]
                elif path == "sim_file_snapshot":
                    r = self.rb.Simulation(fn, snapshot=1)
                else:
                    with open(fn, "rb") as fh:
                        r = self.rb.Simulation(fh.read())
            os.remove(fn)
            return r, [str(x.message) for x in w if "synchronized" not in str(x.message)]
        raise ValueError(path)

    def semantic(self, fields):
        """view with the never-initialised members of ri_whfast.p_jh removed"""
        out = []
        psz = self.info["psz"]
        vl = self.info["elems"]["reb_variational_configuration"]
        vm = {m["name"]: m for m in vl["members"]}
        for t, p in fields:
            if self.R.names.get(t) == "ri_whfast.p_jh":
                p = b"".join(p[e + lo:e + hi] for e in range(0, len(p), psz) for lo, hi in PJH_KEEP)
            elif self.R.names.get(t) == "var_config":
                # index_1st_order_a/b are never written for first-order configurations (finding C05-N14)
                b = bytearray(p)
                for e in range(0, len(b) - vl["size"] + 1, vl["size"]):
                    if struct.unpack_from("<i", b, e + vm["order"]["off"])[0] == 1:
                        for nm in ("index_1st_order_a", "index_1st_order_b"):
                            b[e + vm[nm]["off"]:e + vm[nm]["off"] + vm[nm]["size"]] = b"\0" * vm[nm]["size"]
                p = bytes(b)
            out.append((t, p))
        return out

    def budget_left(self):
        """classification (re-running a failing case with counterfactual repairs) is capped so that a run with many
        failing cases stays inside the time budget; the first failing cases are always classified and reported"""
        fnb = os.path.join(os.environ.get("VERIF_TMP", "/tmp"), "c05_budget_%d" % os.getppid() if isinstance(self.c, Rec) else "c05_budget_%d" % os.getpid())
        try:
            fd = os.open(fnb, os.O_WRONLY | os.O_CREAT | os.O_APPEND)
            os.write(fd, b"x")
            os.close(fd)
            return os.path.getsize(fnb) <= (400 if self.c.thorough else 60)
        except OSError:
            return True

    def classify_continue(self, cfg, a0_bytes, path, k, d_first):
        """a continuation difference was found: decide by counterfactual repair whether it is one of the recorded
        findings; returns a finding key or None (fresh violation)"""
        R, rb = self.R, self.rb
        if uses_tree(cfg):
            return self.tree_signature(cfg, path, k)
        # rebuild original and restored from scratch so the counterfactual starts from the same states
        a = build_sim(rb, cfg); advance(a, cfg["save_after"])
        self.pre_save_edit(a, cfg)
        r, _ = self.restore(a, path); attach(r, cfg)
        key = None
        if cfg["integrator"] == "trace" and self.peek(a, "ri_trace.peri_mode") != self.peek(r, "ri_trace.peri_mode"):
            self.poke(r, "ri_trace.peri_mode", self.peek(a, "ri_trace.peri_mode"))
            key = "F9a:trace-peri_mode-not-persisted"
        elif cfg["integrator"] == "mercurius" and self.peek(a, "ri_mercurius.recalculate_r_crit_this_timestep") != \
                self.peek(r, "ri_mercurius.recalculate_r_crit_this_timestep"):
            self.poke(r, "ri_mercurius.recalculate_r_crit_this_timestep", 1)
            key = "C05-N1:mercurius-recalculate_r_crit-not-persisted"
        elif cfg["integrator"] == "trace" and cfg.get("collision"):
            # control: is the real code deterministic at all from this state?
            b = R.save(a)
            r1, _ = R.load_bytes(b); attach(r1, cfg)
            r2, _ = R.load_bytes(b); attach(r2, cfg)
            apply_ops(r1, cfg.get("post", [])); apply_ops(r2, cfg.get("post", []))
            advance(r1, k); advance(r2, k)
            if R.first_difference(self.semantic(R.persisted_view(r1)), self.semantic(R.persisted_view(r2))) is not None:
                return "C05-N6:trace-collision-nondeterministic"
            n = self.peek(a, "N_allocated_collisions", ctypes.c_int)
            if n == 0:
                return self.merge_step_signature(cfg, path, k)
            ctypes.c_void_p.from_address(ctypes.addressof(r) + self.off("collisions")).value = self.libc.malloc(n * 256)
            self.poke(r, "N_allocated_collisions", n, ctypes.c_int)
            apply_ops(a, cfg.get("post", [])); apply_ops(r, cfg.get("post", []))
            advance(a, k); advance(r, k)
            d2 = R.first_difference(self.semantic(R.persisted_view(a)), self.semantic(R.persisted_view(r)))
            return "C05-N4:trace-reads-collision-allocation-counter" if d2 is None else self.merge_step_signature(cfg, path, k)
        elif cfg["integrator"] == "bs" or (cfg["integrator"] == "trace"):
            # F9b: the loader's first step re-creates the ODE and forces first_or_last_step=1; do the same to the original
            self.poke(a, "ri_bs.first_or_last_step", 1, ctypes.c_int)
            key = "F9b:bs-first_or_last_step-forced-after-load"
        if key is None:
            return None
        apply_ops(a, cfg.get("post", [])); apply_ops(r, cfg.get("post", []))
        advance(a, k); advance(r, k)
        d2 = R.first_difference(self.semantic(R.persisted_view(a)), self.semantic(R.persisted_view(r)))
        if d2 is None:
            return key
        if key.startswith("F9b"):
            # F9b-2: after a change of the particle number the ORIGINAL sets first_or_last_step=1 lazily in its next
            # step (length of the N-body ODE changed) while a simulation saved in between and restored cannot know
            a = build_sim(rb, cfg); advance(a, cfg["save_after"]); self.pre_save_edit(a, cfg)
            r, _ = self.restore(a, path); attach(r, cfg)
            self.poke(r, "ri_bs.first_or_last_step", 1, ctypes.c_int)
            apply_ops(a, cfg.get("post", [])); apply_ops(r, cfg.get("post", []))
            advance(a, k); advance(r, k)
            if R.first_difference(self.semantic(R.persisted_view(a)), self.semantic(R.persisted_view(r))) is None:
                return "F9b-2:bs-first_or_last_step-set-lazily-after-particle-number-change"
        return None

    def first_divergence(self, cfg, path, k):
        """rebuild original and restored, step one at a time; returns (a, r, step, t_before, N_before) at the first
        step after which the persisted bytes differ, or None"""
        R, rb = self.R, self.rb
        a = build_sim(rb, cfg); advance(a, cfg["save_after"]); self.pre_save_edit(a, cfg)
        r, _ = self.restore(a, path); attach(r, cfg)
        apply_ops(a, cfg.get("post", [])); apply_ops(r, cfg.get("post", []))
        for s_ in range(1, k + 1):
            tb, nb = a.t, (a.N, r.N)
            advance(a, 1); advance(r, 1)
            if R.first_difference(self.semantic(R.persisted_view(a)), self.semantic(R.persisted_view(r))) is not None:
                return a, r, s_, tb, nb
        return None

    def tree_signature(self, cfg, path, k):
        """C05-N2 is ONLY: tree present and complete on both sides, same N, same collisions, and at the first diverging
        step the two particle sets agree up to a permutation and 1e-9 relative (order / summation-order effects of a
        differently shaped tree).  Anything else in a tree configuration is a fresh violation."""
        R = self.R
        fd = self.first_divergence(cfg, path, k)
        if fd is None:
            return None
        a, r, s_, tb, nb = fd
        if not (R.tree_complete(a) and R.tree_complete(r)):
            return None
        if R.collision_signature(a, -1e300)[:2] != R.collision_signature(r, -1e300)[:2]:
            return None
        sa_, sr_ = R.collision_signature(a, tb), R.collision_signature(r, tb)
        if (sa_[0], sa_[2], sa_[3]) != (sr_[0], sr_[2], sr_[3]) or abs(sa_[1] - sr_[1]) > 1e-12 * abs(sa_[1]):
            return None
        if a.t != r.t and cfg["integrator"] not in ("ias15", "bs"):
            return None

        def keyed(sim):
            return sorted((p.m, p.x, p.y, p.z, p.vx, p.vy, p.vz) for p in [sim.particles[i] for i in range(sim.N)])
        scale = max(1.0, max(abs(v) for tup in keyed(a) for v in tup[1:]))
        for ta, tr in zip(keyed(a), keyed(r)):
            if ta[0] != tr[0] or any(not abs(x - y) <= 1e-9 * scale for x, y in zip(ta[1:], tr[1:])):
                return None
        return "C05-N2:tree-restart-not-bitwise"

    def merge_step_signature(self, cfg, path, k):
        """C05-N7 is ONLY: TRACE with collisions, and the first diverging step is a step in which a collision was resolved
        (N changed or some particle's last_collision lies in that step)"""
        fd = self.first_divergence(cfg, path, k)
        if fd is None:
            # the divergence that brought us here does not reproduce when the very same case is run again:
            # that IS the nondeterminism of C05-N6 (TRACE + collisions only; this function is not called otherwise)
            return "C05-N6:trace-collision-nondeterministic"
        a, r, s_, tb, nb = fd
        collided = (a.N, r.N) != nb or any(sim.particles[i].last_collision >= tb for sim in (a, r) for i in range(sim.N))
        return "C05-N7:trace-collision-step-depends-on-transient-arrays" if collided else None

    def continue_diff(self, cfg, path, k):
        """first difference (semantic view) between original and restored after the history of cfg; None if equal"""
        R, rb = self.R, self.rb
        a = build_sim(rb, cfg); advance(a, cfg["save_after"]); self.pre_save_edit(a, cfg)
        r, _ = self.restore(a, path); attach(r, cfg)
        apply_ops(a, cfg.get("post", [])); apply_ops(r, cfg.get("post", []))
        advance(a, k); advance(r, k)
        return R.first_difference(self.semantic(R.persisted_view(a)), self.semantic(R.persisted_view(r)))

    def rawswitch_signature(self, cfg, path, k):
        """C05-N11 is ONLY: the same history with `reset_integrator()` after every integrator assignment continues bit-for-bit"""
        if cfg["integrator"] != "trace":
            return None          # narrowed after ef4d691: only TRACE leaves live-only state behind a raw switch
        cfg2 = dict(cfg)
        cfg2["pre"] = [op.replace("switchraw:", "switch:") for op in cfg.get("pre", [])]
        cfg2["post"] = [op.replace("switchraw:", "switch:") for op in cfg.get("post", [])]
        try:
            return "C05-N11:integrator-switched-without-reset" if self.continue_diff(cfg2, path, k) is None else None
        except Exception:
            return None

    def pre_save_edit(self, sim, cfg):
        """state edits a user performs right before saving (part of the configuration)"""
        e = cfg.get("edit")
        if e == "mercurius_rcrit":
            sim.particles[1].m *= 3.0
            sim.ri_mercurius.recalculate_r_crit_this_timestep = 1
        elif e == "bs_loosen":
            sim.ri_bs.eps_abs = cfg["edit_eps"]
            sim.ri_bs.eps_rel = cfg["edit_eps"]
        apply_ops(sim, cfg.get("pre", []))

    def one(self, cfg, path, k=9):
        """save -> load -> all persisted bytes; continue k steps -> all persisted bytes"""
        c, R, rb = self.c, self.R, self.rb
        try:
            a = build_sim(rb, cfg)
            advance(a, cfg["save_after"])
            self.pre_save_edit(a, cfg)
        except Exception as e:   # configuration rejected by REBOUND itself (e.g. SABA + variational)
            self.hist["rejected_config"] = self.hist.get("rejected_config", 0) + 1
            if cfg.get("pw_index") is not None:
                self.hist["pwrej|%d" % cfg["pw_index"]] = "build: " + str(e)[:120]
            return
        key = cfg_key(cfg)
        # 64-bit counters beyond 2^32 (a field written / read with 4 bytes would come back truncated)
        self.poke(a, "collisions_log_n", 5 * 2 ** 32 + 7, ctypes.c_int64)
        self.hist["dim|scale:counters_ge_2^32"] = self.hist.get("dim|scale:counters_ge_2^32", 0) + 1
        b0 = R.save(a)
        self.gap = cfg.get("gap")
        r, warns = self.restore(a, path)
        if path in ("sa_index", "sim_file_snapshot", "bytes_archive"):
            b0 = R.save(a)        # these paths advance the original by one step; the restored state is the new one
        attach(r, cfg)
        va, vr = R.persisted_view(a, drop_wall=False), R.persisted_view(r, drop_wall=False)
        d1 = R.first_difference(va, vr)
        unsync = any(self.peek(a, p) == 0 for p in ("ri_whfast.is_synchronized", "ri_saba.is_synchronized",
                                                      "ri_eos.is_synchronized", "ri_mercurius.is_synchronized"))
        self.hist["unsynchronized_at_save"] = self.hist.get("unsynchronized_at_save", 0) + (1 if unsync else 0)
        self.hist["path_" + path] = self.hist.get("path_" + path, 0) + 1
        self.hist["integrator_" + cfg["integrator"]] = self.hist.get("integrator_" + cfg["integrator"], 0) + 1
        c.count((key, path), nontrivial=cfg["save_after"] > 0 or bool(cfg.get("o")))
        self.tag(cfg, path, "one")
        if d1:
            c.violation("restore:" + d1.split(" ")[0], "restored simulation differs from the saved one in %s (path %s)" % (d1, path),
                        {"cfg": cfg, "path": path, "difference": d1})
            return
        rawd = R.raw_member_differences(a, r)
        if rawd:
            c.violation("restore-raw:" + rawd[0], "persisted member(s) %s of the restored simulation differ in struct memory from the source although the streams agree (path %s, cfg %s)" % (rawd[:4], path, key),
                        {"cfg": cfg, "path": path, "members": rawd})
            return
        if R.tree_expected(a):
            self.hist["tree_mode_cases"] = self.hist.get("tree_mode_cases", 0) + 1
            if R.tree_complete(a) and not R.tree_complete(r):
                lv = R.tree_leaves(r)
                c.violation("tree-not-rebuilt:%s/%s" % (a.gravity, a.collision),
                            "after restore (%s) the tree of a simulation using gravity=%s collision=%s holds %s of %d particles (source: all): collisions / tree forces are lost, cfg %s" % (
                                path, a.gravity, a.collision, "no tree" if lv is None else len(lv), r.N, key), {"cfg": cfg, "path": path})
                return
            if not R.tree_complete(a):
                self.hist["source_tree_incomplete"] = self.hist.get("source_tree_incomplete", 0) + 1
        bad_warn = [w for w in warns if "function pointers" not in w]
        has_cb = bool(cfg.get("collision")) or bool(cfg.get("cb"))
        if has_cb:
            self.hist["callbacks_set_at_save"] = self.hist.get("callbacks_set_at_save", 0) + 1
        if has_cb != any("function pointers" in w for w in warns):
            only = cfg.get("cb", [])
            c.violation("C05-N12:pre_timestep_modifications-not-flagged" if (only == ["pre"] and not cfg.get("collision")) else
                        "C05-N16:mercurius-L-not-flagged" if (only == ["mercurius_L"] and not cfg.get("collision")) else "callback-warning:" + path,
                        "callbacks %s at save time but the 'reset function pointers' warning is %s on load (%s), cfg %s" % (
                            "set" if has_cb else "not set", "missing" if has_cb else "raised", path, key), {"cfg": cfg, "path": path, "warnings": warns})
        if bad_warn:
            c.violation("warning:" + bad_warn[0][:40], "loading a just-saved simulation warns: %s" % bad_warn[0], {"cfg": cfg, "path": path})
        # re-save reproduces the persisted content
        d1b = R.first_difference(R.masked(parse_stream(b0)[1], False), R.masked(parse_stream(R.save(r))[1], False))
        if d1b:
            c.violation("resave:" + d1b.split(" ")[0], "saving the restored simulation does not reproduce the stream: %s" % d1b, {"cfg": cfg, "path": path})
        try:
            apply_ops(a, cfg.get("post", [])); apply_ops(r, cfg.get("post", []))
            advance(a, k); advance(r, k)
        except Exception as e:
            self.hist["error_while_continuing"] = self.hist.get("error_while_continuing", 0) + 1
            if cfg.get("pw_index") is not None:
                self.hist["pwrej|%d" % cfg["pw_index"]] = "continue: " + str(e)[:120]
            return
        if cfg.get("pre") or cfg.get("post"):
            self.hist["with_history_ops"] = self.hist.get("with_history_ops", 0) + 1
        if cfg.get("pw_index") is not None:
            self.hist["pwdone|%d" % cfg["pw_index"]] = 1       # this factor assignment ran to the end
        if cfg.get("tw_index") is not None:
            self.hist["triples_completed"] = self.hist.get("triples_completed", 0) + 1
        va, vr = R.persisted_view(a), R.persisted_view(r)
        d2 = R.first_difference(va, vr)
        if d2 is None:
            return
        d3 = R.first_difference(self.semantic(va), self.semantic(vr))
        if d3 is None:
            if d2.startswith("var_config"):
                c.violation("C05-N14:var_config-first-order-uninitialised-members",
                            "persisted var_config differs only in index_1st_order_a/b of a FIRST-order configuration, which reb_simulation_add_variation_1st_order never initialises (%s)" % d2,
                            {"cfg": cfg, "path": path, "difference": d2})
            else:
                c.violation("C05-N3:whfast-p_jh-uninitialised-bytes-persisted",
                            "after continuing, the persisted ri_whfast.p_jh differs only in members WHFast never initialises (%s)" % d2,
                            {"cfg": cfg, "path": path, "difference": d2})
            return
        if not self.budget_left():
            self.hist["failing_cases_beyond_classification_budget"] = self.hist.get("failing_cases_beyond_classification_budget", 0) + 1
            return
        rawswitch = any(op.startswith("switchraw:") for op in cfg.get("pre", []) + cfg.get("post", []))
        fk = self.rawswitch_signature(cfg, path, k) if rawswitch else self.classify_continue(cfg, b0, path, k, d3)
        what = "restored simulation does not continue bit-for-bit after %d steps: %s (path %s, cfg %s)" % (k, d3, path, key)
        c.violation(fk if fk else "continue:" + cfg["integrator"] + ":" + d3.split(" ")[0], what,
                    {"cfg": cfg, "path": path, "steps": k, "difference": d3})


def _twin_one(self, cfg, path, k=9):
    """saving must not change the live simulation's later trajectory: a saved and a never-saved twin, same history"""
    c, R, rb = self.c, self.R, self.rb
    try:
        t1 = build_sim(rb, cfg); advance(t1, cfg["save_after"]); self.pre_save_edit(t1, cfg)
        t2 = build_sim(rb, cfg); advance(t2, cfg["save_after"]); self.pre_save_edit(t2, cfg)
    except Exception:
        self.hist["rejected_config"] = self.hist.get("rejected_config", 0) + 1
        return
    c.count(("twin", cfg_key(cfg), path, k), nontrivial=True)
    self.tag(cfg, path, "twin")
    self.hist["twin_cases"] = self.hist.get("twin_cases", 0) + 1
    self.restore(t1, path)            # the save (through any public path); its result is discarded
    try:
        apply_ops(t1, cfg.get("post", [])); apply_ops(t2, cfg.get("post", []))
        advance(t1, k); advance(t2, k)
    except Exception:
        self.hist["error_while_continuing"] = self.hist.get("error_while_continuing", 0) + 1
        return
    if cfg.get("pw_index") is not None:
        self.hist["pwdone|%d" % cfg["pw_index"]] = 1
    if cfg.get("tw_index") is not None:
        self.hist["triples_completed"] = self.hist.get("triples_completed", 0) + 1
    v1, v2 = R.persisted_view(t1), R.persisted_view(t2)
    d = R.first_difference(self.semantic(v1), self.semantic(v2))
    if d is None:
        draw = R.first_difference(v1, v2)
        if draw and draw.startswith("var_config"):
            c.violation("C05-N14:var_config-first-order-uninitialised-members",
                        "two identically built simulations differ in persisted bytes: index_1st_order_a/b of a FIRST-order variational configuration are never initialised (%s)" % draw,
                        {"cfg": cfg, "path": path, "difference": draw})
        return
    # counterfactual: emulate the writer's "compress IAS15 arrays" on the never-saved twin
    t1 = build_sim(rb, cfg); advance(t1, cfg["save_after"]); self.pre_save_edit(t1, cfg)
    t2 = build_sim(rb, cfg); advance(t2, cfg["save_after"]); self.pre_save_edit(t2, cfg)
    self.restore(t1, path)
    na, n = self.peek(t2, "ri_ias15.N_allocated"), self.peek(t2, "N")
    fk = None
    if any(op.startswith("switchraw:") for op in cfg.get("pre", []) + cfg.get("post", [])):
        # C05-N11 only if the same history with reset_integrator() after each assignment keeps the twins identical
        cfg2 = dict(cfg)
        cfg2["pre"] = [op.replace("switchraw:", "switch:") for op in cfg.get("pre", [])]
        cfg2["post"] = [op.replace("switchraw:", "switch:") for op in cfg.get("post", [])]
        try:
            u1 = build_sim(rb, cfg2); advance(u1, cfg2["save_after"]); self.pre_save_edit(u1, cfg2)
            u2 = build_sim(rb, cfg2); advance(u2, cfg2["save_after"]); self.pre_save_edit(u2, cfg2)
            self.restore(u1, path)
            apply_ops(u1, cfg2["post"]); apply_ops(u2, cfg2["post"]); advance(u1, k); advance(u2, k)
            same = R.first_difference(self.semantic(R.persisted_view(u1)), self.semantic(R.persisted_view(u2))) is None
        except Exception:
            same = False
        c.violation("C05-N11:integrator-switched-without-reset" if (same and cfg["integrator"] == "trace") else "save-changes-live-trajectory:" + cfg["integrator"],
                    "saved vs never-saved twin differ in a history that switches integrators without reset: %s, cfg %s" % (d, cfg_key(cfg)),
                    {"cfg": cfg, "path": path, "steps": k})
        return
    if na > 3 * n:
        self.poke(t2, "ri_ias15.N_allocated", 3 * n)
        fk = "C05-N9:save-compresses-live-ias15-arrays"
    apply_ops(t1, cfg.get("post", [])); apply_ops(t2, cfg.get("post", []))
    advance(t1, k); advance(t2, k)
    d2 = R.first_difference(self.semantic(R.persisted_view(t1)), self.semantic(R.persisted_view(t2)))
    if d2 is not None:
        fk = None
    c.violation(fk if fk else "save-changes-live-trajectory:" + cfg["integrator"],
                "a simulation that was saved (%s) evolves differently from its never-saved twin: %s, cfg %s" % (path, d, cfg_key(cfg)),
                {"cfg": cfg, "path": path, "steps": k, "difference": d})


Search.twin_one = _twin_one

PHYS = ("t", "dt", "N", "N_active", "particles", "steps_done", "dt_last_done")


def _archive_one(self, cfg, k=7):
    """every public restore path of an archive with three snapshots, each followed by bitwise continuation against
    an uninterrupted (never saved) run"""
    c, R, rb = self.c, self.R, self.rb
    import warnings
    nsteps = (3, 6, 5)
    fn = os.path.join(self.tmp, "arch.bin")
    if os.path.exists(fn):
        os.remove(fn)
    try:
        a = build_sim(rb, cfg)
        for n in nsteps:
            advance(a, n)
            a.save_to_file(fn)
    except Exception:
        self.hist["rejected_config"] = self.hist.get("rejected_config", 0) + 1
        return
    key = cfg_key(cfg)

    def twin(j):
        u = build_sim(rb, cfg)
        advance(u, sum(nsteps[:j + 1]))
        return u

    def phys(sim):
        names = R.names
        return [(t, p) for t, p in R.persisted_view(sim) if names.get(t) in PHYS]

    with warnings.catch_warnings():
        warnings.simplefilter("ignore")
        sa = rb.Simulationarchive(fn)
        if len(sa) != 3:
            c.violation("archive-nblobs", "archive of 3 saves has %d snapshots, cfg %s" % (len(sa), key), {"cfg": cfg})
            return
        paths = [("Simulation(fn)", lambda: rb.Simulation(fn), 2, None),
                 ("Simulation(fn,snapshot=1)", lambda: rb.Simulation(fn, snapshot=1), 1, None),
                 ("Simulation(fn,0)", lambda: rb.Simulation(fn, 0), 0, None),
                 ("sa[1]", lambda: sa[1], 1, None), ("sa[-1]", lambda: sa[-1], 2, None),
                 ("bytes", lambda: rb.Simulation(open(fn, "rb").read()), 2, None)]
        dt = a.dt
        for j in (0, 1):
            for ku in (1, 0):
                paths.append(("getSimulation(t%d,snapshot,ku=%d)" % (j, ku), (lambda j=j, ku=ku: sa.getSimulation(sa.t[j] + 0.3 * dt, mode="snapshot", keep_unsynchronized=ku)), j, ("snapshot", ku)))
                paths.append(("getSimulation(t%d+,close,ku=%d)" % (j, ku), (lambda j=j, ku=ku: sa.getSimulation(sa.t[j] + 1.5 * dt, mode="close", keep_unsynchronized=ku)), j, ("close", ku)))
            paths.append(("getSimulation(t%d+,exact)" % j, (lambda j=j: sa.getSimulation(sa.t[j] + 1.5 * dt, mode="exact")), j, ("exact", 0)))
        paths.append(("getSimulations", lambda: list(sa.getSimulations([sa.t[0] + 0.3 * dt, sa.t[1] + 0.3 * dt]))[1], 1, ("snapshot", 1)))
        fixed_dt = cfg["integrator"] not in ("ias15", "bs", "trace", "mercurius")
        for name, fn_restore, j, gs in paths:
            c.count(("archive", key, name), nontrivial=True)
            self.tag(cfg, "archive:" + name.split("(")[0], "archive")
            self.hist["archive_" + name.split("(")[0]] = self.hist.get("archive_" + name.split("(")[0], 0) + 1
            try:
                r = fn_restore()
                attach(r, cfg)
            except Exception as e:
                msg = str(e)
                if "keep_unsynchronized == 1 is not compatible with safe_mode" in msg and cfg["integrator"] == "saba" \
                        and cfg.get("o", {}).get("safe_mode", 1) == 0 and gs is not None and gs[1] == 1:
                    c.violation("C05-N8:getSimulation-sets-whfast-keep_unsynchronized-on-saba",
                                "restoring a SABA safe_mode=0 archive with %s raises: %s" % (name, msg), {"cfg": cfg, "path": name})
                else:
                    c.violation("restore-raises:" + name.split("(")[0], "public restore path %s raises %s, cfg %s" % (name, msg[:200], key), {"cfg": cfg, "path": name})
                continue
            steps_at_restore = r.steps_done
            try:
                u = twin(j)
                if gs is None:
                    d0 = R.first_difference(self.semantic(R.persisted_view(u)), self.semantic(R.persisted_view(r)))
                    if d0 and not uses_tree(cfg):
                        c.violation("archive-restore:" + d0.split(" ")[0], "snapshot restored with %s differs from the uninterrupted run at that time: %s, cfg %s" % (name, d0, key),
                                    {"cfg": cfg, "path": name})
                        continue
                else:
                    mode, ku = gs
                    # what the documentation says the call does, applied to the uninterrupted run
                    if mode == "snapshot":
                        if ku == 0:
                            u.synchronize()
                    elif mode == "close":
                        if ku == 0:
                            u.integrate(sa.t[j] + 1.5 * dt, exact_finish_time=0)
                        else:
                            while u.steps_done < r.steps_done:
                                u.steps(1)
                    else:
                        u.integrate(sa.t[j] + 1.5 * dt, exact_finish_time=1)
                advance(u, k); advance(r, k)
                u.synchronize(); r.synchronize()
            except Exception as e:
                self.hist["error_while_continuing"] = self.hist.get("error_while_continuing", 0) + 1
                continue
            if gs is None:
                d = R.first_difference(self.semantic(R.persisted_view(u)), self.semantic(R.persisted_view(r)))
            else:
                d = R.first_difference(phys(u), phys(r))
            if d is None:
                continue
            fk = None
            if cfg["integrator"] in ("eos", "mercurius") and gs is not None and gs[1] == 1 and cfg.get("o", {}).get("safe_mode", 1) == 0:
                # C05-N10 only if a twin that is REALLY synchronised at the restore point continues bit-for-bit with the restored one
                try:
                    u2 = twin(j)
                    if gs[0] == "close":
                        while u2.steps_done < steps_at_restore:
                            u2.steps(1)
                    u2.synchronize()
                    advance(u2, k); u2.synchronize()
                    if R.first_difference(phys(u2), phys(r)) is None:
                        fk = "C05-N10:getSimulation-synchronizes-eos-mercurius-for-real"
                except Exception:
                    pass
            c.violation(fk if fk else "archive-continue:" + name.split("(")[0] + ":" + cfg["integrator"],
                        "simulation restored with %s does not continue bit-for-bit with the uninterrupted run (%d steps): %s, cfg %s" % (name, k, d, key),
                        {"cfg": cfg, "path": name, "steps": k, "difference": d})


Search.archive_one = _archive_one


def _syncsave_one(self, cfg, path, k=7):
    """"synchronise for output, then save" with keep_unsynchronized=1: the synchronised-and-saved original, and the
    simulation restored from that save, must both continue bit-for-bit with an UNINTERRUPTED run that never
    synchronised (compared after a final synchronisation of all three: t, dt, N, all particles incl. variational)"""
    c, R, rb = self.c, self.R, self.rb
    n = cfg["save_after"]
    try:
        u = build_sim(rb, cfg); advance(u, n)
        a = build_sim(rb, cfg); advance(a, n)
        a.synchronize()
        r, _ = self.restore(a, path); attach(r, cfg)
        advance(u, k); advance(a, k); advance(r, k)
        for s_ in (u, a, r):
            s_.synchronize()
    except Exception:
        self.hist["rejected_config"] = self.hist.get("rejected_config", 0) + 1
        return
    key = cfg_key(cfg)
    c.count(("syncsave", key, path), nontrivial=True)
    self.tag(cfg, path, "syncsave")
    self.hist["syncsave_cases"] = self.hist.get("syncsave_cases", 0) + 1

    def phys(sim):
        return [(t, p) for t, p in R.persisted_view(sim) if R.names.get(t) in PHYS]
    vu = phys(u)
    for who, sim in (("the synchronised-and-saved original", a), ("the simulation restored (%s) from it" % path, r)):
        d = R.first_difference(vu, phys(sim))
        if d:
            c.violation("syncsave:" + cfg["integrator"] + (":variational" if (cfg.get("variational") or cfg.get("megno")) else ""),
                        "synchronize() with keep_unsynchronized=1 followed by a save changes the trajectory: %s does not continue bit-for-bit with the uninterrupted run (%d steps): %s, cfg %s" % (who, k, d, key),
                        {"cfg": cfg, "path": path, "steps": k, "difference": d})
            return


Search.syncsave_one = _syncsave_one


def correspondence(c, exe, rb, info, R, cfgs):
    """model vs real streams: DEC (decode real bytes, re-encode, must be byte identical) and LOADI (model of the
    loader incl. fix-ups predicts the stream the real restored simulation writes)"""
    lines, meta = [], []
    fresh = rb.Simulation()
    fresh_stream = R.save(fresh)
    fh, ff, ft = parse_stream(fresh_stream)
    lines.append("INFO"); meta.append(("INFO",))
    n = 0
    for cfg in cfgs:
        try:
            a = build_sim(rb, cfg); advance(a, cfg["save_after"])
        except Exception:
            continue
        b = R.save(a)
        try:
            h, f, t = parse_stream(b)
        except StreamError as e:
            c.violation("unparsable-stream", "stream written by reb_simulation_save_to_stream cannot be parsed by the reference parser: %s" % e, {"cfg": cfg})
            continue
        if frame(h, f, t) != b or t != b"\0" * 12:
            c.corr_break("stream framing differs from the format description (header 64, field header 16, zero trailer 12)", {"cfg": cfg})
        lines.append("DEC " + fields_line(f)); meta.append(("DEC", cfg, b, h, t))
        if uses_tree(cfg) and not forked(lambda _: bool(R.load_bytes(b)), None)[0]:
            continue     # C05-N5: loading this state crashes (reported by the search); no LOADI line
        r, _ = R.load_bytes(b)
        b2 = R.save(r)
        lines.append("LOADI %d %s | %s" % (R.addr(r), fields_line(ff), fields_line(f))); meta.append(("LOADI", cfg, b2, uses_tree(cfg)))
        n += 1
    # difference-encoded archive snapshots: the model applies the delta of blob 1 (incl. the size-0 headers of arrays that
    # VANISHED since snapshot 0) onto the decoded snapshot 0 and must predict the stream of the really restored snapshot
    import tempfile as _tf, warnings as _w
    tmpd = _tf.mkdtemp(prefix="c05corr.", dir=os.environ.get("VERIF_TMP", "/tmp"))
    ndelta = 0
    for integ, o in (("ias15", {}), ("whfast", {"safe_mode": 0}), ("mercurius", {"safe_mode": 0}), ("janus", {}), ("bs", {})):
        for gap in ("reset", "step", "remove_step"):
            cfg = {"integrator": integ, "o": o, "system": "close" if integ == "mercurius" else "planets", "save_after": 3, "gap": gap}
            fn = os.path.join(tmpd, "d.bin")
            if os.path.exists(fn):
                os.remove(fn)
            try:
                a = build_sim(rb, cfg); advance(a, 3)
                a.save_to_file(fn)
                if gap == "reset":
                    a.reset_integrator()
                elif gap == "step":
                    advance(a, 2)
                else:
                    apply_ops(a, ["remove_last"]); advance(a, 1)
                a.save_to_file(fn)
                with _w.catch_warnings():
                    _w.simplefilter("ignore")
                    r = rb.Simulationarchive(fn)[1]
                with open(fn, "rb") as fh:
                    hd, blobs = parse_archive(fh.read())
            except Exception:
                continue
            if len(blobs) != 2:
                c.corr_break("archive with two snapshots parses into %d blobs" % len(blobs), {"cfg": cfg})
                continue
            b2 = R.save(r)
            vanished = [t for t, p_ in blobs[1] if len(p_) == 0 and t != END_ID]
            lines.append("LOADI %d %s | %s" % (R.addr(r), fields_line(blobs[0]), fields_line(blobs[1])))
            meta.append(("DELTA", cfg, b2, vanished))
            ndelta += 1
    shutil.rmtree(tmpd, ignore_errors=True)
    out = run_driver(exe, lines)
    if len(out) != len(lines):
        c.corr_break("driver returned %d lines for %d ops" % (len(out), len(lines)))
        return
    nfields = 0
    for o, m in zip(out, meta):
        if m[0] == "INFO":
            c.cov["driver_info"] = o
            exp = "table=%d" % len(info["rows"])
            if not o.startswith(exp) or "members=%d " % len(info["members"]) not in o or "wall=true" not in o \
                    or "cmp=true" not in o or "counts=true" not in o or "psz=%d" % info["psz"] not in o:
                c.corr_break("generated Lean table disagrees with the translator's view: " + o)
            continue
        toks = o.split(" ")
        if toks[0] != "W" or "F" not in toks:
            c.corr_break("driver output malformed: " + o[:100], {"cfg": m[1]})
            continue
        warns = toks[1]
        mf = parse_fields_line(toks[toks.index("F") + 1:])
        if m[0] == "DELTA":
            _, cfg, b2, vanished = m
            c.count(("DELTA", cfg_key(cfg)))
            hist_v = c.cov.setdefault("delta_snapshots", {"compared": 0, "with_vanished_arrays": 0})
            hist_v["compared"] += 1
            hist_v["with_vanished_arrays"] += 1 if vanished else 0
            rf = parse_stream(b2)[1]
            if rf != mf:
                c.corr_break("model (snapshot 0 + delta, %d vanished arrays) does not predict the stream of the really restored later snapshot: %s" % (
                    len(vanished), R.first_difference(rf, mf)), {"cfg": cfg})
            continue
        if m[0] == "DEC":
            _, cfg, b, h, t = m
            nfields += len(mf)
            c.count(("DEC", cfg_key(cfg)))
            if frame(h, mf, t) != b:
                rf = parse_stream(b)[1]
                c.corr_break("model decode+encode of a real stream is not the identity: " + str(R.first_difference(rf, mf)), {"cfg": cfg})
            # the writer's list (output.c:594-604) does not contain pre_timestep_modifications (finding C05-N12)
            cbm = {"additional_forces": "additional_forces", "additional_forces_vel": "additional_forces", "heartbeat": "heartbeat",
                   "pre": "pre_timestep_modifications", "post": "post_timestep_modifications", "mercurius_L": "ri_mercurius.L"}
            fpset = (bool(cfg.get("collision")) and "collision_resolve" in info["fp_members"]) or \
                any(cbm[cb] in info["fp_members"] for cb in cfg.get("cb", []))
            if warns != ("pointers" if fpset else "none"):
                c.corr_break("model raises warnings %s reading a real stream" % warns, {"cfg": cfg})
        else:
            _, cfg, b2, tree = m
            c.count(("LOADI", cfg_key(cfg)))
            rf = parse_stream(b2)[1]
            if tree:   # the loader re-inserts the particles into a tree: particle.c pointers are addresses
                rf, mf = R.masked(rf, False), R.masked(mf, False)
            if rf != mf:
                c.corr_break("model of load (fields + fix-ups) does not predict the stream of the really loaded simulation: "
                             + str(R.first_difference(rf, mf)), {"cfg": cfg})
    c.cov["model_streams_compared"] = n
    c.cov["model_fields_decoded"] = nfields


def member_sweep(c, S, info, R, rb):
    """(iii) set each scalar member of reb_simulation / ri_* to a distinctive value (raw struct memory, offsets from
    the compiler), round trip through copy and through a file, read the member back"""
    per = persisted_paths(info)
    counters = {r["npath"] for r in info["rows"] if r.get("npath")}
    scal = [m for m in info["members"] if m["kind"] in ("f64", "i32", "u32", "i64", "u64", "enum32", "vec3d")]
    res = {"came_back": 0, "lost_transient": 0, "skipped_counter": 0, "lost_finding": 0}
    cfg = {"integrator": "whfast", "o": {"safe_mode": 0}, "system": "planets", "save_after": 2}

    def task(m):
        a = build_sim(rb, cfg); advance(a, 2)
        addr = ctypes.addressof(a) + m["off"]
        old = ctypes.string_at(addr, m["size"])
        if m["kind"] == "f64":
            new = struct.pack("<d", 1.0009765625 + m["idx"])
        elif m["kind"] == "vec3d":
            new = struct.pack("<3d", 2.5 + m["idx"], -3.25, 4.125)
        elif m["size"] == 8:
            new = struct.pack("<Q", 0x0123456789 + m["idx"])
        else:
            new = struct.pack("<I", 0x1234 + m["idx"])
        if m["path"] == "simulationarchive_version":
            new = struct.pack("<I", 3 + m["idx"])
        ctypes.memmove(addr, new, m["size"])
        out = {}
        for path in ("copy", "file"):
            r, w = S.restore(a, path)
            out[path] = ctypes.string_at(ctypes.addressof(r) + m["off"], m["size"]) == new
        return out

    for m in scal:
        p = m["path"]
        if p in counters or info["transient"].get(p, {}).get("class") == "counter":
            res["skipped_counter"] += 1
            continue
        ok, out = forked(task, m)
        c.count(("sweep", p))
        if not ok:
            c.violation("sweep-crash:" + p, "serialiser/loader crashed with member %s set to a distinctive value" % p, {"member": p})
            continue
        back = all(out.values())
        if p == "save_messages":
            back = out["copy"]      # rebound.Simulation.__init__ forces save_messages=1 after a Python-level load
        cls = info["transient"].get(p, {}).get("class")
        if back:
            res["came_back"] += 1
            continue
        if p in per:
            c.violation("lost:" + p, "persisted member %s does not survive save+load (%s)" % (p, out), {"member": p, "paths": out})
        elif cls == "finding":
            res["lost_finding"] += 1
            reason = info["transient"][p]["reason"]
            fk = {"ri_trace.peri_mode": "F9a:trace-peri_mode-not-persisted",
                  "ri_mercurius.recalculate_r_crit_this_timestep": "C05-N1:mercurius-recalculate_r_crit-not-persisted"}.get(p, "gap:" + p)
            c.violation(fk, "user-settable member %s is not persisted: set before save, default after load" % p, {"member": p, "reason": reason})
        elif cls is None:
            c.violation("unpersisted-member:" + p, "member %s is neither persisted nor classified transient and does not survive save+load" % p, {"member": p})
        else:
            res["lost_transient"] += 1
    c.cov["member_sweep"] = res


def forked(fn, arg):
    """run fn(arg) in a forked child (a crash of the C library must not take the check down)"""
    rfd, wfd = os.pipe()
    pid = os.fork()
    if pid == 0:
        try:
            os.close(rfd)
            out = fn(arg)
            os.write(wfd, json.dumps(out).encode())
            os.close(wfd)
        finally:
            os._exit(0)
    os.close(wfd)
    data = b""
    while True:
        chunk = os.read(rfd, 65536)
        if not chunk:
            break
        data += chunk
    os.close(rfd)
    _, status = os.waitpid(pid, 0)
    if status != 0 or not data:
        return False, None
    return True, json.loads(data.decode())


def heap_sweep(c, S, info, R, rb):
    """element-level sweep: one member of one element of every persisted array present"""
    bases = [{"integrator": "whfast", "o": {"safe_mode": 0}, "system": "planets", "save_after": 2},
             {"integrator": "ias15", "o": {}, "system": "planets", "save_after": 2, "variational": 2},
             {"integrator": "janus", "o": {}, "system": "planets", "save_after": 2},
             {"integrator": "mercurius", "o": {"safe_mode": 0}, "system": "close", "save_after": 2}]
    n = 0
    for cfg in bases:
        a = build_sim(rb, cfg); advance(a, cfg["save_after"])
        present = {t for t, _ in parse_stream(R.save(a))[1]}
        for row in info["rows"]:
            if row["dtype"] not in ("REB_POINTER", "REB_DP7") or row["id"] not in present:
                continue
            el = info["elems"].get(row.get("elem") or "")
            members = el["members"] if el else [{"name": "double", "kind": "f64", "off": 0, "size": 8}]
            esz = el["size"] if el else 8
            for m in members:
                if m["kind"] in ("ptr", "fptr"):
                    continue
                a2 = build_sim(rb, cfg); advance(a2, cfg["save_after"])
                R.save(a2)
                ptr = ctypes.c_void_p.from_address(ctypes.addressof(a2) + info["by_path"][row["path"]]["off"]).value
                cnt = ctypes.c_uint.from_address(ctypes.addressof(a2) + info["by_path"][row["npath"]]["off"]).value
                if not ptr or cnt == 0:
                    continue
                loc = ptr + (cnt - 1) * esz + m["off"]
                new = bytes((x ^ 0x5A) for x in ctypes.string_at(loc, m["size"]))
                ctypes.memmove(loc, new, m["size"])
                for path in ("copy", "buffer"):
                    r, _ = S.restore(a2, path)
                    ptr2 = ctypes.c_void_p.from_address(ctypes.addressof(r) + info["by_path"][row["path"]]["off"]).value
                    got = ctypes.string_at(ptr2 + (cnt - 1) * esz + m["off"], m["size"]) if ptr2 else None
                    n += 1
                    c.count(("heap", row["name"], m["name"], path))
                    if got != new:
                        c.violation("lost-element:%s.%s" % (row["name"], m["name"]),
                                    "element member %s of persisted array %s does not survive save+load" % (m["name"], row["name"]),
                                    {"cfg": cfg, "row": row["name"], "member": m["name"], "path": path})
    # WHFast512 (not compiled on this host, the integrator cannot run): its REB_POINTER_ALIGNED row and its REB_PARTICLE4
    # row are exercised for persistence only, with hand-made contents
    cfg = bases[0]
    for path in ("copy", "buffer", "file"):
        a = build_sim(rb, cfg); advance(a, 1)
        sz = info["elems"]["reb_particle_avx512"]["size"]
        buf = S.libc.malloc(sz)
        pat = bytes((7 * i + 3) % 251 for i in range(sz))
        ctypes.memmove(buf, pat, sz)
        ctypes.c_void_p.from_address(ctypes.addressof(a) + info["by_path"]["ri_whfast512.p_jh"]["off"]).value = buf
        S.poke(a, "ri_whfast512.N_allocated", 1)
        m0 = info["by_path"]["ri_whfast512.p_jh0"]
        esz, slots = R.ptrslots[[r_["id"] for r_ in info["rows"] if r_["name"] == "ri_whfast512.pjh0"][0]]
        keep = [i for i in range(m0["size"]) if not any(o <= i % esz < o + l for o, l in slots)]
        pat0 = bytes((5 * i + 1) % 253 for i in range(m0["size"]))
        old0 = ctypes.string_at(ctypes.addressof(a) + m0["off"], m0["size"])
        new0 = bytes(pat0[i] if i in set(keep) else old0[i] for i in range(m0["size"]))
        ctypes.memmove(ctypes.addressof(a) + m0["off"], new0, m0["size"])
        r, _ = S.restore(a, path)
        p2 = ctypes.c_void_p.from_address(ctypes.addressof(r) + info["by_path"]["ri_whfast512.p_jh"]["off"]).value
        got = ctypes.string_at(p2, sz) if p2 else None
        cnt = S.peek(r, "ri_whfast512.N_allocated")
        got0 = ctypes.string_at(ctypes.addressof(r) + m0["off"], m0["size"])
        n += 2
        c.count(("heap", "ri_whfast512.pjh", path)); c.count(("heap", "ri_whfast512.pjh0", path))
        if got != pat or cnt != 1:
            c.violation("lost-element:ri_whfast512.pjh", "the REB_POINTER_ALIGNED array ri_whfast512.p_jh does not survive save+load (%s): count %s" % (path, cnt), {"path": path})
        if any(got0[i] != new0[i] for i in keep):
            c.violation("lost:ri_whfast512.p_jh0", "the REB_PARTICLE4 member ri_whfast512.p_jh0 does not survive save+load (%s)" % path, {"path": path})
    c.cov["heap_sweep_cases"] = n


def archive_field_sweep(c, S, info, R, rb):
    """single-field-change histories through the ARCHIVE path: snapshot 0, change exactly one persisted member (scalar
    member of the struct, or one member of one element of a persisted array), append snapshot 1 (a delta that must
    contain that field), restore snapshot 1 through Simulation(fn) and Simulationarchive[1] and read the member back;
    snapshot 0 must still hold the old value"""
    per = persisted_paths(info)
    counters = {r["npath"] for r in info["rows"] if r.get("npath")}
    res = {"scalar_members": 0, "element_members": 0}
    fn = os.path.join(S.tmp, "sweep.bin")

    def newval(m, old):
        if m["kind"] == "f64":
            return struct.pack("<d", 1.0009765625 + m["idx"])
        if m["kind"] == "vec3d":
            return struct.pack("<3d", 2.5 + m["idx"], -3.25, 4.125)
        if m["size"] == 8:
            return struct.pack("<Q", 0x0123456789ABCD00 + m["idx"])     # every byte non-zero incl. the high ones
        return struct.pack("<I", 0x01020304 + m["idx"])

    def roundtrip(a, loc_of, size, new):
        """a: live sim already saved as snapshot 0; loc_of(sim) -> address of the member"""
        old = ctypes.string_at(loc_of(a), size)
        ctypes.memmove(loc_of(a), new, size)
        a.save_to_file(fn)
        import warnings
        with warnings.catch_warnings():
            warnings.simplefilter("ignore")
            sa = rb.Simulationarchive(fn)
            out = {"nblobs": len(sa)}
            r1 = rb.Simulation(fn)
            out["Simulation(fn)"] = ctypes.string_at(loc_of(r1), size) == new
            r2 = sa[1] if len(sa) > 1 else None
            out["sa[1]"] = r2 is not None and ctypes.string_at(loc_of(r2), size) == new
            r0 = sa[0]
            out["sa[0]_old"] = ctypes.string_at(loc_of(r0), size) == old
            if r2 is not None:
                out["whole"] = R.first_difference(R.persisted_view(a, drop_wall=False), R.persisted_view(r2, drop_wall=False)) is None
        return out

    def fresh(cfg):
        if os.path.exists(fn):
            os.remove(fn)
        a = build_sim(rb, cfg); advance(a, cfg["save_after"])
        a.save_to_file(fn)
        return a

    def judge(out, ok, label, what, replay):
        if not ok:
            c.violation("archive-sweep-crash:" + label, "appending / restoring a snapshot crashed after changing only %s" % what, replay)
            return
        bad = [k_ for k_, v in out.items() if k_ != "nblobs" and not v]
        if out.get("nblobs") != 2:
            bad.append("nblobs=%s" % out.get("nblobs"))
        if bad:
            c.violation("archive-stale-field:" + label,
                        "a later archive snapshot that differs from snapshot 0 only in %s is not restored faithfully (%s)" % (what, ", ".join(bad)), replay)

    cfgA = {"integrator": "whfast", "o": {"safe_mode": 0}, "system": "planets", "save_after": 2}
    for m in [m for m in info["members"] if m["kind"] in ("f64", "i32", "u32", "i64", "u64", "enum32", "vec3d")]:
        p_ = m["path"]
        if p_ not in per or p_ in counters or p_ in ("simulationarchive_version",):
            continue

        def task(m):
            a = fresh(cfgA)
            return roundtrip(a, lambda sim: ctypes.addressof(sim) + m["off"], m["size"], newval(m, None))
        ok, out = forked(task, m)
        c.count(("archive-sweep", p_))
        res["scalar_members"] += 1
        if ok and p_ == "save_messages":
            out = {k_: v for k_, v in out.items() if k_ in ("nblobs", "sa[0]_old")}   # rebound.Simulation.__init__ forces 1
        judge(out or {}, ok, p_, "the member " + p_, {"member": p_, "cfg": cfgA})
    bases = [cfgA, {"integrator": "ias15", "o": {}, "system": "planets", "save_after": 2, "variational": 2},
             {"integrator": "janus", "o": {}, "system": "planets", "save_after": 2},
             {"integrator": "mercurius", "o": {"safe_mode": 0}, "system": "close", "save_after": 2}]
    for cfg in bases:
        a0 = build_sim(rb, cfg); advance(a0, cfg["save_after"])
        present = {t for t, _ in parse_stream(R.save(a0))[1]}
        for row in info["rows"]:
            if row["dtype"] not in ("REB_POINTER", "REB_DP7") or row["id"] not in present:
                continue
            el = info["elems"].get(row.get("elem") or "")
            members = el["members"] if el else [{"name": "double", "kind": "f64", "off": 0, "size": 8}]
            esz = el["size"] if el else 8
            for em in members:
                if em["kind"] in ("ptr", "fptr"):
                    continue

                def task(_):
                    a = fresh(cfg)
                    R.save(a)

                    def loc(sim):
                        ptr = ctypes.c_void_p.from_address(ctypes.addressof(sim) + info["by_path"][row["path"]]["off"]).value
                        cnt = ctypes.c_uint.from_address(ctypes.addressof(sim) + info["by_path"][row["npath"]]["off"]).value
                        return ptr + (cnt - 1) * esz + em["off"]
                    old = ctypes.string_at(loc(a), em["size"])
                    if em["kind"] == "f64":
                        new = struct.pack("<d", -1.0) if row["name"] == "var_config" else struct.pack("<d", struct.unpack("<d", old)[0] * 1.5 + 0.3125)
                    else:
                        new = bytes((x ^ 0x01) for x in old)
                    return roundtrip(a, loc, em["size"], new)
                ok, out = forked(task, None)
                label = "%s.%s" % (row["name"], em["name"])
                c.count(("archive-sweep", label))
                res["element_members"] += 1
                judge(out or {}, ok, label, "%s of one element of %s" % (em["name"], row["name"]), {"row": row["name"], "member": em["name"], "cfg": cfg})
    c.cov["archive_field_sweep"] = res


def dimension_cases(c, S, info, R, rb):
    """one-off cases for cross-cutting dimensions that are not lattice options; each in a forked child; returns
    {dimension: number of evaluated cases}"""
    import warnings
    dims = {}
    base = {"integrator": "whfast", "o": {"safe_mode": 0}, "system": "planets", "save_after": 3}
    paths = ("buffer", "file", "copy", "pickle")

    def run(name, fn):
        ok, out = forked(fn, None)
        if not ok:
            c.violation("dimension-crash:" + name, "dimension case %s crashed" % name, {"dimension": name})
            return
        dims[name] = dims.get(name, 0) + out.get("n", 0)
        c.count(("dimension", name), n=max(1, out.get("n", 0)))
        for key, what, rep in out.get("viol", []):
            c.violation(key, what, rep)

    def rand_state(_):
        viol, n = [], 0
        rb.clibrebound.reb_random_uniform.restype = ctypes.c_double
        for cfg in (base, dict(base, megno=1, integrator="ias15", o={})):
            for path in paths:
                a = build_sim(rb, cfg); advance(a, 3)
                for i in range(3):
                    rb.clibrebound.reb_random_uniform(ctypes.byref(a), ctypes.c_double(0.0), ctypes.c_double(1.0))
                r, _ = S.restore(a, path)
                xa = [rb.clibrebound.reb_random_uniform(ctypes.byref(a), ctypes.c_double(0.0), ctypes.c_double(1.0)) for i in range(5)]
                xr = [rb.clibrebound.reb_random_uniform(ctypes.byref(r), ctypes.c_double(0.0), ctypes.c_double(1.0)) for i in range(5)]
                n += 1
                if xa != xr:
                    viol.append(("random-stream:" + path, "random numbers drawn after a restore (%s) differ from those of the original: %s vs %s" % (path, xa[:2], xr[:2]), {"cfg": cfg, "path": path}))
        return {"n": n, "viol": viol}

    def units_hashes(_):
        viol, n = [], 0
        for path in paths:
            cfg = dict(base, units=1, hashes=1)
            a = build_sim(rb, cfg); advance(a, 2)
            r, _ = S.restore(a, path)
            n += 1
            if tuple(r.units[k_] for k_ in ("length", "time", "mass")) != tuple(a.units[k_] for k_ in ("length", "time", "mass")) or r.G != a.G:
                viol.append(("units-lost:" + path, "units / G of the restored simulation differ: %s vs %s" % (r.units, a.units), {"cfg": cfg, "path": path}))
            for nm in ("sun", "venus", "earth"):
                try:
                    if r.particles[nm].index != a.particles[nm].index or r.particles[nm].hash.value != a.particles[nm].hash.value:
                        viol.append(("hash-lookup:" + path, "particle looked up by name %s differs after restore" % nm, {"cfg": cfg, "path": path}))
                except Exception as e:
                    viol.append(("hash-lookup:" + path, "particle %s cannot be looked up by name after restore: %s" % (nm, e), {"cfg": cfg, "path": path}))
        return {"n": n, "viol": viol}

    def ap_pointer(_):
        viol, n = [], 0
        for path in paths:
            a = build_sim(rb, base); advance(a, 2)
            off = info["elems"]["reb_particle"]["members"]
            apo = [m for m in off if m["name"] == "ap"][0]["off"]
            ptr = ctypes.c_void_p.from_address(ctypes.addressof(a) + info["by_path"]["particles"]["off"]).value
            ctypes.c_uint64.from_address(ptr + 128 * 1 + apo).value = 0xDEADBEEF00
            r, _ = S.restore(a, path)
            ptr2 = ctypes.c_void_p.from_address(ctypes.addressof(r) + info["by_path"]["particles"]["off"]).value
            got = ctypes.c_uint64.from_address(ptr2 + 128 * 1 + apo).value
            ctypes.c_uint64.from_address(ptr + 128 * 1 + apo).value = 0
            n += 1
            if got != 0:
                viol.append(("ap-pointer-survives:" + path, "the `ap` pointer of a particle (an address of the saving process) is %#x after restore, not NULL" % got, {"path": path}))
        return {"n": n, "viol": viol}

    def populated(_):
        viol, n = [], 0
        for cfg_src, cfg_dst in ((base, {"integrator": "ias15", "o": {}, "system": "close", "save_after": 4, "variational": 1}),
                                 ({"integrator": "ias15", "o": {}, "system": "planets", "save_after": 3, "variational": 2}, dict(base, system="big130")),
                                 ({"integrator": "leapfrog", "o": {}, "system": "n0", "save_after": 0}, base)):
            a = build_sim(rb, cfg_src); advance(a, cfg_src["save_after"]); R.save(a)
            dst = build_sim(rb, cfg_dst); advance(dst, cfg_dst["save_after"])
            w = ctypes.c_int(0)
            rb.clibrebound.reb_simulation_copy_with_messages(ctypes.byref(dst), ctypes.byref(a), ctypes.byref(w))
            attach(dst, cfg_src)
            n += 1
            d_ = R.first_difference(R.persisted_view(a, drop_wall=False), R.persisted_view(dst, drop_wall=False))
            raw = R.raw_member_differences(a, dst)
            if d_ or raw:
                viol.append(("restore-onto-populated", "restoring onto an already populated simulation leaves differences: %s %s" % (d_, raw[:3]), {"src": cfg_src, "dst": cfg_dst}))
                continue
            try:
                advance(a, 5); advance(dst, 5)
            except Exception:
                continue
            d2 = R.first_difference(S.semantic(R.persisted_view(a)), S.semantic(R.persisted_view(dst)))
            if d2:
                viol.append(("restore-onto-populated:continue", "a simulation restored onto an already populated struct does not continue bit-for-bit: %s" % d2, {"src": cfg_src, "dst": cfg_dst}))
        return {"n": n, "viol": viol}

    def old_file(_):
        viol, n = [], 0
        fn = os.path.join(REPO, "examples", "solar_system_with_testparticles", "ss-2023-11-12.bin")
        if not os.path.exists(fn):
            return {"n": 0, "viol": []}
        with warnings.catch_warnings(record=True) as w:
            warnings.simplefilter("always")
            r = rb.Simulation(fn)
        msgs = [str(x.message) for x in w]
        n += 1
        if not any("version" in m_.lower() for m_ in msgs):
            viol.append(("old-file-no-version-warning", "loading a file written by an older REBOUND version gives no version warning: %s" % msgs[:2], {"file": fn}))
        r2, _ = R.load_bytes(R.save(r))
        d_ = R.first_difference(R.persisted_view(r, drop_wall=False), R.persisted_view(r2, drop_wall=False))
        if d_:
            viol.append(("old-file-resave", "a simulation loaded from an old-version file does not survive save+load: %s" % d_, {"file": fn}))
        r.steps(3); r2.steps(3)
        d2 = R.first_difference(S.semantic(R.persisted_view(r)), S.semantic(R.persisted_view(r2)))
        if d2:
            viol.append(("old-file-continue", "continuation after re-saving an old-version simulation differs: %s" % d2, {"file": fn}))
        return {"n": n + 1, "viol": viol}

    def auto_archive(_):
        """snapshots written by the library itself inside the step loop (save_to_file(step=...)) and by a heartbeat
        callback that calls save_to_file in the middle of integrate()"""
        viol, n = [], 0
        for integ, o in (("whfast", {"safe_mode": 0}), ("whfast", {"safe_mode": 1}), ("ias15", {}), ("mercurius", {"safe_mode": 0}), ("leapfrog", {})):
            cfg = {"integrator": integ, "o": o, "system": "close" if integ == "mercurius" else "planets", "save_after": 0}
            fn = os.path.join(S.tmp, "auto.bin")
            a = build_sim(rb, cfg)
            a.save_to_file(fn, step=3, delete_file=True)
            a.integrate(a.t + 10.2 * a.dt, exact_finish_time=0)      # automatic snapshots are taken by integrate(), not by steps()
            with warnings.catch_warnings():
                warnings.simplefilter("ignore")
                sa = rb.Simulationarchive(fn)
                for i in range(len(sa)):
                    r = sa[i]
                    u = build_sim(rb, cfg); u.steps(int(r.steps_done))
                    n += 1
                    # the automatic snapshot synchronises a copy for output: compare the physical state after a final synchronise
                    u.steps(4); r.steps(4); u.synchronize(); r.synchronize()
                    pu = [(t, p) for t, p in R.persisted_view(u) if R.names.get(t) in PHYS]
                    pr = [(t, p) for t, p in R.persisted_view(r) if R.names.get(t) in PHYS]
                    d_ = R.first_difference(pu, pr)
                    if d_:
                        viol.append(("auto-archive:" + integ, "automatic snapshot %d (every 3 steps) restored and continued differs from the uninterrupted run: %s" % (i, d_), {"cfg": cfg, "snapshot": i}))
                        break
            # heartbeat that saves in the middle of integrate()
            fn2 = os.path.join(S.tmp, "hb.bin")
            if os.path.exists(fn2):
                os.remove(fn2)
            a = build_sim(rb, cfg)

            def hb(reb_sim):
                s_ = reb_sim.contents
                if s_.steps_done == 4:
                    s_.save_to_file(fn2)
            a.heartbeat = hb
            a.integrate(a.t + 60 * a.dt)
            if os.path.exists(fn2):
                with warnings.catch_warnings():
                    warnings.simplefilter("ignore")
                    r = rb.Simulation(fn2)
                u = build_sim(rb, cfg); u.steps(int(r.steps_done))
                n += 1
                u.steps(4); r.steps(4); u.synchronize(); r.synchronize()
                pu = [(t, p) for t, p in R.persisted_view(u) if R.names.get(t) in PHYS and R.names.get(t) != "dt"]
                pr = [(t, p) for t, p in R.persisted_view(r) if R.names.get(t) in PHYS and R.names.get(t) != "dt"]
                d_ = R.first_difference(pu, pr)
                if d_ and integ != "ias15":
                    viol.append(("heartbeat-save:" + integ, "a snapshot saved by a heartbeat in the middle of integrate(), restored and continued, differs from the uninterrupted run: %s" % d_, {"cfg": cfg}))
            else:
                viol.append(("heartbeat-save:nofile", "heartbeat did not write the snapshot", {"cfg": cfg}))
        return {"n": n, "viol": viol}

    def big_archive(_):
        """archives with more than 1024 snapshots (the index grows in blocks of 1024): automatic cadence step=1 inside
        integrate(), and 1100 manual appends; restore the latest snapshot, one beyond index 1024 and one below through
        every reader; each must be the state after exactly that many steps and continue like the uninterrupted run"""
        viol, n = [], 0
        NS = 1100
        for integ, o, mode in (("whfast", {"safe_mode": 0}, "auto"), ("leapfrog", {}, "manual")):
            cfg = {"integrator": integ, "o": o, "system": "planets", "save_after": 0}
            fn = os.path.join(S.tmp, "big_%s.bin" % mode)
            if os.path.exists(fn):
                os.remove(fn)
            a = build_sim(rb, cfg)
            if mode == "auto":
                a.save_to_file(fn, step=1, delete_file=True)
                a.integrate(a.t + (NS + 0.2) * a.dt, exact_finish_time=0)
            else:
                a.save_to_file(fn)
                for i in range(NS):
                    a.steps(1)
                    a.save_to_file(fn)
            last = int(a.steps_done) if mode == "manual" else None
            with warnings.catch_warnings():
                warnings.simplefilter("ignore")
                sa = rb.Simulationarchive(fn)
                nb = len(sa)
                n += 1
                if nb < NS + 1 or (last is not None and nb != last + 1):
                    viol.append(("archive-index-truncated:" + mode, "an archive written with %d snapshots (%s) is read with %d" % (NS + 1, mode, nb), {"cfg": cfg, "mode": mode}))
                want_last = (last if last is not None else nb - 1)
                readers = [("sa[-1]", lambda: sa[-1], None), ("Simulation(fn)", lambda: rb.Simulation(fn), None),
                           ("Simulation(bytes)", lambda: rb.Simulation(open(fn, "rb").read()), None),
                           ("sa[1030]", lambda: sa[1030], 1030), ("Simulation(fn,1050)", lambda: rb.Simulation(fn, snapshot=1050), 1050),
                           ("sa[1023]", lambda: sa[1023], 1023), ("sa[1024]", lambda: sa[1024], 1024), ("sa[517]", lambda: sa[517], 517),
                           ("getSimulation(t1040)", lambda: sa.getSimulation(a.dt * 1040.3, mode="snapshot", keep_unsynchronized=1), 1040)]
                latest = []
                for name, rd, idx in readers:
                    n += 1
                    try:
                        r = rd()
                    except Exception as e:
                        viol.append(("archive-big-restore:" + name.split("(")[0], "restoring %s from an archive with %d snapshots raises %s" % (name, NS + 1, str(e)[:120]), {"cfg": cfg, "mode": mode, "reader": name}))
                        continue
                    steps = int(r.steps_done)
                    exp = idx if idx is not None else (last if last is not None else int(a.steps_done) - (0 if mode == "manual" else 0))
                    if idx is not None and steps != idx or idx is None and steps < NS:
                        viol.append(("archive-big-wrong-snapshot:" + name.split("(")[0], "%s of an archive with %d snapshots (%s) returns the state after %d steps, expected %s" % (
                            name, NS + 1, mode, steps, idx if idx is not None else ">= %d (the latest)" % NS), {"cfg": cfg, "mode": mode, "reader": name}))
                        continue
                    r.steps(4); r.synchronize()
                    pr = [(t, p) for t, p in R.persisted_view(r) if R.names.get(t) in PHYS]
                    if idx is None:
                        latest.append((name, pr))     # the latest snapshot is the state of the original itself (integrate() has synchronised it)
                        continue
                    u = build_sim(rb, cfg); u.steps(steps)
                    u.steps(4); u.synchronize()
                    pu = [(t, p) for t, p in R.persisted_view(u) if R.names.get(t) in PHYS]
                    d_ = R.first_difference(pu, pr)
                    if d_:
                        viol.append(("archive-big-continue:" + name.split("(")[0], "%s of a %d-snapshot archive, continued, differs from the uninterrupted run: %s" % (name, NS + 1, d_), {"cfg": cfg, "mode": mode, "reader": name}))
                if latest and int(a.steps_done) != want_last and mode == "manual":
                    viol.append(("archive-big-wrong-snapshot:latest", "bookkeeping", {}))
                a.steps(4); a.synchronize()
                pa = [(t, p) for t, p in R.persisted_view(a) if R.names.get(t) in PHYS]
                for name, pr in latest:
                    d_ = R.first_difference(pa, pr)
                    if d_:
                        viol.append(("archive-big-continue:" + name.split("(")[0], "the latest snapshot (%s) of a %d-snapshot archive, continued, differs from the original that wrote it: %s" % (name, NS + 1, d_), {"cfg": cfg, "mode": mode, "reader": name}))
            os.remove(fn)
        return {"n": n, "viol": viol}

    def user_odes(_):
        viol, n = [], 0
        a = build_sim(rb, dict(base, integrator="bs", o={})); advance(a, 2)
        ode = a.create_ode(length=2, needs_nbody=False)

        def deriv(ode_, ydot, y, t):
            ydot[0] = y[1]; ydot[1] = -y[0]
        ode.derivatives = deriv
        ode.y[0] = 1.0
        a.steps(2)
        with warnings.catch_warnings(record=True) as w:
            warnings.simplefilter("always")
            r = a.copy()
        n += 1
        nod = ctypes.c_int.from_address(ctypes.addressof(r) + info["by_path"]["N_odes"]["off"]).value
        if nod != 0:
            viol.append(("odes-copied", "user ODEs appear in the copy (N_odes=%d) although they are not persisted" % nod, {}))
        if not w:
            viol.append(("C05-N13:user-odes-dropped-silently", "a simulation with a user ODE is saved / copied without any warning; the restored simulation has no ODE", {"edit": "create_ode + copy()"}))
        return {"n": n, "viol": viol}

    run("python:random_stream_continuity", rand_state)
    run("python:units_and_name_lookup_after_restore", units_hashes)
    run("pointers:ap_not_persisted", ap_pointer)
    run("histories:restore_onto_populated_struct", populated)
    run("versions:file_written_by_older_version", old_file)
    run("histories:auto_archive_and_heartbeat_save", auto_archive)
    run("callbacks:user_odes_not_persisted", user_odes)
    run("scale:archive_with_more_than_1024_snapshots", big_archive)
    return dims


EP_C_RE = r"save_to_file|save_to_stream|create_from_file|create_from_simulationarchive|simulation_copy|simulation_diff|binary_diff|simulationarchive|output_free_stream|binary_field_descriptor_for|input_process_warnings"


def extract_entry_points():
    """public entry points of the persistence mechanism: DLLEXPORT functions of rebound.h whose name says so, the methods
    of rebound.Simulation whose body reaches them (or is a from_* constructor), the public methods of Simulationarchive"""
    import re as _re
    h = open(os.path.join(REPO, "src", "rebound.h")).read()
    cfun = sorted({m for m in _re.findall(r"DLLEXPORT[^;{]*?\b(reb_\w+)\s*\(", h) if _re.search(EP_C_RE, m)})
    spy = open(os.path.join(REPO, "rebound", "simulation.py")).read()
    cls = spy[spy.index("class Simulation(Structure):"):]
    py = set()
    for chunk in _re.split(r"\n    def ", cls)[1:]:
        name = chunk.split("(")[0]
        body = _re.split(r"\n    @|\nclass ", chunk)[0]
        if _re.search(r"clibrebound\.reb_simulation_(save_to|copy|diff|create_from)|clibrebound\.reb_simulationarchive", body) or name.startswith("from_") or name == "simulationarchive_filename":
            py.add("Simulation." + name)
    sap = open(os.path.join(REPO, "rebound", "simulationarchive.py")).read()
    for name in _re.findall(r"\n    def (\w+)\(", sap[sap.index("class Simulationarchive"):]):
        if name in ("__repr__", "__setitem__", "__delitem__", "_getSnapshotIndex"):
            continue
        py.add("Simulationarchive." + name)
    return cfun, sorted(py)


class Descriptor(ctypes.Structure):
    _fields_ = [("type", ctypes.c_uint32), ("dtype", ctypes.c_int), ("name", ctypes.c_char * 1024), ("offset", ctypes.c_size_t),
                ("offset_N", ctypes.c_size_t), ("element_size", ctypes.c_size_t)]


def entry_points(c, S, info, R, rb):
    """every public entry point is exercised in this run, with the round-trip oracle where it applies"""
    cfun, pym = extract_entry_points()
    c.cov["entry_points_extracted"] = {"c": len(cfun), "python": len(pym)}
    if len(cfun) < 18 or len(pym) < 14:
        c.corr_break("entry-point extraction found too little: %d C functions, %d Python methods" % (len(cfun), len(pym)))

    def task(_):
        import warnings, io, contextlib
        warnings.simplefilter("ignore")
        lib = rb.clibrebound
        done, viol = set(), []
        cfg = {"integrator": "whfast", "o": {"safe_mode": 0}, "system": "planets", "save_after": 3, "variational": 1}

        def mk():
            a = build_sim(rb, cfg); advance(a, 3); R.save(a)
            return a

        def same(a, b, what):
            d_ = R.first_difference(S.semantic(R.persisted_view(a, drop_wall=False)), S.semantic(R.persisted_view(b, drop_wall=False)))
            if d_:
                viol.append(("entry-point:" + what, "%s does not reproduce the simulation: %s" % (what, d_), {"entry": what}))
        fn = os.path.join(S.tmp, "ep.bin")

        def fresh():
            if os.path.exists(fn):
                os.remove(fn)
        # ---- C functions through ctypes
        a = mk()
        R.save(a); done |= {"reb_simulation_save_to_stream", "reb_simulation_output_free_stream"}
        fresh(); lib.reb_simulation_save_to_file(ctypes.byref(a), fn.encode()); done.add("reb_simulation_save_to_file")
        lib.reb_simulation_create_from_file.restype = ctypes.c_void_p
        p1 = lib.reb_simulation_create_from_file(fn.encode(), ctypes.c_int64(-1)); done.add("reb_simulation_create_from_file")
        same(a, rb.Simulation.from_address(p1), "reb_simulation_create_from_file")
        lib.reb_simulationarchive_create_from_file.restype = ctypes.c_void_p
        sap = lib.reb_simulationarchive_create_from_file(fn.encode()); done.add("reb_simulationarchive_create_from_file")
        lib.reb_simulation_create_from_simulationarchive.restype = ctypes.c_void_p
        p2 = lib.reb_simulation_create_from_simulationarchive(ctypes.c_void_p(sap), ctypes.c_int64(0)); done.add("reb_simulation_create_from_simulationarchive")
        same(a, rb.Simulation.from_address(p2), "reb_simulation_create_from_simulationarchive")
        lib.reb_simulationarchive_free(ctypes.c_void_p(sap)); done.add("reb_simulationarchive_free")
        lib.reb_simulation_copy.restype = ctypes.c_void_p
        p3 = lib.reb_simulation_copy(ctypes.byref(a)); done.add("reb_simulation_copy")
        same(a, rb.Simulation.from_address(p3), "reb_simulation_copy")
        if R.diff(a, rb.Simulation.from_address(p3)) != 0:
            viol.append(("entry-point:reb_simulation_diff", "reb_simulation_diff reports a difference between a simulation and its reb_simulation_copy", {}))
        done.add("reb_simulation_diff")
        lib.reb_simulation_diff_char.restype = ctypes.c_void_p
        pc = lib.reb_simulation_diff_char(ctypes.byref(a), ctypes.c_void_p(p3)); txt = ctypes.string_at(pc).decode(); lib.reb_free(ctypes.c_void_p(pc))
        done.add("reb_simulation_diff_char")
        if [l for l in txt.splitlines() if l.endswith(":") and not l.startswith(info["wallprefix"])]:
            viol.append(("entry-point:reb_simulation_diff_char", "reb_simulation_diff_char lists differences between a simulation and its copy: %s" % txt[:100], {}))
        for ptr in (p1, p2, p3):
            lib.reb_simulation_free(ctypes.c_void_p(ptr))
        # descriptor look-ups against the generated table
        lib.reb_binary_field_descriptor_for_type.restype = Descriptor
        lib.reb_binary_field_descriptor_for_name.restype = Descriptor
        for r_ in info["rows"]:
            d1 = lib.reb_binary_field_descriptor_for_type(ctypes.c_int(r_["id"]))
            d2 = lib.reb_binary_field_descriptor_for_name(r_["name"].encode())
            for d_ in (d1, d2):
                if (d_.type, d_.name.decode(), d_.offset, d_.element_size) != (r_["id"], r_["name"], r_["off"], r_["esz"]):
                    viol.append(("entry-point:descriptor-lookup", "descriptor look-up of %s returns %s/%s" % (r_["name"], d_.type, d_.name.decode()), {"row": r_["name"]}))
                    break
        done |= {"reb_binary_field_descriptor_for_type", "reb_binary_field_descriptor_for_name"}
        # automatic cadences (interval, step, walltime)
        for which, arg in (("interval", ctypes.c_double(0.03)), ("step", ctypes.c_uint64(2)), ("walltime", ctypes.c_double(1e-9))):
            a2 = build_sim(rb, dict(cfg, variational=None)); fresh()
            getattr(lib, "reb_simulation_save_to_file_" + which)(ctypes.byref(a2), fn.encode(), arg)
            a2.integrate(a2.t + 12.3 * a2.dt, exact_finish_time=0)
            done.add("reb_simulation_save_to_file_" + which)
            sa = rb.Simulationarchive(fn)
            if len(sa) < 2:
                viol.append(("entry-point:save_to_file_" + which, "automatic snapshots (%s) were not written: %d" % (which, len(sa)), {}))
                continue
            if len(sa) < 3:
                viol.append(("entry-point:save_to_file_" + which, "fewer than 3 automatic snapshots (%s): %d" % (which, len(sa)), {}))
                continue
            r_ = sa[len(sa) - 2]      # not the final one: integrate() synchronises the original before its last heartbeat
            u = build_sim(rb, dict(cfg, variational=None)); u.steps(int(r_.steps_done))
            u.steps(3); r_.steps(3); u.synchronize(); r_.synchronize()
            pu = [(t, p_) for t, p_ in R.persisted_view(u) if R.names.get(t) in PHYS]
            pr = [(t, p_) for t, p_ in R.persisted_view(r_) if R.names.get(t) in PHYS]
            d_ = R.first_difference(pu, pr)
            if d_:
                viol.append(("entry-point:save_to_file_" + which, "last automatic snapshot (%s), continued, differs from the uninterrupted run: %s" % (which, d_), {}))
        # ---- Python spellings
        a = mk(); fresh()
        a.save_to_file(fn); done.add("Simulation.save_to_file")
        same(a, rb.Simulation(fn), "Simulation(filename)"); same(a, rb.Simulation(fn, snapshot=0), "Simulation(filename, snapshot=)")
        with open(fn, "rb") as fh:
            same(a, rb.Simulation(fh.read()), "Simulation(bytes)")
        done |= {"Simulation.__new__", "reb_simulation_create_from_simulationarchive_with_messages", "reb_simulationarchive_create_from_file_with_messages",
                 "reb_simulationarchive_init_from_buffer_with_messages"}
        for spelling, mkr in (("Simulation.from_file(fn)", lambda: rb.Simulation.from_file(fn)), ("Simulation(filename=fn)", lambda: rb.Simulation(filename=fn))):
            r_ = mkr()
            d_ = R.first_difference(S.semantic(R.persisted_view(a, drop_wall=False)), S.semantic(R.persisted_view(r_, drop_wall=False)))
            if d_:
                viol.append(("C05-N15:filename-keyword-ignored", "%s does not load the file: it returns a simulation with N=%d, t=%s (%s)" % (spelling, r_.N, r_.t, d_), {"entry": spelling}))
        done.add("Simulation.from_file")
        sa = rb.Simulationarchive(fn); done |= {"Simulationarchive.__init__", "reb_simulationarchive_free_pointers"}
        try:
            same(a, rb.Simulation.from_simulationarchive(sa), "Simulation.from_simulationarchive")
        except Exception as e:
            viol.append(("C05-N15:filename-keyword-ignored", "rebound.Simulation.from_simulationarchive(sa) raises %s: %s" % (type(e).__name__, str(e)[:80]), {"entry": "Simulation.from_simulationarchive"}))
        done.add("Simulation.from_simulationarchive")
        same(a, sa[0], "Simulationarchive[0]"); done.add("Simulationarchive.__getitem__")
        if len(sa) != 1 or len(list(sa)) != 1 or "nblobs" not in str(sa):
            viol.append(("entry-point:Simulationarchive-len-iter", "len / iteration / str of a one-snapshot archive: %s %s" % (len(sa), str(sa)[:60]), {}))
        done |= {"Simulationarchive.__len__", "Simulationarchive.__iter__", "Simulationarchive.__str__"}
        g = sa.getSimulation(a.t, mode="snapshot", keep_unsynchronized=1); done.add("Simulationarchive.getSimulation")
        gs = list(sa.getSimulations([a.t])); done.add("Simulationarchive.getSimulations")
        if g.steps_done != a.steps_done or gs[0].steps_done != a.steps_done:
            viol.append(("entry-point:getSimulation", "getSimulation(s) returns another snapshot", {}))
        try:
            sa.getBezierPaths()
        except Exception:
            pass
        done.add("Simulationarchive.getBezierPaths")
        del sa; done.add("Simulationarchive.__del__")
        cp = a.copy(); same(a, cp, "Simulation.copy"); done |= {"Simulation.copy", "reb_simulation_copy_with_messages"}
        same(a, pickle.loads(pickle.dumps(a)), "pickle"); done.add("Simulation.__reduce__")
        if not (a == cp) or (a != cp):
            viol.append(("entry-point:Simulation.__eq__", "a simulation and its copy are not == ", {}))
        done.add("Simulation.__eq__")
        buf = io.StringIO()
        with contextlib.redirect_stdout(buf):
            a.diff(cp)
        done.add("Simulation.diff")
        buf = io.StringIO()
        with contextlib.redirect_stdout(buf):
            a.status(showParticles=False)          # prints reb_simulation_diff_char against a fresh simulation
        done.add("Simulation.status")
        if "integrator" not in buf.getvalue() or "\ndt" not in buf.getvalue().replace("\x1b[31m", ""):
            if "dt:" not in buf.getvalue():
                viol.append(("entry-point:Simulation.status", "status() does not list the non-default fields (integrator, dt): %s" % buf.getvalue()[-200:], {}))
        fn2 = os.path.join(S.tmp, "ep2.bin")
        a3 = build_sim(rb, dict(cfg, variational=None))
        a3.save_to_file(fn2, interval=0.05, delete_file=True)
        got_fn = a3.simulationarchive_filename
        if (got_fn.decode() if isinstance(got_fn, bytes) else got_fn) != fn2:
            viol.append(("entry-point:simulationarchive_filename", "simulationarchive_filename is %r" % a3.simulationarchive_filename, {}))
        done.add("Simulation.simulationarchive_filename")
        return {"done": sorted(done), "viol": viol}

    ok, out = forked(task, None)
    if not ok:
        c.violation("entry-point-crash", "exercising the public entry points of save / restore / copy / compare crashed", {})
        return
    for key, what, rep in out["viol"]:
        c.violation(key, what, rep)
    missing = [e for e in cfun + pym if e not in set(out["done"])]
    c.cov["entry_points_exercised"] = len([e for e in cfun + pym if e in set(out["done"])])
    c.cov["entry_points_not_exercised"] = missing
    c.count(("entry-points",), n=len(out["done"]))
    if missing:
        c.corr_break("public entry points of the persistence mechanism not exercised in this run: " + ", ".join(missing))


def pairwise_array(c, factors, tag):
    """covering array for this seed (cached in corpus/: generation is deterministic but takes ~15 s)"""
    import hashlib, inspect
    import persist_common as _pc
    sig = hashlib.sha1((json.dumps(factors, sort_keys=False, default=str) + inspect.getsource(_pc.pair_excluded) +
                        "".join(r[0] + r[1] + r[3] + inspect.getsource(r[2]) for r in PAIR_RULES) + "".join(r[1] for r in TRIPLE_RULES)).encode()).hexdigest()[:12]
    fn = os.path.join(ROOT, "corpus", "C05", "pairs_%s_%s_seed%d.json" % (tag, sig, c.seed))
    if os.path.exists(fn):
        j = json.load(open(fn))
        return [OrderedDict(x) for x in j["cases"]], {tuple(p) for p in j["total"]}, {tuple(p[:4]): p[4] for p in j["excluded"]}
    cases, tot, exc, unc = covering_array(factors, SplitMix(7919 * c.seed + 13))
    os.makedirs(os.path.dirname(fn), exist_ok=True)
    json.dump({"cases": [list(x.items()) for x in cases], "total": sorted(map(list, tot), key=str),
               "excluded": sorted([list(k_) + [v] for k_, v in exc.items()], key=str)}, open(fn, "w"))
    return cases, tot, exc


def pairwise_cases(c, factors, tag, to_case):
    arr, tot, exc = pairwise_array(c, factors, tag)
    out = []
    for i, fc in enumerate(arr):
        cfg, path, k, kind = to_case(fc)
        cfg["pw_index"] = i
        out.append((cfg, path, k, kind))
    return out, arr, tot, exc


def finish_pairs(c, S, arr, tot, exc, run_more, factors=None, to_case=None):
    """coverage.pairs from the factor assignments that ran to the end; assignments the code rejected leave their pairs
    uncovered: up to two repair rounds generate other assignments for exactly those pairs"""
    factors = factors or FACTORS
    to_case = to_case or factor_cfg

    def covered_now():
        done = {int(k_.split("|")[1]) for k_ in S.hist if k_.startswith("pwdone|")}
        cov = set()
        for i in done:
            if i < len(arr):
                cov |= case_pairs(arr[i])
        return cov & tot, done
    cov, done = covered_now()
    rounds = 0
    while len(cov) < len(tot) and rounds < 2:
        rounds += 1
        missing = sorted(tot - cov, key=str)
        rng = SplitMix(c.seed * 104729 + rounds)
        extra = []
        for pr in missing[:120]:
            got = 0
            for attempt in range(4):
                cand = {pr[0]: pr[1], pr[2]: pr[3]}
                ok = True
                for f in factors:
                    if f in cand:
                        continue
                    vals = list(factors[f]); rng.shuffle(vals)
                    for v in vals:
                        if all(not pair_excluded(f, v, g, cand[g]) for g in cand) and not triple_excluded(dict(cand, **{f: v})):
                            cand[f] = v
                            break
                    else:
                        ok = False
                        break
                if ok:
                    oc = OrderedDict((f, cand[f]) for f in factors)
                    if oc not in extra:            # two different completions per uncovered pair: one may be rejected again
                        extra.append(oc)
                        got += 1
                    if got >= 2:
                        break
        if not extra:
            break
        base = len(arr)
        arr.extend(extra)
        cases = []
        for j, fc in enumerate(extra):
            cfg, path, k, kind = to_case(fc)
            cfg["pw_index"] = base + j
            cases.append((cfg, path, k, kind))
        run_more(cases)
        cov, done = covered_now()
    missing = sorted(tot - cov, key=str)
    rejected = [dict(arr[i], _why=S.hist.get("pwrej|%d" % i, "?")) for i in range(len(arr)) if i not in done]
    for k_ in [k_ for k_ in list(S.hist) if k_.startswith("pwrej|")]:
        del S.hist[k_]
    for k_ in [k_ for k_ in list(S.hist) if k_.startswith("pwdone|")]:
        del S.hist[k_]
    c.cov["pairs"] = {"covered": len(cov), "total": len(tot), "excluded": len(exc), "factors": {f: len(v) for f, v in factors.items()},
                      "assignments_generated": len(arr), "assignments_completed": len(done), "repair_rounds": rounds,
                      "missing": [list(p) for p in missing[:25]],
                      "assignments_rejected_by_the_code": rejected[:40],
                      "excluded_reasons": sorted({v for v in exc.values()}), "three_factor_constraints": [r[1] for r in TRIPLE_RULES]}
    if c.thorough and missing:
        c.corr_break("pairwise coverage incomplete: %d of %d applicable factor pairs never ran to the end, e.g. %s" % (len(missing), len(tot), missing[:3]))


def finish_dimensions(c, S, extra, applicable):
    dm = {k_[4:]: v for k_, v in S.hist.items() if k_.startswith("dim|")}
    for k_ in [k_ for k_ in list(S.hist) if k_.startswith("dim|")]:
        del S.hist[k_]
    dm.update(extra)
    for dn in applicable:
        dm.setdefault(dn, 0)
    c.cov["dimensions"] = dict(sorted(dm.items()))
    for dn in applicable:
        if dm[dn] == 0:
            c.corr_break("dimension %s not covered (0 evaluated cases)" % dn)


def targeted(c, S, rb, rng, thorough):
    """scenarios aimed at the members the coverage theorem lists as not persisted but read by an integrator"""
    cases = []
    # C05-N1: MERCURIUS request flag set by the user right before the save
    for sa in (1, 3):
        cases.append(({"integrator": "mercurius", "o": {"safe_mode": 1}, "system": "close", "save_after": sa, "edit": "mercurius_rcrit"}, "buffer", 9))
    # TRACE after physical collisions (N_allocated_collisions != 0 at the save point)
    for i in range(48 if thorough else 8):
        cases.append(({"integrator": "trace", "o": {}, "system": "swarm", "seed": int(rng.next() % 100000), "collision": "direct",
                       "save_after": 150}, "buffer", 250))
    # BS: save points where the error estimate converges early after the tolerances were loosened (F9b)
    for i in range(400 if thorough else 24):
        cases.append(({"integrator": "bs", "o": {"eps_abs": 10 ** -rng.uniform(9, 13), "eps_rel": 10 ** -rng.uniform(9, 13)},
                       "system": rng.choice(["planets", "close", "peri"]), "save_after": rng.randint(1, 6),
                       "edit": "bs_loosen", "edit_eps": 10 ** -rng.uniform(3, 6)}, "buffer", 6))
    run_cases(c, S, cases, chunk=4, budget=25)


class Rec:
    """event recorder used inside forked workers; replayed into the real Check by the parent"""
    def __init__(self, seed, thorough):
        self.ev = []
        self.seed, self.thorough = seed, thorough

    def count(self, key=None, nontrivial=True, n=1):
        self.ev.append(["count", key, nontrivial])

    def violation(self, key, what, replay):
        self.ev.append(["violation", key, what, replay])

    def corr_break(self, what, detail=None):
        self.ev.append(["corr", what, detail])

    def log(self, *a):
        pass


def replay_events(c, ev, hist, S):
    for e in ev:
        if e[0] == "count":
            k = e[1]
            c.count(tuple(k) if isinstance(k, list) else k, e[2])
        elif e[0] == "violation":
            c.violation(e[1], e[2], e[3])
        elif e[0] == "corr":
            c.corr_break(e[1], e[2])
    for k, v in hist.items():
        S.hist[k] = (S.hist.get(k, 0) + v) if not isinstance(v, str) else v


def run_cases(c, S, cases, nproc=8, chunk=12, budget=45):
    """run S.one over (cfg, path, k) cases in forked workers; a crashing case is pinned down and reported"""
    rb, info, R = S.rb, S.info, S.R

    def work(sub):
        rec = Rec(c.seed, c.thorough)
        W = Search(rec, rb, info, R)
        for case in sub:
            cfg, path, k = case[0], case[1], case[2]
            kind = case[3] if len(case) > 3 else "one"
            if kind == "twin":
                W.twin_one(cfg, path, k)
            elif kind == "syncsave":
                W.syncsave_one(cfg, path, k)
            elif kind == "archive":
                W.archive_one(cfg, k)
            else:
                W.one(cfg, path, k)
        shutil.rmtree(W.tmp, ignore_errors=True)
        return {"ev": rec.ev, "hist": W.hist}

    chunks = [cases[i:i + chunk] for i in range(0, len(cases), chunk)]
    running = []   # (pid, rfd, sub)
    results = []

    def start(sub):
        rfd, wfd = os.pipe()
        pid = os.fork()
        if pid == 0:
            rcode = 1
            try:
                os.close(rfd)
                out = work(sub)
                data = json.dumps(out, default=str).encode()
                with os.fdopen(wfd, "wb") as f:
                    f.write(data)
                rcode = 0
            except BaseException:
                import traceback
                traceback.print_exc()          # a bug of the check itself, not a crash of the library: exit code 3
                rcode = 3
            finally:
                os._exit(rcode)
        os.close(wfd)
        return (pid, rfd, sub)

    def finish(job):
        import select, signal
        pid, rfd, sub = job
        data = b""
        deadline = time.time() + (8 + 1.5 * len(sub))     # watchdog: the Kepler solver can loop forever (F14, C03)
        hung = False
        while True:
            rdy, _, _ = select.select([rfd], [], [], max(0.0, deadline - time.time()))
            if not rdy:
                hung = True
                os.kill(pid, signal.SIGKILL)
                break
            ch = os.read(rfd, 1 << 16)
            if not ch:
                break
            data += ch
        os.close(rfd)
        _, status = os.waitpid(pid, 0)
        if hung:
            if len(sub) > 1:
                for one in sub:
                    finish(start([one]))
            else:
                S.hist["hung_case_killed_by_watchdog"] = S.hist.get("hung_case_killed_by_watchdog", 0) + 1
                S.hist.setdefault("hung_cases", []).append(cfg_key(sub[0][0])[:300])
            return
        if status == 0 and data:
            o = json.loads(data.decode())
            replay_events(c, o["ev"], o["hist"], S)
        elif len(sub) > 1:
            for one in sub:       # pin the crashing case
                finish(start([one]))
        else:
            cfg, path, k = sub[0][0], sub[0][1], sub[0][2]
            if os.WIFEXITED(status) and os.WEXITSTATUS(status) == 3:
                c.corr_break("the check's worker raised a Python exception on cfg %s (see stderr)" % cfg_key(cfg)[:200])
                return
            key = "crash:" + cfg["integrator"]
            if cfg["integrator"] == "trace" and any(op in ("add", "add2", "remove_last", "remove_mid") for op in cfg.get("pre", []) + cfg.get("post", [])):
                # C05-N17 ONLY if the history crashes all by itself: the same build / advance / edits / continuation on the
                # source alone, with no save, copy or load anywhere
                def source_only(_):
                    a_ = build_sim(rb, cfg); advance(a_, cfg["save_after"]); S.pre_save_edit(a_, cfg)
                    apply_ops(a_, cfg.get("post", [])); advance(a_, k)
                    return True
                if not forked(source_only, None)[0]:
                    key = "C05-N17:trace-add-remove-between-steps-crashes"
            if any(op.startswith("switchraw:") for op in cfg.get("pre", []) + cfg.get("post", [])):
                # C05-N11 (stale BS ode of the wrong length after a raw integrator switch + add/remove corrupts memory)
                # ONLY if the same history with reset_integrator() after each assignment runs through
                cfg2 = dict(cfg)
                cfg2["pre"] = [op.replace("switchraw:", "switch:") for op in cfg.get("pre", [])]
                cfg2["post"] = [op.replace("switchraw:", "switch:") for op in cfg.get("post", [])]

                def rerun(_):
                    W = Search(Rec(c.seed, c.thorough), rb, info, R)
                    (W.twin_one if (len(sub[0]) > 3 and sub[0][3] == "twin") else W.one)(cfg2, path, k)
                    shutil.rmtree(W.tmp, ignore_errors=True)
                    return True
                if cfg["integrator"] == "trace" and forked(rerun, None)[0]:
                    key = "C05-N11:integrator-switched-without-reset"
            if uses_tree(cfg):
                # C05-N5 is ONLY: the source holds a NaN-flagged / out-of-box particle at the save point (F17 state)
                try:
                    a = build_sim(rb, cfg); advance(a, cfg["save_after"]); S.pre_save_edit(a, cfg)
                    half = [a.boxsize.x / 2, a.boxsize.y / 2, a.boxsize.z / 2]
                    bad = any(not (abs(p.x) <= half[0] and abs(p.y) <= half[1] and abs(p.z) <= half[2]) for p in [a.particles[i] for i in range(a.N)])
                    key = "C05-N5:load-crash-tree-flagged-particles" if bad else "crash:tree-mode-without-flagged-particles"
                except Exception:
                    pass
            c.violation(key, "save/load/continue of a reachable simulation crashes the process (status %d), cfg %s path %s" % (status, cfg_key(cfg), path),
                        {"cfg": cfg, "path": path, "steps": k})
    queue = list(chunks)
    t_end = time.time() + (1200 if c.thorough else budget)
    try:
        os.remove(os.path.join(os.environ.get("VERIF_TMP", "/tmp"), "c05_budget_%d" % os.getpid()))
    except OSError:
        pass
    while queue or running:
        while queue and len(running) < nproc and time.time() < t_end:
            running.append(start(queue.pop(0)))
        if not running:
            break
        finish(running.pop(0))
    if queue:
        S.hist["cases_skipped_wall_budget"] = S.hist.get("cases_skipped_wall_budget", 0) + sum(len(q) for q in queue)
    try:
        os.remove(os.path.join(os.environ.get("VERIF_TMP", "/tmp"), "c05_budget_%d" % os.getpid()))
    except OSError:
        pass


HIST_BASES = [("ias15", {}), ("ias15", {"adaptive_mode": 1}), ("whfast", {"safe_mode": 0}), ("whfast", {"safe_mode": 1}),
              ("whfast", {"safe_mode": 0, "corrector": 11}), ("whfast", {"safe_mode": 0, "coordinates": "democraticheliocentric"}),
              ("saba", {"safe_mode": 0}), ("saba", {"safe_mode": 1, "type": "cl4"}), ("eos", {"safe_mode": 0, "phi0": "lf4", "phi1": "lf"}),
              ("eos", {"safe_mode": 1}), ("mercurius", {"safe_mode": 0}), ("mercurius", {"safe_mode": 1}), ("trace", {}), ("bs", {}),
              ("leapfrog", {}), ("janus", {"order": 4})]


def history_cases(c, cfgs):
    """(b) histories with structural operations before the save and after the restore; save-vs-no-save twins;
    (a) every public restore path of a three-snapshot archive"""
    rng, out = c.rng, []
    paths = ["buffer", "file", "copy", "pickle"]
    nh = 4000 if c.thorough else 400
    for i in range(nh):
        integ, o = HIST_BASES[rng.next() % len(HIST_BASES)]
        cfg = {"integrator": integ, "o": dict(o), "system": "close" if integ in ("mercurius", "trace") and rng.chance(0.5) else "planets",
               "save_after": rng.randint(0, 8), "pre": PRE_OPS[rng.next() % len(PRE_OPS)], "post": POST_OPS[rng.next() % len(POST_OPS)]}
        out.append((cfg, paths[rng.next() % 4], rng.randint(1, 12), "twin" if i % 3 == 2 else "one"))
    # the archive paths: deferred-synchronisation integrators in safe_mode 0 (with and without correctors) first, then the rest
    arch = [("whfast", {"safe_mode": 0}), ("whfast", {"safe_mode": 0, "corrector": 11}), ("whfast", {"safe_mode": 0, "corrector": 17, "corrector2": 1, "kernel": "lazy"}),
            ("whfast", {"safe_mode": 0, "coordinates": "whds"}), ("whfast", {"safe_mode": 0, "kernel": "composition"}), ("whfast", {"safe_mode": 1}),
            ("saba", {"safe_mode": 0}), ("saba", {"safe_mode": 0, "type": "cm3"}), ("saba", {"safe_mode": 1}),
            ("mercurius", {"safe_mode": 0}), ("mercurius", {"safe_mode": 1}), ("eos", {"safe_mode": 0, "phi0": "lf4", "phi1": "lf"}), ("eos", {"safe_mode": 1}),
            ("ias15", {}), ("leapfrog", {}), ("janus", {}), ("bs", {}), ("trace", {})]
    for integ, o in arch:
        for system in (("planets", "close") if c.thorough or integ in ("mercurius",) else ("planets",)):
            out.append(({"integrator": integ, "o": o, "system": system, "save_after": 0}, "archive", 7, "archive"))
            if c.thorough:
                out.append(({"integrator": integ, "o": o, "system": system, "save_after": 0, "testparticles": 1}, "archive", 11, "archive"))
    # "synchronise for output, then save" with keep_unsynchronized=1 (with non-zero variational particles, MEGNO, test particles)
    paths4 = ["buffer", "file", "copy", "pickle"]
    i = 0
    for o in ({"safe_mode": 0, "keep_unsynchronized": 1}, {"safe_mode": 0, "keep_unsynchronized": 1, "coordinates": "democraticheliocentric"},
              {"safe_mode": 0, "keep_unsynchronized": 1, "coordinates": "whds"}, {"safe_mode": 0, "keep_unsynchronized": 1, "corrector": 11},
              {"safe_mode": 0, "keep_unsynchronized": 1, "kernel": "lazy"}):
        for extra in ({}, {"variational": 1}, {"variational": 2}, {"megno": 1}, {"testparticles": 1}, {"testparticles": 2, "variational": 1}):
            if extra.get("variational") == 2 and (o.get("kernel") or o.get("coordinates")):
                continue
            for sa in ((1, 4) if c.thorough else (3,)):
                cfg = dict({"integrator": "whfast", "o": o, "system": "planets", "save_after": sa}, **extra)
                out.append((cfg, paths4[i % 4], 7, "syncsave")); i += 1
    for o in ({"safe_mode": 0, "keep_unsynchronized": 1}, {"safe_mode": 0, "keep_unsynchronized": 1, "type": "cl4"}):
        for extra in ({}, {"testparticles": 1}):
            out.append((dict({"integrator": "saba", "o": o, "system": "planets", "save_after": 3}, **extra), paths4[i % 4], 7, "syncsave")); i += 1
    return out


def run(c):
    d = build()
    rb = use_scratch_rebound(d)
    info, ok = prove_with_gen(c, d, ["RV.Props.C05"])
    exe = info["drv"]
    R = Real(rb, info)
    S = Search(c, rb, info, R)
    read_set_report(c, info)
    c.cov["rule"] = ("lattice of configurations (WHFast 4 coordinates x safe_mode x keep_unsynchronized, kernels, correctors 3..17, corrector2; "
                     "18 SABA types; EOS pairs; IAS15 modes 0-3, epsilon=0; MERCURIUS; TRACE 3 pericentre modes; BS tolerances; JANUS orders; LEAPFROG; SEI; "
                     "test particles types 0/1; variational orders 1,2; MEGNO; collisions direct/line/tree/linetree with merging; tree gravity; boundaries) "
                     "x save after 0,1,7 steps (incl. unsynchronised states) x path (memory buffer, file, copy, pickle round robin); every case compares "
                     "ALL persisted bytes (pointer members masked) right after the load and after 9 further steps; distinct_nontrivial = distinct "
                     "(configuration, path) with a non-default option or at least one step before the save; plus one case per scalar struct member (sweep), "
                     "per element member of each persisted array, per model-decoded real stream")
    c.cov["trusted_base"] = ["Lean 4.33 kernel", "translator rv/extract_c05.py (regex view cross-checked against the compiled table and the compiler's offsetof/sizeof)",
                             "correspondence drv_c05 vs compiled output.c/input.c on real streams (differential)",
                             "gcc's struct layout; ctypes; the Python re-parser of the stream format"]
    c.assumptions += ["stdio / the file system are modelled as byte lists", "byte framing of streams (header, field headers, trailer) is C06/C07's model; here a stream is its field list",
                      "that the real integrators read no unpersisted state is established only by the bitwise continuation runs (and refuted in the recorded findings)",
                      "WHFast512 is not compiled on this host (no AVX512): its rows are covered by the table theorems only"]
    unc = uncovered_members(info)
    if unc:
        c.log("members neither persisted nor classified:", unc)
    cfgs = lattice(c.thorough)
    c.cov["lattice_size"] = len(cfgs)
    # --- correspondence
    corr_cfgs = cfgs if c.thorough else [cf for i, cf in enumerate(cfgs) if i % 6 == (c.seed % 6)]
    correspondence(c, exe, rb, info, R, corr_cfgs)
    c.log("correspondence done: %s streams" % c.cov.get("model_streams_compared"))
    # --- search
    paths = ["buffer", "file", "copy", "pickle"]
    cases = []
    for i, cfg in enumerate(cfgs):
        cases.append((cfg, paths[(i + c.seed) % 4], 9))
        if c.thorough:
            cases.append((cfg, paths[(i + c.seed + 2) % 4], 23))
    # randomised save points / continuation lengths / paths on top of the lattice (seeded)
    nf = 20000 if c.thorough else 1200
    for i in range(nf):
        cfg = dict(cfgs[c.rng.next() % len(cfgs)])
        cfg["save_after"] = c.rng.randint(0, 12)
        cases.append((cfg, paths[c.rng.next() % 4], c.rng.randint(1, 25)))
    # deterministic lattice and the archive restore paths first, the seeded random cases after (a wall-clock budget
    # may cut the tail of the list on a loaded machine: histogram.cases_skipped_wall_budget)
    hc = history_cases(c, cfgs)
    nlat = len(cfgs) * (2 if c.thorough else 1)
    pw, pw_arr, pw_tot, pw_exc = pairwise_cases(c, FACTORS, "c05", factor_cfg)
    hc = pw + hc
    first = ("archive", "syncsave")
    cases = [x for x in hc if x[3] in first] + cases[:nlat] + [x for x in hc if x[3] not in first] + cases[nlat:]
    triples = []
    if c.thorough:
        # 3-way coverage of the factors closest to the mechanism: integrator x restore path x event right before the save
        rng3 = SplitMix(c.seed * 31337 + 5)
        tot3 = 0
        for iv in FACTORS["integ"]:
            for pv in FACTORS["path"]:
                for ev in FACTORS["event"]:
                    part = {"integ": iv, "path": pv, "event": ev}
                    if pair_excluded("integ", iv, "path", pv) or pair_excluded("integ", iv, "event", ev) or pair_excluded("event", ev, "path", pv) \
                            or not completable(FACTORS, part):
                        continue
                    tot3 += 1
                    cand = dict(part)
                    for f in FACTORS:
                        if f in cand:
                            continue
                        vals = list(FACTORS[f]); rng3.shuffle(vals)
                        for v in vals:
                            if all(not pair_excluded(f, v, g, cand[g]) for g in cand) and not triple_excluded(dict(cand, **{f: v})) \
                                    and completable(FACTORS, dict(cand, **{f: v})):
                                cand[f] = v
                                break
                    if len(cand) == len(FACTORS):
                        cfg3, path3, k3, kind3 = factor_cfg(OrderedDict((f, cand[f]) for f in FACTORS))
                        cfg3["tw_index"] = len(triples)
                        triples.append((cfg3, path3, k3, kind3))
        c.cov["triples"] = {"factors": ["integ", "path", "event"], "total": tot3, "generated": len(triples)}
    cases = [x for x in cases if x[0].get("pw_index") is not None] + triples + dimension_first([x for x in cases if x[0].get("pw_index") is None])
    run_cases(c, S, cases)
    finish_pairs(c, S, pw_arr, pw_tot, pw_exc, lambda more: run_cases(c, S, more, budget=20))
    c.log("lattice done (%d cases)" % len(cases))
    member_sweep(c, S, info, R, rb)
    heap_sweep(c, S, info, R, rb)
    archive_field_sweep(c, S, info, R, rb)
    c.log("sweeps done")
    targeted(c, S, rb, c.rng, c.thorough)
    entry_points(c, S, info, R, rb)
    extra = dimension_cases(c, S, info, R, rb)
    finish_dimensions(c, S, extra, DIMS_COMMON + ["kind:one", "kind:twin", "kind:archive", "kind:syncsave", "histories:structural_ops",
                      "histories:integrator_switch", "histories:add_remove", "histories:explicit_synchronize", "scale:counters_ge_2^32", "histories:archive_gap_reset", "histories:archive_gap_remove_step",
                      "histories:archive_gap_switch_reset_step", "histories:archive_gap_reset_step"] + list(extra))
    c.cov["histogram"] = S.hist
    c.sample({"cfg": cfgs[7], "path": "file"})
    c.sample({"cfg": cfgs[len(cfgs) // 2], "path": "pickle"})
    shutil.rmtree(S.tmp, ignore_errors=True)


if __name__ == "__main__":
    main("C05", run)
