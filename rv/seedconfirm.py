"""Confirm an independently written breaking change before keeping it under seeded/.

    python3 rv/seedconfirm.py /tmp/mut-C12 A  [name]

In the scratch worktree: (1) clean source + rebuild -> demo passes; (2) apply patch, rebuild ->
the full existing test suite gives the baseline result (873 passed, the network test fails, 4
collection errors) and the demo fails; (3) revert + rebuild.  On success copies patch.diff, the
demo and meta.json (+ a `confirmed` record of what was run) to /verif/seeded/<name>/.
"""
import json, os, re, shutil, subprocess, sys, time
ROOT = os.path.dirname(os.path.dirname(os.path.abspath(__file__)))
PY = "/venv/bin/python"


def sh(cmd, cwd, timeout=1800):
    p = subprocess.run(cmd, cwd=cwd, shell=True, capture_output=True, text=True, timeout=timeout)
    return p.returncode, p.stdout + p.stderr


def rebuild(wt):
    rc, out = sh(PY + " setup.py build_ext --inplace", wt)
    if rc != 0:
        raise SystemExit("build failed:\n" + out[-2000:])


def main():
    wt, which = sys.argv[1], sys.argv[2]
    od = os.path.join(wt, "out", which)
    meta = json.load(open(os.path.join(od, "meta.json")))
    pid = meta["property"]
    name = sys.argv[3] if len(sys.argv) > 3 else "%s-%s" % (pid, which.lower())
    demo_cmd = meta["demo_cmd"]
    rec = {"worktree": wt, "demo_cmd": demo_cmd}
    sh("git checkout -- src rebound", wt)
    rebuild(wt)
    rc0, out0 = sh(demo_cmd, wt, 900)
    rec["demo_clean_rc"] = rc0
    rc, out = sh("git apply --whitespace=nowarn out/%s/patch.diff" % which, wt)
    if rc != 0:
        raise SystemExit("patch does not apply: " + out)
    try:
        rebuild(wt)
        rc1, out1 = sh(demo_cmd, wt, 900)
        rec["demo_patched_rc"] = rc1
        t0 = time.time()
        rct, outt = sh(PY + " -m pytest -q -p no:cacheprovider --timeout=900 --continue-on-collection-errors 2>&1 | tail -12", wt, 3000)
        summ = [l for l in outt.splitlines() if " passed" in l]
        rec["suite"] = summ[-1] if summ else outt[-300:]
        fails = sorted(set(re.findall(r"^(?:FAILED|ERROR) (\S+)", outt, flags=re.M)))
        rec["suite_failures"] = fails
        rec["suite_wall_s"] = round(time.time() - t0)
        srv = [f for f in fails if "test_server" in f]
        if srv and "872 passed" in rec["suite"]:
            # the server tests bind a fixed port: another suite running at the same time makes them fail; re-run them alone
            for k in range(4):
                time.sleep(20)
                rcs, outs = sh(PY + " -m pytest -q -p no:cacheprovider --timeout=900 rebound/tests/test_server.py 2>&1 | tail -3", wt, 900)
                if " passed" in outs and "failed" not in outs:
                    rec["suite_server_rerun"] = outs.strip().splitlines()[-1]
                    fails = [f for f in fails if f not in srv]
                    rec["suite"] = rec["suite"].replace("872 passed", "873 passed").replace("2 failed", "1 failed") + " (test_server re-run alone: port clash)"
                    rec["suite_failures"] = fails
                    break
    finally:
        sh("git checkout -- src rebound", wt)
        rebuild(wt)
    base_fail = {"rebound/tests/test_horizons.py::TestHorizons::test_earth",
                 "rebound/tests/test_saba.py::test_method", "rebound/tests/test_simulationarchive_matrix.py::test_method",
                 "rebound/tests/test_whfast_advanced.py::test_method", "rebound/tests/test_whfast_testparticles.py::test_method"}
    ok_suite = "873 passed" in rec["suite"] and set(fails) <= base_fail
    ok = rc0 == 0 and rec.get("demo_patched_rc", 0) != 0 and ok_suite
    rec["confirmed"] = ok
    print(json.dumps(rec, indent=1))
    if not ok:
        print("NOT CONFIRMED", "(demo clean rc=%s, patched rc=%s, suite ok=%s)" % (rc0, rec.get("demo_patched_rc"), ok_suite))
        if rc0 != 0:
            print(out0[-1500:])
        sys.exit(1)
    dst = os.path.join(ROOT, "seeded", name)
    os.makedirs(dst, exist_ok=True)
    for f in os.listdir(od):
        if os.path.isfile(os.path.join(od, f)) and os.path.getsize(os.path.join(od, f)) < 200000:
            shutil.copy(os.path.join(od, f), dst)
    meta["what_was_run"] = rec
    json.dump(meta, open(os.path.join(dst, "meta.json"), "w"), indent=1)
    print("kept as", dst)


if __name__ == "__main__":
    main()
