"""C01 translator: coefficient tables and operator schedules of the fixed-step integrators,
read from the C sources of the *current* tree and written as exact rationals to
lean/RV/Gen/C01Coeffs.lean.

Deliberately dumb: a tokenizer, a recursive-descent parser for the C subset that occurs in
the table initialisers and in the schedule code (declarations, if/else, for, switch, calls,
assignments, constant expressions), and an interpreter that *executes the control flow of
the source text* for one concrete configuration (integrator type, kernel, n, ...) with
dt = 1 and records every call of a primitive operator together with its (exact rational)
coefficient.  Nothing is known here about what the tables or schedules should be.

Decimal literals become `fractions.Fraction` from their text, never through a double.
"""
import os, re, subprocess, sys, tempfile
from fractions import Fraction


class ExtractError(Exception):
    pass


# ------------------------------------------------------------------------------- lexing
def strip_comments(src):
    src = re.sub(r"/\*.*?\*/", " ", src, flags=re.S)
    src = re.sub(r"//[^\n]*", " ", src)
    return src


TOK = re.compile(r"""
    (?P<num>(?:0[xX][0-9a-fA-F]+)|(?:(?:[0-9]+\.[0-9]*|\.[0-9]+|[0-9]+)(?:[eE][-+]?[0-9]+)?))[uUlLfF]*
  | (?P<id>[A-Za-z_]\w*)
  | (?P<str>"(?:[^"\\]|\\.)*")
  | (?P<op>->|\+\+|--|<<|>>|<=|>=|==|!=|&&|\|\||\+=|-=|\*=|/=|[-+*/%<>=!&|^~?:;,.()\[\]{}])
  | (?P<ws>\s+)
""", re.X)


def tokenize(src):
    toks, i = [], 0
    while i < len(src):
        m = TOK.match(src, i)
        if not m:
            raise ExtractError("cannot tokenize at %r" % src[i:i + 40])
        i = m.end()
        k = m.lastgroup
        if k == "ws":
            continue
        t = m.group(k)
        toks.append((k, t))
    return toks


def number(text):
    """C numeric literal -> int or exact Fraction"""
    if re.match(r"0[xX]", text):
        return int(text, 16)
    if re.match(r"^[0-9]+$", text):
        return int(text)
    m = re.match(r"^([0-9]*)\.?([0-9]*)(?:[eE]([-+]?[0-9]+))?$", text)
    if not m or (m.group(1) == "" and m.group(2) == ""):
        raise ExtractError("bad number %r" % text)
    ip, fp, ex = m.group(1) or "0", m.group(2) or "", int(m.group(3) or 0)
    v = Fraction(int(ip + fp), 10 ** len(fp))
    return v * Fraction(10) ** ex


TYPEWORDS = {"const", "static", "struct", "unsigned", "int", "double", "enum", "void", "restrict",
             "inline", "long", "char", "float", "volatile", "extern", "signed", "short"}


# ------------------------------------------------------------------------------- parsing
class P:
    def __init__(self, toks):
        self.t = toks
        self.i = 0

    def peek(self, k=0):
        return self.t[self.i + k] if self.i + k < len(self.t) else ("eof", "")

    def next(self):
        t = self.peek()
        self.i += 1
        return t

    def accept(self, s):
        if self.peek()[1] == s and self.peek()[0] in ("op", "id"):
            self.i += 1
            return True
        return False

    def expect(self, s):
        if not self.accept(s):
            raise ExtractError("expected %r, got %r near %s" % (s, self.peek(), " ".join(x[1] for x in self.t[max(0, self.i - 8):self.i + 4])))

    # ---- expressions
    def expr(self):
        return self.assign()

    def assign(self):
        lhs = self.ternary()
        if self.peek()[1] in ("=", "+=", "-=", "*=", "/=") and self.peek()[0] == "op":
            op = self.next()[1]
            rhs = self.assign()
            return ("assign", op, lhs, rhs)
        return lhs

    def ternary(self):
        c = self.binop(0)
        if self.accept("?"):
            a = self.expr()
            self.expect(":")
            b = self.ternary()
            return ("tern", c, a, b)
        return c

    LEVELS = [["||"], ["&&"], ["|"], ["^"], ["&"], ["==", "!="], ["<", ">", "<=", ">="], ["<<", ">>"],
              ["+", "-"], ["*", "/", "%"]]

    def binop(self, lvl):
        if lvl == len(self.LEVELS):
            return self.unary()
        a = self.binop(lvl + 1)
        while self.peek()[0] == "op" and self.peek()[1] in self.LEVELS[lvl]:
            op = self.next()[1]
            b = self.binop(lvl + 1)
            a = ("bin", op, a, b)
        return a

    def is_type_start(self, k=0):
        t = self.peek(k)
        return t[0] == "id" and (t[1] in TYPEWORDS or t[1].startswith("REB_PARTICLE_INT") or t[1].endswith("_t"))

    def unary(self):
        t = self.peek()
        if t[0] == "op" and t[1] in ("-", "+", "!", "&", "*", "~"):
            self.next()
            return ("un", t[1], self.unary())
        if t[0] == "op" and t[1] in ("++", "--"):
            self.next()
            return ("preinc", t[1], self.unary())
        if t == ("op", "(") and self.is_type_start(1):
            # cast
            self.next()
            ty = []
            while not self.accept(")"):
                ty.append(self.next()[1])
            return ("cast", " ".join(ty), self.unary())
        return self.postfix()

    def postfix(self):
        e = self.primary()
        while True:
            t = self.peek()
            if t == ("op", "["):
                self.next()
                ix = self.expr()
                self.expect("]")
                e = ("index", e, ix)
            elif t == ("op", "("):
                self.next()
                args = []
                if not self.accept(")"):
                    while True:
                        args.append(self.assign())
                        if self.accept(")"):
                            break
                        self.expect(",")
                e = ("call", e, args)
            elif t == ("op", ".") or t == ("op", "->"):
                self.next()
                e = ("member", e, self.next()[1])
            elif t[0] == "op" and t[1] in ("++", "--"):
                self.next()
                e = ("postinc", t[1], e)
            else:
                return e

    def primary(self):
        t = self.next()
        if t[0] == "num":
            return ("num", re.sub(r"[uUlLfF]+$", "", t[1]) if not re.match(r"0[xX]", t[1]) else t[1])
        if t == ("id", "sizeof"):
            self.expect("(")
            depth = 1
            while depth:
                x = self.next()
                if x == ("op", "("):
                    depth += 1
                elif x == ("op", ")"):
                    depth -= 1
                elif x[0] == "eof":
                    raise ExtractError("sizeof")
            return ("num", "1")
        if t[0] == "id":
            return ("id", t[1])
        if t[0] == "str":
            return ("str", t[1])
        if t == ("op", "("):
            e = self.expr()
            self.expect(")")
            return e
        raise ExtractError("unexpected token %r" % (t,))

    # ---- initialisers
    def initializer(self):
        if self.accept("{"):
            items = []
            while not self.accept("}"):
                if self.peek() == ("op", "."):
                    self.next()
                    name = self.next()[1]
                    self.expect("=")
                    items.append(("field", name, self.initializer()))
                else:
                    items.append(self.initializer())
                if not self.accept(","):
                    self.expect("}")
                    break
            return ("init", items)
        return self.assign()

    # ---- statements
    def block_items(self):
        items = []
        while not self.accept("}"):
            items.append(self.stmt())
        return items

    def stmt(self):
        t = self.peek()
        if t == ("op", "{"):
            self.next()
            return ("block", self.block_items())
        if t == ("op", ";"):
            self.next()
            return ("block", [])
        if t[0] == "id":
            w = t[1]
            if w == "if":
                self.next(); self.expect("(")
                c = self.expr(); self.expect(")")
                a = self.stmt()
                b = None
                if self.accept("else"):
                    b = self.stmt()
                return ("if", c, a, b)
            if w == "for":
                self.next(); self.expect("(")
                init = None if self.peek() == ("op", ";") else (self.decl() if self.is_type_start() else ("expr", self.expr()))
                if init is None or init[0] == "expr":
                    self.expect(";")
                cond = None if self.peek() == ("op", ";") else self.expr()
                self.expect(";")
                step = None if self.peek() == ("op", ")") else self.expr()
                self.expect(")")
                body = self.stmt()
                return ("for", init, cond, step, body)
            if w == "while":
                self.next(); self.expect("(")
                c = self.expr(); self.expect(")")
                return ("while", c, self.stmt())
            if w == "switch":
                self.next(); self.expect("(")
                c = self.expr(); self.expect(")")
                self.expect("{")
                items = []
                while not self.accept("}"):
                    if self.accept("case"):
                        lab = self.ternary()
                        self.expect(":")
                        items.append(("case", lab))
                    elif self.accept("default"):
                        self.expect(":")
                        items.append(("default",))
                    else:
                        items.append(self.stmt())
                return ("switch", c, items)
            if w == "break":
                self.next(); self.expect(";")
                return ("break",)
            if w == "continue":
                self.next(); self.expect(";")
                return ("continue",)
            if w == "return":
                self.next()
                e = None if self.peek() == ("op", ";") else self.expr()
                self.expect(";")
                return ("return", e)
            if self.is_type_start():
                return self.decl()
        e = self.expr()
        self.expect(";")
        return ("expr", e)

    def decl(self):
        """declaration statement (consumes the trailing ';'): returns ('decl', typetext, [(name, dims, init)])"""
        ty = []
        while self.is_type_start() or (ty and ty[-1] in ("struct", "enum")):
            t0 = self.peek()
            if t0[1] not in TYPEWORDS and not (ty and ty[-1] in ("struct", "enum")):
                # a typedef-looking name (…_t) is a type only if a declarator follows; `const double old_t = …` declares old_t
                nx = self.peek(1)
                if not (nx[0] == "id" or nx == ("op", "*")):
                    break
            ty.append(self.next()[1])
        out = []
        while True:
            ptr = 0
            while self.peek()[1] in ("*", "const", "restrict", "volatile"):
                if self.next()[1] == "*":
                    ptr += 1
            name = self.next()
            if name[0] != "id":
                raise ExtractError("declaration name expected, got %r (type %s)" % (name, ty))
            dims = []
            while self.accept("["):
                dims.append(None if self.peek() == ("op", "]") else self.expr())
                self.expect("]")
            init = None
            if self.accept("="):
                init = self.initializer()
            out.append((name[1], dims, init, ptr))
            if self.accept(","):
                continue
            self.expect(";")
            break
        return ("decl", " ".join(ty), out)


class CFile:
    """top-level view of one C file: global initialised objects and function definitions"""

    def __init__(self, path):
        self.path = path
        raw = open(path).read()
        self.src = strip_comments(raw)
        # drop #ifdef GENERATE_CONSTANTS ... #endif style blocks and all preprocessor lines
        lines, skip = [], 0
        for line in self.src.split("\n"):
            s = line.strip()
            if s.startswith("#"):
                if re.match(r"#\s*if", s):
                    # only opt-in blocks occur in these files (#ifdef X / #if defined...) : skip their bodies,
                    # except include guards which do not occur in .c files
                    skip += 1
                elif re.match(r"#\s*else", s) and skip == 1:
                    skip = 0        # the #else branch of an undefined macro is compiled
                    self_else = True
                elif re.match(r"#\s*endif", s):
                    skip = max(0, skip - 1)
                lines.append("")
                continue
            lines.append("" if skip else line)
        self.text = "\n".join(lines)
        self.toks = tokenize(self.text)
        self.globals = {}      # name -> (typetext, dims, init AST, source text of the whole definition)
        self.funcs = {}        # name -> (params [(type, name)], body AST)
        self.structs = {}      # struct name -> source text
        self._scan()

    def _scan(self):
        t = self.toks
        i, n = 0, len(t)
        # char offsets are not tracked by the tokenizer; recover definition text by regex later
        while i < n:
            # find end of the top-level item: either ';' at depth 0 or a '{...}' function body
            j, depth = i, 0
            seen_eq = False
            seen_paren_close_then_brace = False
            while j < n:
                k, s = t[j]
                if s in ("(", "[", "{") and k == "op":
                    if s == "{" and depth == 0 and not seen_eq and j > i and t[j - 1] == ("op", ")"):
                        seen_paren_close_then_brace = True
                    depth += 1
                elif s in (")", "]", "}") and k == "op":
                    depth -= 1
                    if depth == 0 and s == "}" and seen_paren_close_then_brace:
                        break
                elif s == "=" and depth == 0 and k == "op":
                    seen_eq = True
                elif s == ";" and depth == 0 and k == "op":
                    break
                j += 1
            item = t[i:j + 1]
            i = j + 1
            if not item:
                continue
            try:
                self._item(item, seen_paren_close_then_brace, seen_eq)
            except ExtractError:
                # items that are not needed (and use syntax outside the subset) are skipped here; a needed
                # object that is missing is reported by the caller
                pass

    def _item(self, item, is_func, has_eq):
        if is_func:
            # ... name ( params ) { body }
            k = next(idx for idx, x in enumerate(item) if x == ("op", "("))
            name = item[k - 1][1]
            depth, m = 0, k
            while True:
                if item[m] == ("op", "("):
                    depth += 1
                elif item[m] == ("op", ")"):
                    depth -= 1
                    if depth == 0:
                        break
                m += 1
            ptoks = item[k + 1:m]
            params, cur, depth = [], [], 0
            for x in ptoks:
                if x == ("op", "(") or x == ("op", "["):
                    depth += 1
                if x == ("op", ")") or x == ("op", "]"):
                    depth -= 1
                if x == ("op", ",") and depth == 0:
                    params.append(cur); cur = []
                else:
                    cur.append(x)
            if cur:
                params.append(cur)
            pnames = []
            for p in params:
                if len(p) == 1 and p[0][1] == "void":
                    continue
                # function pointer parameter:  void (*name)(...)
                fp = [idx for idx, x in enumerate(p) if x == ("op", "(")]
                if fp and p[fp[0] + 1] == ("op", "*"):
                    pnames.append(p[fp[0] + 2][1])
                else:
                    ids = [x[1] for x in p if x[0] == "id"]
                    pnames.append(ids[-1])
            body = item[m + 1:]
            self.funcs[name] = (pnames, body)   # body parsed lazily
            return
        if has_eq:
            p = P(item)
            d = p.decl()
            for name, dims, init, ptr in d[2]:
                self.globals[name] = (d[1], dims, init)
            return
        if item[0][1] == "struct" and any(x == ("op", "{") for x in item):
            self.structs[item[1][1]] = item

    def func_body(self, name):
        pn, body = self.funcs[name]
        if isinstance(body, list) and body and isinstance(body[0], tuple) and body[0] == ("op", "{"):
            p = P(body)
            p.expect("{")
            ast = ("block", p.block_items())
            self.funcs[name] = (pn, ast)
            return pn, ast
        return pn, body

    def definition_text(self, name):
        """source text (comments stripped) of the global definition of `name`, for the compiled cross-check"""
        m = re.search(r"(?:^|\n)\s*(static\s+)?(const\s+)?(?:struct\s+\w+|double|int|unsigned int)\s+(?:const\s+)?" + re.escape(name)
                      + r"\s*(\[[^\]]*\]\s*)*=", self.text)
        if not m:
            raise ExtractError("definition text of %s not found" % name)
        s = m.start()
        i = self.text.index("=", m.end() - 1)
        depth = 0
        while True:
            ch = self.text[i]
            if ch == "{":
                depth += 1
            elif ch == "}":
                depth -= 1
            elif ch == ";" and depth == 0:
                break
            i += 1
        return self.text[s:i + 1].strip()

    def struct_text(self, sname):
        m = re.search(r"struct\s+" + re.escape(sname) + r"\s*\{", self.text)
        if not m:
            raise ExtractError("struct %s not found" % sname)
        i = self.text.index("{", m.start())
        depth = 0
        while True:
            ch = self.text[i]
            if ch == "{":
                depth += 1
            elif ch == "}":
                depth -= 1
                if depth == 0:
                    break
            i += 1
        return self.text[m.start():i + 1] + ";"


# ------------------------------------------------------------------------------- evaluation
class Opaque:
    """a value the translator does not track (pointers to particle arrays, ...)"""

    def __init__(self, what):
        self.what = what

    def __repr__(self):
        return "<%s>" % self.what


class Path:
    """an object of the simulation (r, r.ri_whfast, r.particles[0].x): resolved through Interp.mem"""

    def __init__(self, p):
        self.p = p

    def __repr__(self):
        return "@" + self.p


class Lin:
    """linear form over symbols with Fraction coefficients (used to read drift/kick coefficients off
    straight-line particle updates such as leapfrog's)"""

    def __init__(self, d=None, c=0):
        self.d = {k: Fraction(v) for k, v in (d or {}).items() if v != 0}
        self.c = Fraction(c)

    @staticmethod
    def lift(x):
        return x if isinstance(x, Lin) else Lin({}, x)

    def __add__(self, o):
        o = Lin.lift(o)
        d = dict(self.d)
        for k, v in o.d.items():
            d[k] = d.get(k, 0) + v
        return Lin(d, self.c + o.c)

    __radd__ = __add__

    def __neg__(self):
        return Lin({k: -v for k, v in self.d.items()}, -self.c)

    def __sub__(self, o):
        return self + (-Lin.lift(o))

    def __rsub__(self, o):
        return Lin.lift(o) - self

    def __mul__(self, o):
        if isinstance(o, Lin):
            if not o.d:
                o = o.c
            elif not self.d:
                return o * self.c
            else:
                raise ExtractError("non-linear particle update")
        return Lin({k: v * o for k, v in self.d.items()}, self.c * o)

    __rmul__ = __mul__

    def coeff(self, k):
        return self.d.get(k, Fraction(0))


SYMCELL = re.compile(r"^ode\.(C|y1)\[\d+\]$|^ode\.D\[\d+\]\[\d+\]$")     # extrapolation table cells of integrator_bs.c
SYMFIELD = re.compile(r"\[\d+\]\.(x|y|z|vx|vy|vz|ax|ay|az)$")


class Break(Exception):
    pass


class Continue(Exception):
    pass


class Return(Exception):
    def __init__(self, v):
        self.v = v


def isnum(v):
    return isinstance(v, (int, Fraction)) and not isinstance(v, bool)


class Interp:
    def __init__(self, files, mem=None, inline=(), returns=None, max_ops=100000):
        self.files = files
        self.mem = dict(mem or {})
        self.inline = set(inline)
        self.returns = returns or {}
        self.ops = []
        self.max_ops = max_ops
        self.globals = {}
        for f in files:
            for name, (ty, dims, init) in f.globals.items():
                self.globals[name] = (f, ty, dims, init)
        self._gcache = {}
        self.enums = {}

    # -- globals (tables) evaluated on demand
    def global_value(self, name):
        if name in self._gcache:
            return self._gcache[name]
        f, ty, dims, init = self.globals[name]
        v = self.init_value(init, [self.eval(d, {}) if d is not None else None for d in dims], ty)
        self._gcache[name] = v
        return v

    def init_value(self, init, dims, ty):
        if init[0] == "init":
            items = init[1]
            if any(isinstance(x, tuple) and x[0] == "field" for x in items):
                return {x[1]: self.init_value(x[2], [], "") for x in items}
            vals = [self.init_value(x, dims[1:], ty) for x in items]
            if dims and dims[0] is not None:
                if len(vals) > dims[0]:
                    raise ExtractError("too many initialisers")
                pad = 0 if len(dims) == 1 else None
                while len(vals) < dims[0]:
                    vals.append(Fraction(0) if len(dims) == 1 else [Fraction(0)] * dims[1])
                if len(dims) > 1:
                    vals = [v + [Fraction(0)] * (dims[1] - len(v)) for v in vals]
            return vals
        v = self.eval(init, {})
        if isnum(v) and "double" in ty:
            v = Fraction(v)
        return v

    # -- expressions
    def lookup(self, name, env):
        if name in env:
            return env[name]
        if name in self.globals:
            return self.global_value(name)
        if name in self.enums:
            return self.enums[name]
        if name in self.mem:
            return self.mem[name]
        if name == "NULL":
            return 0
        for f in self.files:
            if name in f.funcs:
                return ("func", name)
        # a function of another file (e.g. passed as a function pointer)
        return ("func", name)

    def path_of(self, e, env):
        """canonical object path of an lvalue expression, or None"""
        k = e[0]
        if k == "id":
            v = env.get(e[1], None)
            if isinstance(v, Path):
                return v.p
            if e[1] in env or e[1] in self.globals:
                return None
            return e[1]
        if k == "member":
            b = self.path_of(e[1], env)
            return None if b is None else b + "." + e[2]
        if k == "index":
            b = self.path_of(e[1], env)
            if b is None:
                return None
            ix = self.eval(e[2], env)
            return "%s[%s]" % (b, ix)
        if k == "un" and e[1] in ("&", "*"):
            return self.path_of(e[2], env)
        if k == "bin" and e[1] == "+":      # pointer arithmetic particles+index
            b = self.path_of(e[2], env)
            return None if b is None else b + "+"
        return None

    def eval(self, e, env):
        k = e[0]
        if k == "num":
            return number(e[1])
        if k == "str":
            return e[1]
        if k == "id":
            return self.lookup(e[1], env)
        if k == "un":
            if e[1] == "&":
                p = self.path_of(e[2], env)
                if p is not None:
                    return Path(p)
                return Opaque("&")
            v = self.eval(e[2], env)
            if e[1] == "*":
                if isinstance(v, Path):
                    return self.mem.get(v.p, Opaque(v.p))
                return v
            if isinstance(v, Opaque) or isinstance(v, Path):
                raise ExtractError("arithmetic on untracked value %r" % v)
            if e[1] == "-":
                return -v
            if e[1] == "+":
                return v
            if e[1] == "!":
                return 0 if v else 1
            raise ExtractError("unary %s" % e[1])
        if k == "cast":
            v = self.eval(e[2], env)
            if "double" in e[1] and isinstance(v, int):
                return Fraction(v)
            return v
        if k == "tern":
            return self.eval(e[2], env) if self.truth(self.eval(e[1], env)) else self.eval(e[3], env)
        if k == "bin":
            op = e[1]
            if op == "&&":
                return 1 if (self.truth(self.eval(e[2], env)) and self.truth(self.eval(e[3], env))) else 0
            if op == "||":
                return 1 if (self.truth(self.eval(e[2], env)) or self.truth(self.eval(e[3], env))) else 0
            a, b = self.eval(e[2], env), self.eval(e[3], env)
            if isinstance(a, Path) and op in ("==", "!=") and b == 0:
                return 1 if op == "!=" else 0        # object pointers are non-NULL here
            if isinstance(a, Lin) or isinstance(b, Lin):
                for v in (a, b):
                    if not (isnum(v) or isinstance(v, Lin)):
                        raise ExtractError("operator %s on symbolic and untracked value %r" % (op, v))
                if op == "+": return a + b
                if op == "-": return a - b
                if op == "*": return a * b
                if op == "/" and not isinstance(b, Lin): return a * (Fraction(1) / b)
                raise ExtractError("operator %s on symbolic value" % op)
            for v in (a, b):
                if not isnum(v):
                    raise ExtractError("operator %s on untracked value %r" % (op, v))
            if op == "+": return a + b
            if op == "-": return a - b
            if op == "*": return a * b
            if op == "/":
                if isinstance(a, int) and isinstance(b, int):
                    q = abs(a) // abs(b)
                    return q if (a >= 0) == (b >= 0) else -q
                return Fraction(a) / Fraction(b)
            if op == "%":
                if isinstance(a, int) and isinstance(b, int):
                    return a - b * (abs(a) // abs(b) * (1 if (a >= 0) == (b >= 0) else -1))
                raise ExtractError("% on non-integers")
            if op == "==": return int(a == b)
            if op == "!=": return int(a != b)
            if op == "<": return int(a < b)
            if op == ">": return int(a > b)
            if op == "<=": return int(a <= b)
            if op == ">=": return int(a >= b)
            if op in ("&", "|", "^", "<<", ">>") and isinstance(a, int) and isinstance(b, int):
                return {"&": a & b, "|": a | b, "^": a ^ b, "<<": a << b, ">>": a >> b}[op]
            raise ExtractError("binary %s" % op)
        if k == "member" or k == "index":
            # value member / element of a tracked value?
            if k == "index":
                base = self.try_value(e[1], env)
                if isinstance(base, list):
                    ix = self.eval(e[2], env)
                    if not isinstance(ix, int) or not (0 <= ix < len(base)):
                        raise ExtractError("index %r out of range (%d)" % (ix, len(base)))
                    return base[ix]
            else:
                base = self.try_value(e[1], env)
                if isinstance(base, dict):
                    if e[2] not in base:
                        raise ExtractError("no member %s" % e[2])
                    return base[e[2]]
            p = self.path_of(e, env)
            if p is None:
                raise ExtractError("cannot resolve %r" % (e,))
            if p in self.mem:
                return self.mem[p]
            if SYMFIELD.search(p):
                return Lin({p: 1})
            return Path(p)
        if k == "call":
            return self.call(e, env)
        if k == "assign":
            return self.assign(e, env)
        if k in ("postinc", "preinc"):
            tgt = e[2]
            old = self.eval(tgt, env)
            new = old + (1 if e[1] == "++" else -1)
            self.store(tgt, new, env)
            return old if k == "postinc" else new
        raise ExtractError("cannot evaluate %r" % (e,))

    def try_value(self, e, env):
        try:
            if e[0] == "id":
                v = self.lookup(e[1], env)
                return v
            if e[0] in ("member", "index"):
                return self.eval(e, env)
        except ExtractError:
            return None
        return None

    def truth(self, v):
        if isinstance(v, Path):
            return True
        if isinstance(v, Opaque) or isinstance(v, tuple):
            raise ExtractError("condition on untracked value %r" % (v,))
        return v != 0

    def store(self, tgt, v, env):
        if tgt[0] == "id" and tgt[1] in env:
            env[tgt[1]] = v
            return
        p = self.path_of(tgt, env)
        if p is None:
            raise ExtractError("cannot assign to %r" % (tgt,))
        if SYMFIELD.search(p):
            # particle coordinate update: recorded as an operation, expressed in the *current* values
            self.ops.append(("store", [p, Lin.lift(v)]))
            return
        self.mem[p] = v

    def assign(self, e, env):
        _, op, lhs, rhs = e
        v = self.eval(rhs, env)
        if op != "=":
            old = self.eval(lhs, env)
            if isinstance(old, Path):
                raise ExtractError("update of untracked object %r" % old)
            if op == "+=": v = old + v
            elif op == "-=": v = old - v
            elif op == "*=": v = old * v
            elif op == "/=": v = old * (Fraction(1) / v)
        self.store(lhs, v, env)
        return v

    def call(self, e, env):
        fn = e[1]
        if fn[0] != "id":
            raise ExtractError("indirect call")
        name = fn[1]
        tgt = env.get(name)
        if isinstance(tgt, tuple) and tgt[0] == "func":
            name = tgt[1]                      # call through a function-pointer parameter
        args = []
        for a in e[2]:
            try:
                args.append(self.eval(a, env))
            except ExtractError as ex:
                args.append(Opaque(str(ex)[:40]))
        if name in ("fabs", "abs") and len(args) == 1 and isnum(args[0]):
            return abs(args[0])
        if name in self.inline:
            for f in self.files:
                if name in f.funcs:
                    pn, body = f.func_body(name)
                    if len(pn) != len(args):
                        raise ExtractError("arity of %s" % name)
                    new = dict(zip(pn, args))
                    try:
                        self.exec(body, new)
                    except Return as r:
                        return r.v
                    return None
            raise ExtractError("function %s to inline not found" % name)
        w = getattr(self, "watch", {}).get(name)
        if w is not None:
            args = args + [self.mem.get(w)]          # value of a watched location at the time of the call
        self.ops.append((name, args))
        if len(self.ops) > self.max_ops:
            raise ExtractError("too many operations")
        return self.returns.get(name, Opaque(name + "()"))

    # -- statements
    def exec(self, s, env):
        k = s[0]
        if k == "block":
            for x in s[1]:
                self.exec(x, env)
        elif k == "expr":
            self.eval(s[1], env)
        elif k == "decl":
            for name, dims, init, ptr in s[2]:
                if init is None:
                    env[name] = Opaque("uninit " + name) if not dims else [Fraction(0)] * self.eval(dims[0], env)
                elif init[0] == "init":
                    env[name] = self.init_value(init, [self.eval(d, env) if d is not None else None for d in dims], s[1])
                else:
                    try:
                        v = self.eval(init, env)
                        if isnum(v) and "double" in s[1] and not ptr:
                            v = Fraction(v)
                    except ExtractError as ex:
                        v = Opaque("%s: %s" % (name, str(ex)[:60]))
                    env[name] = v
        elif k == "if":
            if self.truth(self.eval(s[1], env)):
                self.exec(s[2], env)
            elif s[3] is not None:
                self.exec(s[3], env)
        elif k == "for":
            if s[1] is not None:
                self.exec(s[1], env)
            n = 0
            while s[2] is None or self.truth(self.eval(s[2], env)):
                try:
                    self.exec(s[4], env)
                except Break:
                    break
                except Continue:
                    pass
                if s[3] is not None:
                    self.eval(s[3], env)
                n += 1
                if n > 100000:
                    raise ExtractError("loop does not terminate")
        elif k == "while":
            n = 0
            while self.truth(self.eval(s[1], env)):
                try:
                    self.exec(s[2], env)
                except Break:
                    break
                except Continue:
                    pass
                n += 1
                if n > 100000:
                    raise ExtractError("loop does not terminate")
        elif k == "switch":
            v = self.eval(s[1], env)
            items = s[2]
            start = None
            for i, it in enumerate(items):
                if it[0] == "case" and self.eval(it[1], env) == v:
                    start = i
                    break
            if start is None:
                for i, it in enumerate(items):
                    if it[0] == "default":
                        start = i
                        break
            if start is not None:
                try:
                    for it in items[start:]:
                        if it[0] in ("case", "default"):
                            continue
                        self.exec(it, env)
                except Break:
                    pass
        elif k == "break":
            raise Break()
        elif k == "continue":
            raise Continue()
        elif k == "return":
            raise Return(None if s[1] is None else self.eval(s[1], env))
        else:
            raise ExtractError("statement %r" % (k,))

    def run(self, fname, args):
        for f in self.files:
            if fname in f.funcs:
                pn, body = f.func_body(fname)
                env = dict(zip(pn, args))
                try:
                    self.exec(body, env)
                except Return:
                    pass
                return
        raise ExtractError("function %s not found" % fname)


def parse_enums(header):
    """all enumerators of rebound.h with their values"""
    src = strip_comments(open(header).read())
    out = {}
    for m in re.finditer(r"enum\s*(\w*)\s*\{([^}]*)\}", src):
        val = -1
        for item in m.group(2).split(","):
            item = item.strip()
            if not item:
                continue
            mm = re.match(r"(\w+)\s*(?:=\s*(.+))?$", item, flags=re.S)
            if not mm:
                continue
            if mm.group(2) is not None:
                try:
                    val = int(mm.group(2).strip(), 0)
                except ValueError:
                    continue
            else:
                val += 1
            out[mm.group(1)] = val
    return out


# ------------------------------------------------------------------------------- schedules
DTS = (Fraction(1), Fraction(2), Fraction(3))


class Coef:
    """a coefficient c·dt^k measured by running the source's control flow at dt = 1, 2, 3"""

    def __init__(self, vals):
        v1, v2, v3 = vals
        self.val = v1
        if v1 == 0:
            if v2 != 0 or v3 != 0:
                raise ExtractError("coefficient is not a monomial in dt: %s" % (vals,))
            self.pow = 0
            return
        k = None
        for p in range(0, 8):
            if v2 == v1 * 2 ** p and v3 == v1 * 3 ** p:
                k = p
        if k is None:
            raise ExtractError("coefficient is not a monomial in dt: %s" % (vals,))
        self.pow = k

    def __repr__(self):
        return "%s*dt^%d" % (self.val, self.pow)


def run_config(files, enums, entry, mem, inline, returns=None):
    """run the functions in `entry` (list of (fname | 'FORCE')) at dt = 1, 2, 3; returns the op list with Coef arguments"""
    runs = []
    for dt in DTS:
        m = dict(mem)
        m["r.dt"] = dt
        it = Interp(files, m, inline, returns)
        it.enums = enums
        for e in entry:
            if e == "FORCE":
                it.ops.append(("reb_simulation_update_acceleration", [Path("r")]))   # the driver's force evaluation between part1 and part2
            elif isinstance(e, tuple):
                it.run(e[0], e[1](dt))
            else:
                it.run(e, [Path("r")])
        runs.append(it.ops)
    n = len(runs[0])
    if any(len(r) != n for r in runs):
        raise ExtractError("operation sequence depends on dt")
    out = []
    for i in range(n):
        names = {r[i][0] for r in runs}
        if len(names) != 1:
            raise ExtractError("operation sequence depends on dt")
        name = runs[0][i][0]
        if name == "reb_simulation_error":
            raise ExtractError("source rejects configuration: %s" % (runs[0][i][1][1:],))
        args = []
        for j in range(len(runs[0][i][1])):
            vs = [r[i][1][j] for r in runs]
            if all(isnum(v) for v in vs):
                args.append(Coef([Fraction(v) for v in vs]))
            elif all(isinstance(v, Lin) for v in vs):
                keys = sorted(set().union(*[set(v.d) for v in vs]))
                dd = {k: Coef([v.coeff(k) for v in vs]) for k in keys}
                if any(v.c != 0 for v in vs):
                    dd["const"] = Coef([v.c for v in vs])
                args.append(dd)
            else:
                args.append(str(vs[0]))
        out.append((name, args))
    return out


# primitive operators -> abstract kinds.  The *meaning* of each primitive (kepler step = exact flow of the Kepler part,
# interaction step = kick by the interaction part for the given coefficient, ...) is the subject of C02/C03/C12.
K_DRIFT, K_KICK, K_FORCE, K_JUMP, K_LAZY = 0, 1, 2, 3, 4
IGNORED = {"reb_integrator_whfast_init", "reb_integrator_whfast_from_inertial", "reb_integrator_whfast_to_inertial",
           "reb_particles_transform_jacobi_to_inertial_pos", "reb_particles_transform_jacobi_to_inertial_posvel",
           "reb_particles_transform_inertial_to_jacobi_acc",
           "reb_particles_transform_barycentric_to_inertial_pos", "reb_particles_transform_barycentric_to_inertial_posvel",
           "reb_particles_transform_democraticheliocentric_to_inertial_posvel", "reb_particles_transform_whds_to_inertial_posvel",
           "malloc", "memcpy", "free", "realloc", "to_double", "to_int", "reb_simulation_warning"}


def _uniform(vals, what):
    vs = list(vals)
    if any(v != vs[0] for v in vs):
        raise ExtractError("%s differs between particles/components: %s" % (what, vs[:4]))
    return vs[0]


JANUS_SCALE_POS, JANUS_SCALE_VEL = Fraction(1, 10 ** 16), Fraction(3, 10 ** 16)


def abstract(ops, family):
    """[(name, args)] -> [(kind, a, b)] with exact Fractions.
    kind 0 drift(a·dt; b = 1 when the centre-of-mass step accompanies the Kepler step),
         1 kick(a·dt, jerk coefficient b·dt^3), 2 force evaluation, 3 jump step(a·dt).
    Checks that every coefficient is proportional to the power of dt its kind requires.  Particle-array stores
    between primitives are folded into the kick they modify (modified-kick kernels) or into a finite-difference
    jerk kick (lazy kernels); any other store pattern is an extraction error."""
    out = []
    acc = [Fraction(1), Fraction(0), 0]        # particles[].a = acc[0]·(acceleration) + acc[1]·dt^acc[2]·(jerk)
    stores = []

    def flush_stores():
        """interpret the pending particle-array stores"""
        nonlocal stores
        if not stores:
            return
        st, stores = stores, []
        tgt_a = [x for x in st if re.search(r"\.a[xyz]$", x[0])]
        tgt_x = [x for x in st if re.search(r"\.[xyz]$", x[0])]
        tgt_v = [x for x in st if re.search(r"\.v[xyz]$", x[0])]
        if tgt_a and not tgt_x and not tgt_v:
            # a_i := alpha·a_i + beta·jerk_i      (jerk lives in the p_jh buffer)
            alphas, betas = [], []
            for path, lin in tgt_a:
                comp = path[path.rindex("."):]
                a_self = lin.get(path)
                others = [(k, v) for k, v in lin.items() if k != path]
                if len(others) != 1 or not others[0][0].endswith(comp) or lin.get("const"):
                    raise ExtractError("unrecognised acceleration update %s := %s" % (path, lin))
                alphas.append((a_self.val, a_self.pow) if a_self is not None else (Fraction(0), 0))
                betas.append((others[0][1].val, others[0][1].pow))
            al, be = _uniform(alphas, "acceleration scaling"), _uniform(betas, "jerk coefficient")
            if al[0] != 0 and al[1] != 0:
                raise ExtractError("acceleration scaling depends on dt")
            acc[0], acc[1], acc[2] = al[0], be[0], be[1]
            return
        if tgt_x and not tgt_a:
            # lazy implementer's commutator: x += c1·a_old ; (force) ; v += c2·(a_new - a_old) ; x := x_old
            raise ExtractError("position store outside the lazy-kernel pattern")
        raise ExtractError("unrecognised particle stores: %s" % (st[:3],))

    lazy = None      # state machine for the lazy pattern
    i = 0
    ops = list(ops)
    while i < len(ops):
        name, args = ops[i]
        i += 1
        if name in IGNORED:
            continue

        def co(j, power):
            c = args[j]
            if not isinstance(c, Coef):
                raise ExtractError("%s: argument %d is not a tracked number: %r" % (name, j, c))
            if c.val != 0 and c.pow != power:
                raise ExtractError("%s: coefficient %r is not proportional to dt^%d" % (name, c, power))
            return c.val
        if name == "store":
            path, lin = args
            if re.search(r"\.[xyz]$", path) or re.search(r"\.v[xyz]$", path):
                # collect the whole lazy block: stores x+=c1 a_old | force | stores v += c2 (a - a_old), x := x_old
                blk1 = [(path, lin)]
                while i < len(ops) and ops[i][0] == "store":
                    blk1.append(tuple(ops[i][1])); i += 1
                if all(re.search(r"\.[xyz]$", p_) for p_, _ in blk1):
                    c1s = []
                    for p_, l_ in blk1:
                        oth = [(k, v) for k, v in l_.items() if k != p_]
                        if l_.get(p_) is None or l_[p_].val != 1 or len(oth) != 1 or not re.search(r"\.a[xyz]$", oth[0][0]):
                            raise ExtractError("unrecognised position update %s := %s" % (p_, l_))
                        c1s.append((oth[0][1].val, oth[0][1].pow))
                    c1 = _uniform(c1s, "lazy position offset")
                    # expect: (ignored transforms) force (ignored), then either the velocity block (SABA's lazy
                    # corrector) or a full interaction step at the displaced positions followed by the restore
                    # block (WHFast's lazy kernel)
                    saw_force = False
                    full = None
                    while i < len(ops) and ops[i][0] != "store":
                        if ops[i][0] == "reb_simulation_update_acceleration":
                            saw_force = True
                        elif ops[i][0] == "reb_whfast_interaction_step" and saw_force and full is None:
                            cc_ = ops[i][1][1]
                            if not isinstance(cc_, Coef) or cc_.pow != 1:
                                raise ExtractError("lazy kernel kick coefficient")
                            full = cc_.val
                        elif ops[i][0] not in IGNORED:
                            raise ExtractError("unexpected %s inside lazy kernel" % ops[i][0])
                        i += 1
                    blk2 = []
                    while i < len(ops) and ops[i][0] == "store":
                        blk2.append(tuple(ops[i][1])); i += 1
                    if full is not None:
                        if not saw_force or len(blk2) != len(blk1) or c1[1] != 2:
                            raise ExtractError("lazy kernel pattern not recognised")
                        for p_, l_ in blk2:
                            if not re.search(r"\.[xyz]$", p_) or len(l_) != 1 or list(l_.values())[0].val != 1 or "temp" not in list(l_)[0]:
                                raise ExtractError("lazy kernel does not restore the positions: %s := %s" % (p_, l_))
                        out.append((K_FORCE, Fraction(0), Fraction(0)))
                        out.append((K_LAZY, full, c1[0] * full))
                        continue
                    vs =[(p_, l_) for p_, l_ in blk2 if re.search(r"\.v[xyz]$", p_)]
                    xs = [(p_, l_) for p_, l_ in blk2 if re.search(r"\.[xyz]$", p_)]
                    if not saw_force or len(vs) != len(blk1) or len(xs) != len(blk1) or len(vs) + len(xs) != len(blk2):
                        raise ExtractError("lazy kernel pattern not recognised")
                    c2s = []
                    for p_, l_ in vs:
                        oth = sorted((k, v) for k, v in l_.items() if k != p_)
                        if l_.get(p_) is None or l_[p_].val != 1 or len(oth) != 2 or oth[0][1].val != -oth[1][1].val or oth[0][1].pow != oth[1][1].pow:
                            raise ExtractError("unrecognised lazy velocity update %s := %s" % (p_, l_))
                        new = [v for k, v in oth if "temp" not in k]
                        if len(new) != 1:
                            raise ExtractError("unrecognised lazy velocity update %s := %s" % (p_, l_))
                        c2s.append((new[0].val, new[0].pow))
                    for p_, l_ in xs:
                        if len(l_) != 1 or list(l_.values())[0].val != 1 or "temp" not in list(l_)[0]:
                            raise ExtractError("lazy kernel does not restore the positions: %s := %s" % (p_, l_))
                    c2 = _uniform(c2s, "lazy velocity factor")
                    if c1[1] + c2[1] != 3:
                        raise ExtractError("lazy kernel coefficient is not proportional to dt^3")
                    out.append((K_FORCE, Fraction(0), Fraction(0)))
                    out.append((K_LAZY, Fraction(0), c1[0] * c2[0]))
                    continue
                raise ExtractError("unrecognised particle stores: %s" % (blk1[:2],))
            stores.append((path, lin))
            continue
        flush_stores()
        if name == "reb_whfast_kepler_step":
            out.append((K_DRIFT, co(1, 1), Fraction(0)))      # b = 1 once the matching centre-of-mass step is seen
        elif name == "reb_whfast_com_step":
            c = co(1, 1)
            if not out or out[-1] != (K_DRIFT, c, Fraction(0)):
                raise ExtractError("com step %s does not pair with the preceding kepler step" % c)
            out[-1] = (K_DRIFT, c, Fraction(1))
        elif name == "reb_whfast_interaction_step":
            x = co(1, 1)
            if acc[1] != 0 and acc[2] != 2:
                raise ExtractError("jerk coefficient is not proportional to dt^3")
            out.append((K_KICK, acc[0] * x, acc[1] * x))
        elif name == "reb_whfast_calculate_jerk":
            pass
        elif name == "reb_whfast_jump_step":
            out.append((K_JUMP, co(1, 1), Fraction(0)))
        elif name == "reb_simulation_update_acceleration":
            acc[0], acc[1], acc[2] = Fraction(1), Fraction(0), 0
            out.append((K_FORCE, Fraction(0), Fraction(0)))
        elif name in ("reb_integrator_eos_drift_shell0", "reb_integrator_eos_drift_shell1"):
            out.append((K_DRIFT, co(1, 1), Fraction(1)))
        elif name in ("reb_integrator_eos_interaction_shell0", "reb_integrator_eos_interaction_shell1"):
            out.append((K_FORCE, Fraction(0), Fraction(0)))   # both interaction routines evaluate the force themselves
            out.append((K_KICK, co(1, 1), co(2, 3)))
        elif name == "drift" and family == "janus":
            # drift(r, dt, scale_pos, scale_vel): the grid scales must arrive in this order (they are configured distinct)
            if [getattr(a_, "val", None) for a_ in args[2:4]] != [JANUS_SCALE_POS, JANUS_SCALE_VEL]:
                raise ExtractError("janus drift is called with scales %s, expected (scale_pos, scale_vel)" % (args[2:4],))
            out.append((K_DRIFT, co(1, 1), Fraction(1)))
        elif name == "kick" and family == "janus":
            if [getattr(a_, "val", None) for a_ in args[2:3]] != [JANUS_SCALE_VEL]:
                raise ExtractError("janus kick is called with scale %s, expected scale_vel" % (args[2:3],))
            out.append((K_KICK, co(1, 1), Fraction(0)))
        else:
            raise ExtractError("unknown primitive %s in %s schedule" % (name, family))
    flush_stores()
    return out


MERC_IGNORED = {"reb_integrator_mercurius_inertial_to_dh", "reb_integrator_mercurius_dh_to_inertial", "reb_mercurius_encounter_predict",
                "reb_mercurius_encounter_step", "reb_integrator_mercurius_calculate_dcrit_for_particle", "memcpy", "realloc", "malloc", "free"}


def abstract_mercurius(ops):
    """MERCURIUS away from close encounters (encounter prediction / encounter step are not interpreted): kick - jump - (centre of
    mass, Kepler) - jump per step; the centre-of-mass step must carry the coefficient of the Kepler step that follows it"""
    out = []
    pend_com = None
    for name, args in ops:
        if name in MERC_IGNORED:
            continue

        def co(j):
            c = args[j]
            if not isinstance(c, Coef) or (c.val != 0 and c.pow != 1):
                raise ExtractError("%s: coefficient %r is not a tracked multiple of dt" % (name, c))
            return c.val
        if name == "reb_simulation_warning":
            raise ExtractError("MERCURIUS schedule raises a warning: %s" % (args[1:],))
        if name == "reb_integrator_mercurius_com_step":
            if pend_com is not None:
                raise ExtractError("two centre-of-mass steps without a Kepler step")
            pend_com = co(1)
        elif name == "reb_integrator_mercurius_kepler_step":
            c = co(1)
            if pend_com is None:
                out.append((K_DRIFT, c, Fraction(0)))
            elif pend_com == c:
                out.append((K_DRIFT, c, Fraction(1)))
            else:
                raise ExtractError("centre-of-mass step %s does not pair with the Kepler step %s" % (pend_com, c))
            pend_com = None
        elif name == "reb_integrator_mercurius_interaction_step":
            out.append((K_KICK, co(1), Fraction(0)))
        elif name == "reb_integrator_mercurius_jump_step":
            out.append((K_JUMP, co(1), Fraction(0)))
        elif name == "reb_simulation_update_acceleration":
            out.append((K_FORCE, Fraction(0), Fraction(0)))
        else:
            raise ExtractError("unknown primitive %s in mercurius schedule" % name)
    if pend_com is not None:
        raise ExtractError("centre-of-mass step without a Kepler step")
    return out


TRACE_IGNORED = {"reb_integrator_trace_inertial_to_dh", "reb_integrator_trace_dh_to_inertial", "reb_integrator_trace_pre_ts_check",
                 "realloc", "malloc", "free"}


def abstract_trace(ops, jump_noop):
    """TRACE away from close encounters: kick - jump - Kepler(+centre of mass) - jump - kick; the interaction step evaluates the
    force itself.  A rejected step shows up as `memcpy` (restore) between two attempts: marked by kind 5."""
    out = []
    for name, args in ops:
        if name in TRACE_IGNORED:
            continue

        def co(j):
            c = args[j]
            if not isinstance(c, Coef) or (c.val != 0 and c.pow != 1):
                raise ExtractError("%s: coefficient %r is not a tracked multiple of dt" % (name, c))
            return c.val
        if name in ("reb_simulation_warning", "reb_simulation_error"):
            raise ExtractError("TRACE schedule raises: %s" % (args[1:],))
        if name == "reb_integrator_trace_interaction_step":
            out.append((K_FORCE, Fraction(0), Fraction(0)))
            out.append((K_KICK, co(1), Fraction(0)))
        elif name == "reb_integrator_trace_jump_step":
            if not jump_noop:
                out.append((K_JUMP, co(1), Fraction(0)))
        elif name == "reb_integrator_trace_kepler_step":
            out.append((K_DRIFT, co(1), Fraction(0)))
        elif name == "reb_integrator_trace_com_step":
            c = co(1)
            if not out or out[-1] != (K_DRIFT, c, Fraction(0)):
                raise ExtractError("centre-of-mass step %s does not pair with the preceding Kepler step" % c)
            out[-1] = (K_DRIFT, c, Fraction(1))
        elif name == "reb_integrator_trace_post_ts_check":
            pass
        elif name == "memcpy":
            if str(args[0]).startswith("@r.particles"):       # restore of the backup after a rejected attempt
                out.append((5, Fraction(0), Fraction(0)))
        else:
            raise ExtractError("unknown primitive %s in trace schedule" % name)
    return out


def abstract_leapfrog(ops):
    """leapfrog updates the particle arrays directly: read drift/kick coefficients off the stores"""
    out = []
    groups = {}
    seq = []
    for name, args in ops:
        if name == "reb_simulation_update_acceleration":
            seq.append(("force",))
        elif name == "store":
            path, lin = args
            seq.append(("store", path, lin))
        else:
            raise ExtractError("unexpected %s in leapfrog" % name)
    i = 0
    while i < len(seq):
        if seq[i][0] == "force":
            out.append((K_FORCE, Fraction(0), Fraction(0))); i += 1
            continue
        # consecutive stores of the same kind (positions or velocities) form one operator; leapfrog's part2 interleaves
        # v and x updates per particle, which is the same map because x_i only reads v_i
        blk = []
        while i < len(seq) and seq[i][0] == "store":
            blk.append(seq[i][1:]); i += 1
        vs = [(p_, l_) for p_, l_ in blk if re.search(r"\.v[xyz]$", p_)]
        xs = [(p_, l_) for p_, l_ in blk if re.search(r"\.[xyz]$", p_)]
        if len(vs) + len(xs) != len(blk):
            raise ExtractError("leapfrog stores to something else than x, v")
        def one(items, src_re, what):
            cs = []
            for p_, l_ in items:
                oth = [(k, v) for k, v in l_.items() if k != p_]
                if l_.get(p_) is None or l_[p_].val != 1 or len(oth) != 1 or not re.search(src_re, oth[0][0]) \
                        or oth[0][0].split(".")[-1][-1] != p_[-1] or oth[0][0].rsplit(".", 1)[0] != p_.rsplit(".", 1)[0]:
                    raise ExtractError("unrecognised leapfrog update %s := %s" % (p_, l_))
                if oth[0][1].pow != 1:
                    raise ExtractError("leapfrog coefficient not proportional to dt")
                cs.append(oth[0][1].val)
            return _uniform(cs, what)
        if vs:
            # a velocity update must precede the position update that uses it (kick then drift)
            first_v = min(j for j, (p_, _) in enumerate(blk) if re.search(r"\.v[xyz]$", p_))
            first_x = min([j for j, (p_, _) in enumerate(blk) if re.search(r"\.[xyz]$", p_)] + [len(blk)])
            if xs and first_x < first_v:
                raise ExtractError("leapfrog position update precedes the velocity update in one loop")
            out.append((K_KICK, one(vs, r"\.a[xyz]$", "kick"), Fraction(0)))
        if xs:
            out.append((K_DRIFT, one(xs, r"\.v[xyz]$", "drift"), Fraction(1)))
    return out


# ------------------------------------------------------------------------------- whole extraction
def call_function(files, enums, fname, args, mem=None, inline=()):
    it = Interp(files, mem or {}, inline)
    it.enums = enums
    for f in files:
        if fname in f.funcs:
            pn, body = f.func_body(fname)
            try:
                it.exec(body, dict(zip(pn, args)))
            except Return as r:
                return r.v
            return None
    raise ExtractError("function %s not found" % fname)


def count_literals(init):
    if init[0] == "init":
        return sum(count_literals(x[2] if (isinstance(x, tuple) and x[0] == "field") else x) for x in init[1])
    return 1


def literal_texts(init, out):
    """the literal texts of an initialiser in order (a leaf that is not a plain signed literal is recorded as None)"""
    if init[0] == "init":
        for x in init[1]:
            literal_texts(x[2] if (isinstance(x, tuple) and x[0] == "field") else x, out)
        return out
    if init[0] == "num":
        out.append(init[1])
    elif init[0] == "un" and init[1] in "+-" and init[2][0] == "num":
        out.append(("-" if init[1] == "-" else "") + init[2][1])
    else:
        out.append(None)
    return out


SABA_INLINE = {"reb_integrator_saba_synchronize", "reb_saba_stages", "reb_saba_corrector_step", "reb_integrator_whfast_init"}
WH_INLINE = {"reb_integrator_whfast_init", "reb_integrator_whfast_synchronize", "reb_whfast_apply_corrector", "reb_whfast_apply_corrector2",
             "reb_whfast_corrector_Z", "reb_whfast_operator_C", "reb_whfast_operator_Y", "reb_whfast_operator_U",
             "reb_whfast_operator_Uinv"}      # (the last one exists only once fixes/C01-corrector2-inverse.diff is applied)
EOS_INLINE = {"reb_integrator_eos_preprocessor", "reb_integrator_eos_postprocessor", "reb_integrator_eos_synchronize"}
JANUS_INLINE = {"gg", "reb_integrator_janus_synchronize"}


def extract_all(repo):
    """returns a dict with every table and every schedule; raises ExtractError (message prefixed with the integrator family
    in brackets) when the source no longer has the shape the translator understands"""
    fam = ["tables"]
    try:
        return _extract_all(repo, fam)
    except ExtractError as ex:
        raise ExtractError("[%s] %s" % (fam[0], ex))


def _extract_all(repo, fam):
    S = os.path.join(repo, "src")
    enums = parse_enums(os.path.join(S, "rebound.h"))
    saba = CFile(os.path.join(S, "integrator_saba.c"))
    wh = CFile(os.path.join(S, "integrator_whfast.c"))
    eos = CFile(os.path.join(S, "integrator_eos.c"))
    jan = CFile(os.path.join(S, "integrator_janus.c"))
    ias = CFile(os.path.join(S, "integrator_ias15.c"))
    lf = CFile(os.path.join(S, "integrator_leapfrog.c"))
    D = {"tables": {}, "enums": {}}

    # ---- tables
    def table(f, name, key=None):
        if name not in f.globals:
            raise ExtractError("table %s not found in %s" % (name, os.path.basename(f.path)))
        ty, dims, init = f.globals[name]
        it = Interp([f])
        it.enums = enums
        v = it.global_value(name)
        D["tables"][key or name] = {"file": os.path.basename(f.path), "name": name, "type": ty, "value": v,
                                    "explicit": count_literals(init), "literals": literal_texts(init, []),
                                    "text": f.definition_text(name)}
        return v
    fam[0] = "saba"
    for n in ("reb_saba_c", "reb_saba_d", "reb_saba_cc"):
        table(saba, n)
    fam[0] = "eos"
    eos_tabs = sorted(n for n in eos.globals if re.match(r"(lf|pmlf|plf)\w*_[a-z]$|lf4_a$|lf4_2_a$", n))
    for n in eos_tabs:
        table(eos, n, "eos_" + n)
    D["eos_table_names"] = eos_tabs
    fam[0] = "janus"
    jschemes = sorted(n for n, (ty, _, _) in jan.globals.items() if "reb_janus_scheme" in ty)
    for n in jschemes:
        table(jan, n, "janus_" + n)
    D["janus_scheme_names"] = jschemes
    D["janus_struct_text"] = jan.struct_text("reb_janus_scheme")
    fam[0] = "whfast"
    wh_a = sorted((n for n in wh.globals if re.match(r"reb_whfast_corrector_a_\d+$", n)), key=lambda s: int(s.rsplit("_", 1)[1]))
    wh_b = sorted((n for n in wh.globals if re.match(r"reb_whfast_corrector_b_\d+$", n)), key=lambda s: int(s.rsplit("_", 1)[1]))
    for n in wh_a + wh_b + ["reb_whfast_corrector2_b"]:
        table(wh, n)
    D["whfast_a_names"], D["whfast_b_names"] = wh_a, wh_b
    fam[0] = "ias15"
    for n in ("h", "rr", "c", "d", "w"):
        table(ias, n, "ias15_" + n)

    # ---- IAS15: weights of the end-of-step update (x0 += b_j/W dt^2 ..., v0 += b_j/W dt ...)
    fam[0] = "ias15"
    D["ias15_update"] = {}
    for tgt, cs, npow in (("x0", "csx", 2), ("v0", "csv", 1)):
        ws = {}
        pat = r"add_cs\(&\(%s\[k\]\),\s*&\(%s\[k\]\),\s*(b\.p(\d)|a0|v0)\[k\](?:/(\d+)\.)?((?:\*dt_done)+)\)" % (tgt, cs)
        for m in re.finditer(pat, ias.text):
            name = ("b%s" % m.group(2)) if m.group(2) is not None else m.group(1)
            pw = m.group(4).count("dt_done")
            if name in ws:
                raise ExtractError("IAS15 update: %s added twice to %s" % (name, tgt))
            ws[name] = (Fraction(1, int(m.group(3))) if m.group(3) else Fraction(1), pw)
        need = ["b%d" % j for j in range(7)] + ["a0"] + (["v0"] if tgt == "x0" else [])
        if sorted(ws) != sorted(need):
            raise ExtractError("IAS15 update of %s: terms %s, expected %s" % (tgt, sorted(ws), sorted(need)))
        for nm_, (w_, pw_) in ws.items():
            if pw_ != (npow if nm_ != "v0" else 1):
                raise ExtractError("IAS15 update of %s: term %s carries dt^%d" % (tgt, nm_, pw_))
        D["ias15_update"][tgt] = [ws["a0"][0]] + [ws["b%d" % j][0] for j in range(7)]
    # ---- SABA
    fam[0] = "saba"
    D["enums"]["saba"] = sorted(((k, v) for k, v in enums.items() if k.startswith("REB_SABA_")), key=lambda kv: kv[1])
    base = {"r.N": 2, "r.N_var": 0, "r.N_active": -1, "r.testparticle_type": 0, "r.N_var_config": 0, "r.t": Fraction(0),
            "r.ri_whfast.coordinates": 0, "r.ri_whfast.recalculate_coordinates_this_timestep": 0,
            "r.ri_whfast.p_jh": Path("pjh"), "r.ri_whfast.N_allocated": 2, "r.ri_whfast.N_allocated_tmp": 2, "r.ri_whfast.p_temp": Path("ptemp"),
            "r.ri_whfast.safe_mode": 1, "r.ri_whfast.is_synchronized": 1, "r.ri_whfast.keep_unsynchronized": 0,
            "r.ri_whfast.recalculate_coordinates_but_not_synchronized_warning": 0, "r.particles": Path("r.particles"),
            "r.ri_whfast.kernel": 0, "r.ri_whfast.corrector": 0, "r.ri_whfast.corrector2": 0,
            "r.ri_saba.safe_mode": 1, "r.ri_saba.is_synchronized": 1, "r.ri_saba.keep_unsynchronized": 0,
            "r.gravity": enums["REB_GRAVITY_BASIC"], "r.gravity_ignore_terms": 0}
    D["saba"] = []
    for name, val in D["enums"]["saba"]:
        stages = call_function([saba], enums, "reb_saba_stages", [val])
        m = dict(base); m["r.ri_saba.type"] = val
        step = ["reb_integrator_saba_part1", "FORCE", "reb_integrator_saba_part2"]
        one = abstract(run_config([saba, wh], enums, step, m, SABA_INLINE, {}), "saba")
        m2 = dict(m); m2["r.ri_saba.safe_mode"] = 0
        two = abstract(run_config([saba, wh], enums, step + step + ["reb_integrator_saba_synchronize"], m2, SABA_INLINE, {}), "saba")
        D["saba"].append({"name": name, "value": val, "stages": stages, "step": one, "two_unsync": two})

    # ---- WHFast
    fam[0] = "whfast"
    D["enums"]["whfast_kernel"] = sorted(((k, v) for k, v in enums.items() if k.startswith("REB_WHFAST_KERNEL_")), key=lambda kv: kv[1])
    D["enums"]["whfast_coordinates"] = sorted(((k, v) for k, v in enums.items() if k.startswith("REB_WHFAST_COORDINATES_")), key=lambda kv: kv[1])
    corr_orders = [0]
    # the orders accepted by reb_whfast_apply_corrector: those of the b tables
    seen = sorted({int(re.match(r"reb_whfast_corrector_b_(\d+?)(\d)$", n).group(1)) for n in wh_b})
    corr_orders += seen
    D["whfast_corrector_orders"] = corr_orders
    D["whfast"] = []
    step = ["reb_integrator_whfast_part1", "FORCE", "reb_integrator_whfast_part2"]
    # in which coordinate systems does reb_whfast_jump_step do nothing?  (its body is executed; any arithmetic on particle
    # data stops the interpreter = it does something)
    D["whfast_jump_noop"] = {}
    for cname, coord in D["enums"]["whfast_coordinates"]:
        m = dict(base); m["r.ri_whfast.coordinates"] = coord
        it = Interp([wh], m, set())
        it.enums = enums
        try:
            it.run("reb_whfast_jump_step", [Path("r"), Fraction(1)])
            D["whfast_jump_noop"][coord] = (len(it.ops) == 0)
        except ExtractError:
            D["whfast_jump_noop"][coord] = False

    def wh_abstract(ops, coord):
        a = abstract(ops, "whfast")
        return [o for o in a if not (o[0] == K_JUMP and D["whfast_jump_noop"][coord])]
    for cname, coord in D["enums"]["whfast_coordinates"]:
        for kname, kern in D["enums"]["whfast_kernel"]:
            for corr in corr_orders:
                for c2 in (0, 1):
                    m = dict(base)
                    m.update({"r.ri_whfast.coordinates": coord, "r.ri_whfast.kernel": kern, "r.ri_whfast.corrector": corr,
                              "r.ri_whfast.corrector2": c2})
                    # configurations rejected by reb_integrator_whfast_init (not interpreted here) are decided by running init
                    try:
                        rej = run_config([wh], enums, ["reb_integrator_whfast_init"], m, {"reb_integrator_whfast_init"}, {})
                        rejected = False
                    except ExtractError as ex:
                        if "source rejects" not in str(ex):
                            raise
                        rejected = True
                    ent = {"coordinates": coord, "kernel": kern, "corrector": corr, "corrector2": c2, "rejected": rejected}
                    if not rejected:
                        ent["step"] = wh_abstract(run_config([wh], enums, step, m, WH_INLINE, {}), coord)
                        m2 = dict(m); m2["r.ri_whfast.safe_mode"] = 0
                        ent["two_unsync"] = wh_abstract(run_config([wh], enums, step + step + ["reb_integrator_whfast_synchronize"], m2,
                                                                   WH_INLINE, {}), coord)
                    D["whfast"].append(ent)
    D["whfast_correctors"] = []
    for corr in corr_orders[1:]:
        for inv in (1, -1):
            ops = run_config([wh], enums, [("reb_whfast_apply_corrector", lambda dt, inv=inv, corr=corr: [Path("r"), Fraction(inv), corr])],
                             dict(base), WH_INLINE - {"reb_whfast_apply_corrector"} | {"reb_whfast_corrector_Z"}, {})
            D["whfast_correctors"].append({"order": corr, "inv": inv, "ops": abstract(ops, "whfast")})

    # ---- EOS
    fam[0] = "eos"
    D["enums"]["eos"] = sorted(((k, v) for k, v in enums.items() if k.startswith("REB_EOS_")), key=lambda kv: kv[1])
    ebase = {"r.t": Fraction(0), "r.calculate_megno": 0, "r.ri_eos.safe_mode": 1, "r.ri_eos.is_synchronized": 1, "r.ri_eos.n": 1,
             "r.ri_eos.phi0": 0, "r.ri_eos.phi1": 0, "r.N": 2, "r.gravity": enums["REB_GRAVITY_BASIC"]}
    D["eos"] = []
    for name, val in D["enums"]["eos"]:
        m = dict(ebase); m["r.ri_eos.phi0"] = val
        step = ["reb_integrator_eos_part1", "reb_integrator_eos_part2"]
        outer = abstract(run_config([eos], enums, step, m, EOS_INLINE), "eos")
        m2 = dict(m); m2["r.ri_eos.safe_mode"] = 0
        outer2 = abstract(run_config([eos], enums, step + step + ["reb_integrator_eos_synchronize"], m2, EOS_INLINE), "eos")
        inner = {}
        for n in (1, 2, 3, 4):
            mi = dict(ebase); mi["r.ri_eos.phi1"] = val; mi["r.ri_eos.n"] = n
            inner[n] = abstract(run_config([eos], enums, [("reb_integrator_eos_drift_shell0", lambda dt: [Path("r"), dt])], mi, EOS_INLINE), "eos")
        D["eos"].append({"name": name, "value": val, "outer": outer, "outer_two_unsync": outer2, "inner": inner})

    # ---- JANUS
    fam[0] = "janus"
    D["janus"] = []
    jbase = {"r.N": 2, "r.t": Fraction(0), "r.ri_janus.N_allocated": 2, "r.ri_janus.recalculate_integer_coordinates_this_timestep": 0,
             "r.ri_janus.scale_pos": JANUS_SCALE_POS, "r.ri_janus.scale_vel": JANUS_SCALE_VEL, "r.ri_janus.p_int": Path("pint"),
             "r.particles": Path("r.particles")}
    orders = []
    for n in jschemes:
        v = D["tables"]["janus_" + n]["value"]
        orders.append((v["order"], v["stages"], n))
    for order, stages, n in sorted(orders):
        m = dict(jbase); m["r.ri_janus.order"] = order
        ops = run_config([jan], enums, ["reb_integrator_janus_part1", "FORCE", "reb_integrator_janus_part2"], m, JANUS_INLINE)
        D["janus"].append({"order": order, "stages": stages, "scheme": n, "step": abstract(ops, "janus")})

    # ---- MERCURIUS (away from encounters)
    fam[0] = "mercurius"
    merc = CFile(os.path.join(S, "integrator_mercurius.c"))
    mbase = {"r.N": 2, "r.N_var_config": 0, "r.t": Fraction(0), "r.collision": enums["REB_COLLISION_NONE"], "r.gravity": enums["REB_GRAVITY_BASIC"],
             "r.ri_mercurius.N_allocated_dcrit": 2, "r.ri_mercurius.N_allocated": 2, "r.ri_mercurius.recalculate_coordinates_this_timestep": 0,
             "r.ri_mercurius.recalculate_r_crit_this_timestep": 0, "r.ri_mercurius.L": Path("L"), "r.ri_mercurius.safe_mode": 1,
             "r.ri_mercurius.is_synchronized": 1, "r.particles": Path("r.particles")}
    MI = {"reb_integrator_mercurius_synchronize"}
    # the warning in part1 (synchronising inside a step) is part of the documented behaviour of the fourth state: allow it there only
    mstep = ["reb_integrator_mercurius_part1", "FORCE", "reb_integrator_mercurius_part2"]
    D["mercurius"] = {}
    D["mercurius"]["safe"] = abstract_mercurius(run_config([merc], enums, mstep, mbase, MI))
    m0 = dict(mbase); m0["r.ri_mercurius.safe_mode"] = 0
    D["mercurius"]["unsafe_first"] = abstract_mercurius(run_config([merc], enums, mstep, m0, MI))
    m1 = dict(m0); m1["r.ri_mercurius.is_synchronized"] = 0
    D["mercurius"]["unsafe_next"] = abstract_mercurius(run_config([merc], enums, mstep, m1, MI))
    D["mercurius"]["two_unsync"] = abstract_mercurius(run_config([merc], enums, mstep + mstep + ["reb_integrator_mercurius_synchronize"], m0, MI))
    D["mercurius"]["three_unsync_resync"] = abstract_mercurius(run_config(
        [merc], enums, mstep + mstep + ["reb_integrator_mercurius_synchronize"] + mstep + ["reb_integrator_mercurius_synchronize"], m0, MI))
    D["mercurius"]["sync_only"] = abstract_mercurius(run_config([merc], enums, ["reb_integrator_mercurius_synchronize"], m1, MI))
    # safe mode entered while unsynchronised: part1 synchronises first (and warns)
    m2 = dict(mbase); m2["r.ri_mercurius.is_synchronized"] = 0
    ops = [o for o in run_config([merc], enums, mstep, m2, MI) if o[0] != "reb_simulation_warning"]
    D["mercurius"]["safe_from_unsync"] = abstract_mercurius(ops)
    # ---- TRACE (the splitting path: no pericentre flag, or PARTIAL_BS)
    fam[0] = "trace"
    trc = CFile(os.path.join(S, "integrator_trace.c"))
    tbase = {"r.N": 2, "r.N_var_config": 0, "r.t": Fraction(0), "r.collision": enums["REB_COLLISION_NONE"], "r.gravity": enums["REB_GRAVITY_BASIC"],
             "r.ri_trace.N_allocated": 2, "r.ri_trace.current_C": 0, "r.ri_trace.peri_mode": 0, "r.particles": Path("r.particles"),
             "r.ri_trace.particles_backup": Path("bk"), "r.N_active": -1, "r.testparticle_type": 0}
    TI = {"reb_integrator_trace_step"}
    D["trace"] = {"peri_modes": sorted(((k, v) for k, v in enums.items() if k.startswith("REB_TRACE_PERI_")), key=lambda kv: kv[1]), "steps": []}

    def trace_jump_noop(cc):
        m = dict(tbase); m["r.ri_trace.current_C"] = cc
        it = Interp([trc], m, set())
        it.enums = enums
        try:
            it.run("reb_integrator_trace_jump_step", [Path("r"), Fraction(1)])
            return len(it.ops) == 0
        except ExtractError:
            return False
    D["trace"]["jump_noop"] = {cc: trace_jump_noop(cc) for cc in (0, 1)}
    tstep = ["reb_integrator_trace_part1", "reb_integrator_trace_part2"]
    for pname, pm in D["trace"]["peri_modes"]:
        for cc in (0, 1):
            if cc == 1 and pname != "REB_TRACE_PERI_PARTIAL_BS":
                continue      # FULL_BS / FULL_IAS15 integrate the whole step with BS / IAS15 when the pericentre flag is set: not a splitting
            for rej in (0, 1):
                m = dict(tbase); m["r.ri_trace.peri_mode"] = pm
                # the encounter checks are not interpreted: pre_ts_check leaves current_C as configured, post_ts_check reports `rej`
                m["r.ri_trace.current_C"] = cc
                ops = run_config([trc], enums, tstep, m, TI, {"reb_integrator_trace_post_ts_check": rej})
                D["trace"]["steps"].append({"peri_mode": pm, "current_C": cc, "rejected_once": rej,
                                            "step": abstract_trace(ops, D["trace"]["jump_noop"][cc])})
    # ---- the dispatchers of integrator.c: which family routine does each REB_INTEGRATOR_* value reach?
    fam[0] = "dispatch"
    igr = CFile(os.path.join(S, "integrator.c"))
    integs = sorted(((k, v) for k, v in enums.items() if k.startswith("REB_INTEGRATOR_")), key=lambda kv: kv[1])
    D["dispatch"] = []
    for ename, ev in integs:
        row = {"enum": ename, "value": ev, "family": ename[len("REB_INTEGRATOR_"):].lower()}
        for phase, fn in (("part1", "reb_integrator_part1"), ("part2", "reb_integrator_part2"), ("synchronize", "reb_simulation_synchronize")):
            it = Interp([igr], {"r.integrator": ev, "r.ri_bs.nbody_ode": 0, "r.N_odes": 0, "r.dt": Fraction(1), "r.t": Fraction(0)}, set())
            it.enums = enums
            it.run(fn, [Path("r")])
            calls = [o[0] for o in it.ops]
            if ename == "REB_INTEGRATOR_NONE" and phase == "part2" and not calls and it.mem.get("r.t") == 1 and it.mem.get("r.dt_last_done") == 1:
                calls = ["advance_time"]
            if len(calls) > 1:
                raise ExtractError("%s(%s) calls more than one routine: %s" % (fn, ename, calls))
            row[phase] = calls[0] if calls else ""
        D["dispatch"].append(row)
    it = Interp([igr], {}, set())
    it.enums = enums
    it.run("reb_simulation_reset_integrator", [Path("r")])
    D["dispatch_reset"] = {"calls": [o[0] for o in it.ops], "integrator_after": it.mem.get("r.integrator")}
    # ---- user ODEs carried by a non-BS integrator: the sub-stepping loop at the end of reb_integrator_part2
    fam[0] = "odeloop"
    D["odeloop"] = []
    for t_, dtn, dtl, prop in ((Fraction(10), Fraction(3), Fraction(2), Fraction(0)), (Fraction(10), Fraction(3), Fraction(2), Fraction(7, 10)),
                               (Fraction(-5), Fraction(-1, 2), Fraction(-1, 4), Fraction(0)), (Fraction(-5), Fraction(-1, 2), Fraction(-1, 4), Fraction(1, 10)),
                               (Fraction(1, 3), Fraction(1, 7), Fraction(1, 5), Fraction(-1, 16))):
        it = Interp([igr], {"r.integrator": enums["REB_INTEGRATOR_LEAPFROG"], "r.ri_bs.nbody_ode": 0, "r.N_odes": 1, "r.ode_warnings": 1,
                            "r.t": t_, "r.dt": dtn, "r.dt_last_done": dtl, "r.ri_bs.dt_proposed": prop, "reb_sigint": 0}, set(),
                    {"reb_integrator_bs_step": 1}, max_ops=1000)
        it.enums = enums
        it.watch = {"reb_integrator_bs_step": "r.t"}
        it.run("reb_integrator_part2", [Path("r")])
        calls = [o for o in it.ops if o[0] == "reb_integrator_bs_step"]
        if any(not (isnum(o[1][1]) and isnum(o[1][2])) for o in calls):
            raise ExtractError("user-ODE loop: untracked sub-step arguments %s" % calls[:2])
        D["odeloop"].append({"t": t_, "dt_next": dtn, "dt_last_done": dtl, "dt_proposed": prop,
                             "calls": [(Fraction(o[1][2]), Fraction(o[1][1])) for o in calls], "t_after": Fraction(it.mem["r.t"]),
                             "family_calls": [o[0] for o in it.ops if o[0] != "reb_integrator_bs_step"]})
    # ---- BS: substep sequence, extrapolation abscissae, and the linear map of `extrapolate`
    fam[0] = "bs"
    bs = CFile(os.path.join(S, "integrator_bs.c"))
    it = Interp([bs], {}, set())
    it.enums = enums
    it.run("allocate_sequence_arrays", [Path("ri_bs")])
    L = it.global_value("sequence_length")
    seq = [it.mem.get("ri_bs.sequence[%d]" % k) for k in range(L)]
    coe = [it.mem.get("ri_bs.coeff[%d]" % k) for k in range(L)]
    if any(not isinstance(v, int) for v in seq) or any(not isnum(v) for v in coe):
        raise ExtractError("substep sequence / coefficients not found: %s %s" % (seq, coe))
    D["bs"] = {"sequence_length": L, "sequence": seq, "coeff": [Fraction(c) for c in coe], "extrapolate": []}
    for k in range(1, L):
        # as reb_integrator_bs_step calls it: C = D[k] = T_k (the new modified-midpoint result), D[0..k-1] from the previous rows
        mem = {"ode.length": 1}
        for j in range(k):
            mem["ode.D[%d][0]" % j] = Lin({"d%d" % j: 1})
        mem["ode.D[%d][0]" % k] = Lin({"T": 1})
        mem["ode.C[0]"] = Lin({"T": 1})
        mem["ode.y1[0]"] = Lin({"T": 1})
        it = Interp([bs], mem, set())
        it.enums = enums
        it.run("extrapolate", [Path("ode"), [Fraction(c) for c in coe], k])
        if it.ops:
            raise ExtractError("extrapolate calls %s" % it.ops[:2])
        names = ["d%d" % j for j in range(k)] + ["T"]

        def row(v):
            v = Lin.lift(v)
            if v.c != 0 or set(v.d) - set(names):
                raise ExtractError("extrapolate: result is not linear in the table: %s" % v.d)
            return [v.coeff(nm) for nm in names]
        D["bs"]["extrapolate"].append({"k": k, "y1": row(it.mem["ode.y1[0]"]), "C": row(it.mem["ode.C[0]"]),
                                       "D": [row(it.mem["ode.D[%d][0]" % j]) for j in range(k + 1)]})
    # ---- MERCURIUS changeover functions (polynomial ones): executed at exact rational sample points
    fam[0] = "changeover"
    D["changeover"] = []
    pts = [(Fraction(k, 40) * dc, dc) for dc in (Fraction(1), Fraction(7, 3), Fraction(1, 50)) for k in range(-4, 53, 3)] + \
          [(Fraction(1, 10) * dc, dc) for dc in (Fraction(1), Fraction(7, 3))] + [(dc, dc) for dc in (Fraction(1), Fraction(7, 3))]
    for fn in ("reb_integrator_mercurius_L_mercury", "reb_integrator_mercurius_L_C4", "reb_integrator_mercurius_L_C5"):
        rows = []
        for d_, dc in pts:
            v = call_function([merc], enums, fn, [Path("r"), d_, dc])
            if not isnum(v):
                raise ExtractError("%s(%s, %s) is not a tracked number: %r" % (fn, d_, dc, v))
            rows.append((d_, dc, Fraction(v)))
        D["changeover"].append({"name": fn, "samples": rows})
    # ---- LEAPFROG
    fam[0] = "leapfrog"
    lbase = {"r.N": 1, "r.t": Fraction(0), "r.particles": Path("r.particles")}
    ops = run_config([lf], enums, ["reb_integrator_leapfrog_part1", "FORCE", "reb_integrator_leapfrog_part2"], lbase, set())
    D["leapfrog"] = abstract_leapfrog(ops)
    return D


# ------------------------------------------------------------------------------- Lean emission
def lq(v):
    v = Fraction(v)
    n, d = v.numerator, v.denominator
    return ("q (%d) %d" % (n, d)) if n < 0 else ("q %d %d" % (n, d))


def lop(o):
    k, a, b = o
    return "⟨%d, %s, %s⟩" % (k, lq(a), lq(b))


def lops(s, indent="  "):
    if not s:
        return "[]"
    return "[" + (",\n" + indent + " ").join(lop(o) for o in s) + "]"


def llist(xs):
    return "[" + ", ".join(lq(x) for x in xs) + "]"


HEADER = """/- GENERATED by rv/extract_c01.py from %s — do not edit.
   Decimal literals of the C source as exact rationals; schedules = the primitive-operator calls the source's
   control flow makes for one time step (coefficients in units of dt, jerk terms of dt^3). -/
import RV.Model.Sched
set_option maxRecDepth 100000
namespace RV.C01.Gen
open RV.C01

"""


def split_processed(full, pre, post, what):
    if full[:len(pre)] != pre or (post and full[len(full) - len(post):] != post) or len(pre) + len(post) > len(full):
        raise ExtractError("%s: the full step is not pre ++ core ++ post" % what)
    return full[len(pre):len(full) - len(post)]


def emit_lean(D):
    """dict: file name (under lean/RV/Gen) -> content"""
    out = {}
    T = D["tables"]
    # ---------------- SABA
    s = HEADER % "src/integrator_saba.c, src/rebound.h"
    s += "def sabaC : List (List Rat) := [\n  " + ",\n  ".join(llist(r) for r in T["reb_saba_c"]["value"]) + "]\n"
    s += "def sabaD : List (List Rat) := [\n  " + ",\n  ".join(llist(r) for r in T["reb_saba_d"]["value"]) + "]\n"
    s += "def sabaCC : List Rat := " + llist(T["reb_saba_cc"]["value"]) + "\n"
    s += "/-- (enumerator, value, reb_saba_stages(value)) -/\ndef sabaTypes : List (String × Nat × Nat) := [" + \
        ", ".join('("%s", %d, %d)' % (e["name"], e["value"], e["stages"]) for e in D["saba"]) + "]\n"
    for e in D["saba"]:
        s += "def sabaStep_%s : List Op :=\n  %s\n" % (e["name"], lops(e["step"]))
        s += "def sabaTwo_%s : List Op :=\n  %s\n" % (e["name"], lops(e["two_unsync"]))
    s += "/-- type value ↦ the operators of one synchronized step (part1, force evaluation, part2 incl. synchronize) -/\n"
    s += "def sabaStep : List (Nat × List Op) := [" + ", ".join("(%d, sabaStep_%s)" % (e["value"], e["name"]) for e in D["saba"]) + "]\n"
    s += "/-- type value ↦ two steps with safe_mode = 0 followed by synchronize -/\n"
    s += "def sabaTwoUnsync : List (Nat × List Op) := [" + ", ".join("(%d, sabaTwo_%s)" % (e["value"], e["name"]) for e in D["saba"]) + "]\n"
    s += "def sabaCounts : List (String × Nat) := [(\"c literals\", %d), (\"d literals\", %d), (\"cc literals\", %d), (\"types\", %d)]\n" % (
        T["reb_saba_c"]["explicit"], T["reb_saba_d"]["explicit"], T["reb_saba_cc"]["explicit"], len(D["saba"]))
    s += "end RV.C01.Gen\n"
    out["C01Saba.lean"] = s

    # ---------------- WHFast
    s = HEADER % "src/integrator_whfast.c, src/rebound.h"
    s += "def whA : List Rat := " + llist([T[n]["value"] for n in D["whfast_a_names"]]) + "\n"
    byorder = {}
    for n in D["whfast_b_names"]:
        m = re.match(r"reb_whfast_corrector_b_(\d+?)(\d)$", n)
        byorder.setdefault(int(m.group(1)), []).append((int(m.group(2)), T[n]["value"]))
    s += "/-- corrector order ↦ b_{order,1..} -/\ndef whB : List (Nat × List Rat) := [" + ", ".join(
        "(%d, %s)" % (o, llist([v for _, v in sorted(byorder[o])])) for o in sorted(byorder)) + "]\n"
    s += "def whC2B : Rat := " + lq(T["reb_whfast_corrector2_b"]["value"]) + "\n"
    for c in D["whfast_correctors"]:
        s += "def whCorr_%d_%s : List Op :=\n  %s\n" % (c["order"], "p" if c["inv"] > 0 else "m", lops(c["ops"]))
    s += "/-- (order, forward?) ↦ operators of reb_whfast_apply_corrector(r, ±1, order) -/\n"
    s += "def whCorr : List ((Nat × Bool) × List Op) := [" + ", ".join(
        "((%d, %s), whCorr_%d_%s)" % (c["order"], "true" if c["inv"] > 0 else "false", c["order"], "p" if c["inv"] > 0 else "m")
        for c in D["whfast_correctors"]) + "]\n"
    # decomposition of every accepted configuration
    corr = {(c["order"], c["inv"]): c["ops"] for c in D["whfast_correctors"]}
    acc = [e for e in D["whfast"] if not e["rejected"]]
    # second corrector blocks: from the configuration (jacobi, default kernel, corrector 0, corrector2 1)
    base0 = [e for e in acc if e["coordinates"] == 0 and e["kernel"] == 0 and e["corrector"] == 0 and e["corrector2"] == 0][0]["step"]
    base1 = [e for e in acc if e["coordinates"] == 0 and e["kernel"] == 0 and e["corrector"] == 0 and e["corrector2"] == 1][0]["step"]
    k2 = (len(base1) - len(base0)) // 2
    c2p, c2m = base1[:k2], base1[len(base1) - k2:]
    if base1[k2:len(base1) - k2] != base0:
        raise ExtractError("whfast: corrector2 blocks are not a prefix/suffix of the step")
    moves = lambda l: [(k, a, b) for k, a, b in l if k != K_FORCE]
    c2inv = moves(c2m) == [(k, -a, b) for k, a, b in reversed(moves(c2p))]
    s += "/-- does reb_whfast_apply_corrector2(r, -1.) apply the operators of reb_whfast_apply_corrector2(r, 1.) in reverse order with\n"
    s += "    negated coefficients?  (false on the tree with finding F18; the Lean side re-derives this flag) -/\n"
    s += "def whCorr2IsInverse : Bool := %s\n" % ("true" if c2inv else "false")
    s += "def whCorr2_p : List Op :=\n  %s\n" % lops(c2p)
    s += "def whCorr2_m : List Op :=\n  %s\n" % lops(c2m)
    cores = {}
    cfgs = []
    for e in acc:
        pre = (corr[(e["corrector"], 1)] if e["corrector"] else []) + (c2p if e["corrector2"] else [])
        post = (c2m if e["corrector2"] else []) + (corr[(e["corrector"], -1)] if e["corrector"] else [])
        core = split_processed(e["step"], pre, post, "whfast %s" % e)
        key = (e["coordinates"], e["kernel"])
        if key in cores and cores[key] != core:
            raise ExtractError("whfast: kernel part of the step depends on the corrector setting")
        cores[key] = core
        # the unsynchronised double step
        two = e["two_unsync"]
        core2 = split_processed(two, pre, post, "whfast two-step %s" % e)
        k2key = ("two",) + key
        if k2key in cores and cores[k2key] != core2:
            raise ExtractError("whfast: unsynchronised kernel part depends on the corrector setting")
        cores[k2key] = core2
        cfgs.append(e)
    for key in sorted(k for k in cores if k[0] != "two"):
        s += "def whCore_%d_%d : List Op :=\n  %s\n" % (key[0], key[1], lops(cores[key]))
        s += "def whCoreTwo_%d_%d : List Op :=\n  %s\n" % (key[0], key[1], lops(cores[("two",) + key]))
    s += "/-- (coordinates, kernel) ↦ the step without correctors -/\ndef whCore : List ((Nat × Nat) × List Op) := [" + ", ".join(
        "((%d, %d), whCore_%d_%d)" % (k[0], k[1], k[0], k[1]) for k in sorted(k for k in cores if k[0] != "two")) + "]\n"
    s += "/-- (coordinates, kernel) ↦ two steps with safe_mode = 0 followed by synchronize, without correctors -/\n"
    s += "def whCoreTwo : List ((Nat × Nat) × List Op) := [" + ", ".join(
        "((%d, %d), whCoreTwo_%d_%d)" % (k[0], k[1], k[0], k[1]) for k in sorted(k for k in cores if k[0] != "two")) + "]\n"
    s += "/-- configurations (coordinates, kernel, corrector, corrector2) accepted by reb_integrator_whfast_init; for each of them the\n"
    s += "    translator checked: step = corrector(+1) ++ corrector2(+1) ++ core ++ corrector2(-1) ++ corrector(-1) -/\n"
    s += "def whAccepted : List (Nat × Nat × Nat × Nat) := [" + ", ".join(
        "(%d, %d, %d, %d)" % (e["coordinates"], e["kernel"], e["corrector"], e["corrector2"]) for e in cfgs) + "]\n"
    s += "def whRejected : List (Nat × Nat × Nat × Nat) := [" + ", ".join(
        "(%d, %d, %d, %d)" % (e["coordinates"], e["kernel"], e["corrector"], e["corrector2"]) for e in D["whfast"] if e["rejected"]) + "]\n"
    s += "/-- coordinates ↦ reb_whfast_jump_step does nothing (its operator is then omitted from the schedules) -/\n"
    s += "def whJumpNoop : List (Nat × Bool) := [" + ", ".join("(%d, %s)" % (c, "true" if v else "false") for c, v in sorted(D["whfast_jump_noop"].items())) + "]\n"
    s += "def whCounts : List (String × Nat) := [(\"a\", %d), (\"b\", %d), (\"accepted\", %d), (\"rejected\", %d)]\n" % (
        len(D["whfast_a_names"]), len(D["whfast_b_names"]), len(cfgs), len(D["whfast"]) - len(cfgs))
    s += "end RV.C01.Gen\n"
    out["C01Whfast.lean"] = s

    # ---------------- EOS
    s = HEADER % "src/integrator_eos.c, src/rebound.h"
    for n in D["eos_table_names"]:
        v = T["eos_" + n]["value"]
        s += "def eos_%s : List Rat := %s\n" % (n, llist(v if isinstance(v, list) else [v]))
    s += "def eosTypes : List (String × Nat) := [" + ", ".join('("%s", %d)' % (e["name"], e["value"]) for e in D["eos"]) + "]\n"
    for e in D["eos"]:
        nm = e["name"]
        s += "def eosOuter_%s : List Op :=\n  %s\n" % (nm, lops(e["outer"]))
        s += "def eosOuterTwo_%s : List Op :=\n  %s\n" % (nm, lops(e["outer_two_unsync"]))
        for n in sorted(e["inner"]):
            s += "def eosInner_%s_%d : List Op :=\n  %s\n" % (nm, n, lops(e["inner"][n]))
        for part in ("pre", "head", "body", "merge", "tail", "post"):
            s += "def eosPart_%s_%s : List Op :=\n  %s\n" % (nm, part, lops(e["parts"][part]))
    s += "/-- Φ0 type ↦ one synchronized step of the outer splitting (shell-0 drift = the whole inner scheme) -/\n"
    s += "def eosOuter : List (Nat × List Op) := [" + ", ".join("(%d, eosOuter_%s)" % (e["value"], e["name"]) for e in D["eos"]) + "]\n"
    s += "def eosOuterTwoUnsync : List (Nat × List Op) := [" + ", ".join("(%d, eosOuterTwo_%s)" % (e["value"], e["name"]) for e in D["eos"]) + "]\n"
    s += "/-- (Φ1 type, n) ↦ reb_integrator_eos_drift_shell0(r, dt) unrolled by the translator, coefficients in units of the argument dt -/\n"
    s += "def eosInner : List ((Nat × Nat) × List Op) := [" + ", ".join(
        "((%d, %d), eosInner_%s_%d)" % (e["value"], n, e["name"], n) for e in D["eos"] for n in sorted(e["inner"])) + "]\n"
    s += "/-- Φ1 type ↦ (pre, head, body, merge, tail, post) of the n-loop, coefficients in units of dt/n -/\n"
    s += "def eosParts : List (Nat × (List Op × List Op × List Op × List Op × List Op × List Op)) := [" + ", ".join(
        "(%d, (eosPart_%s_pre, eosPart_%s_head, eosPart_%s_body, eosPart_%s_merge, eosPart_%s_tail, eosPart_%s_post))" % ((e["value"],) + (e["name"],) * 6)
        for e in D["eos"]) + "]\n"
    s += "def eosCounts : List (String × Nat) := [(\"types\", %d), (\"tables\", %d), (\"literals\", %d)]\n" % (
        len(D["eos"]), len(D["eos_table_names"]), sum(T["eos_" + n]["explicit"] for n in D["eos_table_names"]))
    s += "end RV.C01.Gen\n"
    out["C01Eos.lean"] = s

    # ---------------- JANUS
    s = HEADER % "src/integrator_janus.c"
    s += "/-- (order, stages, gamma[17]) of every scheme -/\ndef janusSchemes : List (Nat × Nat × List Rat) := [" + ",\n  ".join(
        "(%d, %d, %s)" % (e["order"], e["stages"], llist(T["janus_" + e["scheme"]]["value"]["gamma"])) for e in D["janus"]) + "]\n"
    for e in D["janus"]:
        s += "def janusStep_%d : List Op :=\n  %s\n" % (e["order"], lops(e["step"]))
    s += "/-- ri_janus.order ↦ one step (part1, force evaluation, part2) -/\n"
    s += "def janusStep : List (Nat × List Op) := [" + ", ".join("(%d, janusStep_%d)" % (e["order"], e["order"]) for e in D["janus"]) + "]\n"
    s += "def janusCounts : List (String × Nat) := [(\"schemes\", %d)]\n" % len(D["janus"])
    s += "end RV.C01.Gen\n"
    out["C01Janus.lean"] = s

    # ---------------- IAS15
    s = HEADER % "src/integrator_ias15.c"
    for n in ("h", "rr", "c", "d", "w"):
        s += "def ias%s : List Rat := %s\n" % (n.upper(), llist(T["ias15_" + n]["value"]))
    s += "/-- end-of-step update: x0 += dt²·(w₀·a0 + Σ w_{j+1}·b_j) + dt·v0, v0 += dt·(w₀·a0 + Σ w_{j+1}·b_j): the weights w -/\n"
    s += "def iasPosW : List Rat := %s\n" % llist(D["ias15_update"]["x0"])
    s += "def iasVelW : List Rat := %s\n" % llist(D["ias15_update"]["v0"])
    s += "def iasCounts : List (String × Nat) := [" + ", ".join('("%s", %d)' % (n, T["ias15_" + n]["explicit"]) for n in ("h", "rr", "c", "d", "w")) + "]\n"
    s += "end RV.C01.Gen\n"
    out["C01Ias15.lean"] = s

    # ---------------- MERCURIUS
    s = HEADER % "src/integrator_mercurius.c (part1, part2, synchronize; away from close encounters)"
    doc = {"safe": "safe_mode = 1, synchronized: one step (part1, force, part2 incl. synchronize)",
           "unsafe_first": "safe_mode = 0, synchronized: one step, left unsynchronized",
           "unsafe_next": "safe_mode = 0, unsynchronized: one step",
           "two_unsync": "safe_mode = 0: two steps from a synchronized state, then synchronize",
           "three_unsync_resync": "safe_mode = 0: two steps, synchronize, one more step, synchronize",
           "sync_only": "reb_integrator_mercurius_synchronize from an unsynchronized state",
           "safe_from_unsync": "safe_mode = 1 entered in an unsynchronized state: part1 synchronizes first"}
    for k in ("safe", "unsafe_first", "unsafe_next", "two_unsync", "three_unsync_resync", "sync_only", "safe_from_unsync"):
        s += "/-- %s -/\ndef merc_%s : List Op :=\n  %s\n" % (doc[k], k, lops(D["mercurius"][k]))
    for e in D["changeover"]:
        s += "/-- %s executed from the source text at exact rational (d, dcrit): ((d, dcrit), value) -/\n" % e["name"]
        s += "def changeover_%s : List ((Rat × Rat) × Rat) := [\n  %s]\n" % (e["name"].rsplit("_", 1)[1], ",\n  ".join(
            "((%s, %s), %s)" % (lq(a), lq(b), lq(c_)) for a, b, c_ in e["samples"]))
    s += "def mercCounts : List (String × Nat) := [(\"schedules\", %d)]\n" % len(D["mercurius"])
    s += "end RV.C01.Gen\n"
    out["C01Mercurius.lean"] = s

    # ---------------- TRACE
    s = HEADER % "src/integrator_trace.c (part1, part2, reb_integrator_trace_step; encounter checks not interpreted)"
    TR = D["trace"]
    s += "def tracePeriModes : List (String × Nat) := [" + ", ".join('("%s", %d)' % kv for kv in TR["peri_modes"]) + "]\n"
    s += "/-- pericentre flag current_C ↦ reb_integrator_trace_jump_step does nothing -/\n"
    s += "def traceJumpNoop : List (Nat × Bool) := [" + ", ".join("(%d, %s)" % (k, "true" if v else "false") for k, v in sorted(TR["jump_noop"].items())) + "]\n"
    for e in TR["steps"]:
        s += "def traceStep_%d_%d_%d : List Op :=\n  %s\n" % (e["peri_mode"], e["current_C"], e["rejected_once"], lops(e["step"]))
    s += "/-- (peri_mode, current_C, first attempt rejected by post_ts_check) ↦ operators of one step; kind 5 = restore of the backup -/\n"
    s += "def traceStep : List ((Nat × Nat × Nat) × List Op) := [" + ", ".join(
        "((%d, %d, %d), traceStep_%d_%d_%d)" % ((e["peri_mode"], e["current_C"], e["rejected_once"]) * 2) for e in TR["steps"]) + "]\n"
    s += "end RV.C01.Gen\n"
    out["C01Trace.lean"] = s

    # ---------------- dispatchers
    s = HEADER % "src/integrator.c (reb_integrator_part1, reb_integrator_part2, reb_simulation_synchronize, reb_simulation_reset_integrator), src/rebound.h"
    s += "/-- (enumerator, value, lower-case family name, routine reached by part1, by part2, by synchronize); \"\" = nothing is called,\n"
    s += "    \"advance_time\" = only r->t += r->dt -/\n"
    s += "def dispatch : List (String × Nat × String × String × String × String) := [\n  " + ",\n  ".join(
        '("%s", %d, "%s", "%s", "%s", "%s")' % (r_["enum"], r_["value"], r_["family"], r_["part1"], r_["part2"], r_["synchronize"]) for r_ in D["dispatch"]) + "]\n"
    s += "/-- the user-ODE sub-stepping loop of reb_integrator_part2 executed for (t after the N-body step, r->dt = size proposed for the NEXT\n"
    s += "    step, r->dt_last_done, ri_bs.dt_proposed): the (start time seen by reb_integrator_bs_step, dt passed to it) of every call, and r->t afterwards -/\n"
    s += "def odeLoop : List ((Rat × Rat × Rat × Rat) × List (Rat × Rat) × Rat) := [\n  " + ",\n  ".join(
        "((%s, %s, %s, %s), [%s], %s)" % (lq(e["t"]), lq(e["dt_next"]), lq(e["dt_last_done"]), lq(e["dt_proposed"]),
                                          ", ".join("(%s, %s)" % (lq(a), lq(b)) for a, b in e["calls"]), lq(e["t_after"])) for e in D["odeloop"]) + "]\n"
    s += "def dispatchResetCalls : List String := [" + ", ".join('"%s"' % x for x in D["dispatch_reset"]["calls"]) + "]\n"
    s += "def dispatchResetIntegrator : Nat := %d\n" % D["dispatch_reset"]["integrator_after"]
    s += "end RV.C01.Gen\n"
    out["C01Dispatch.lean"] = s

    # ---------------- BS
    s = HEADER % "src/integrator_bs.c (allocate_sequence_arrays, extrapolate)"
    B = D["bs"]
    s += "def bsSequenceLength : Nat := %d\n" % B["sequence_length"]
    s += "/-- ri_bs->sequence[k]: number of modified-midpoint substeps of row k -/\ndef bsSequence : List Nat := [%s]\n" % ", ".join(str(x) for x in B["sequence"])
    s += "/-- ri_bs->coeff[k]: abscissae of the extrapolation -/\ndef bsCoeffs : List Rat := %s\n" % llist(B["coeff"])
    s += "/-- k ↦ the linear map of `extrapolate(ode, coeff, k)` as executed from the source text on a symbolic table: inputs\n"
    s += "    (D[0], …, D[k-1], T) with C = D[k] = T on entry; rows: y1, C, D[0], …, D[k] on exit -/\n"
    s += "def bsExtrapolate : List (Nat × List (List Rat)) := [\n  " + ",\n  ".join(
        "(%d, [%s])" % (e["k"], ", ".join(llist(r) for r in [e["y1"], e["C"]] + e["D"])) for e in B["extrapolate"]) + "]\n"
    s += "end RV.C01.Gen\n"
    out["C01Bs.lean"] = s

    # ---------------- LEAPFROG
    s = HEADER % "src/integrator_leapfrog.c"
    s += "def leapfrogStep : List Op :=\n  %s\n" % lops(D["leapfrog"])
    s += "end RV.C01.Gen\n"
    out["C01Leapfrog.lean"] = s
    return out


def eos_parts(D, repo):
    """decomposition of the inner n-loop of each Φ1 type: certificate checked in Lean against the unrolled n = 1..4"""
    S = os.path.join(repo, "src")
    enums = parse_enums(os.path.join(S, "rebound.h"))
    eos = CFile(os.path.join(S, "integrator_eos.c"))
    for e in D["eos"]:
        def proc(fn):
            ops = run_config([eos], enums, [(fn, lambda dt, v=e["value"]: [Path("r"), dt, v, ("func", "reb_integrator_eos_drift_shell1"),
                                                                        ("func", "reb_integrator_eos_interaction_shell1")])],
                             {"r.N": 2}, set())
            return abstract(ops, "eos")
        pre, post = proc("reb_integrator_eos_preprocessor"), proc("reb_integrator_eos_postprocessor")
        one = split_processed(e["inner"][1], pre, post, "eos inner %s" % e["name"])
        def sc(ops, f):
            return [(k, a * f, b if k == K_DRIFT else b * f ** 3) for k, a, b in ops]
        two = sc(split_processed(e["inner"][2], sc(pre, Fraction(1, 2)), sc(post, Fraction(1, 2)), "eos inner n=2 %s" % e["name"]), 2)
        if len(one) < 3 or one[0][0] != K_DRIFT or one[-1][0] != K_DRIFT:
            raise ExtractError("eos inner %s: does not start and end with a drift" % e["name"])
        head, body, tail = one[:1], one[1:-1], one[-1:]
        if len(two) != 2 + 2 * len(body) + 1:
            raise ExtractError("eos inner %s: n = 2 is not head body merge body tail" % e["name"])
        merge = two[1 + len(body):2 + len(body)]
        e["parts"] = {"pre": pre, "head": head, "body": body, "merge": merge, "tail": tail, "post": post}


# ------------------------------------------------------------------------------- compiled cross-check of the literals
def compiled_doubles(D, workdir):
    """compile the table initialisers verbatim into a small C program, read back the IEEE doubles the compiler produced
    and compare with float(Fraction(text)).  Returns (n_checked, mismatches)."""
    T = D["tables"]
    src = ["#include <stdio.h>", "#include <string.h>", "#include <stdint.h>", D["janus_struct_text"]]
    prints = []
    expect = []
    for key, t in T.items():
        text = t["text"]
        # make every definition a distinct, non-static object
        nm = "tab_" + re.sub(r"\W", "_", key)
        text = re.sub(r"\b" + re.escape(t["name"]) + r"\b", nm, text, count=1)
        text = re.sub(r"^\s*static\s+", "", text)
        src.append(text)
        v = t["value"]
        flat = []

        def walk(x, expr):
            if isinstance(x, list):
                for i, y in enumerate(x):
                    walk(y, "%s[%d]" % (expr, i))
            elif isinstance(x, dict):
                for k2, y in x.items():
                    walk(y, "%s.%s" % (expr, k2))
            else:
                flat.append((expr, x))
        walk(v, nm)
        for expr, x in flat:
            prints.append('  { double v = (double)(%s); uint64_t u; memcpy(&u, &v, 8); printf("%%016llx\\n", (unsigned long long)u); }' % expr)
            expect.append((expr.replace(nm, key, 1), x))
    src.append("int main(void){")
    src += prints
    src.append("  return 0; }")
    cfile = os.path.join(workdir, "c01_literals.c")
    exe = os.path.join(workdir, "c01_literals")
    with open(cfile, "w") as f:
        f.write("\n".join(src) + "\n")
    p = subprocess.run(["gcc", "-O3", "-std=c99", "-ffp-contract=off", "-w", cfile, "-o", exe], capture_output=True, text=True)
    if p.returncode != 0:
        raise ExtractError("literal cross-check program does not compile: " + p.stderr[:1500])
    outp = subprocess.run([exe], capture_output=True, text=True).stdout.split()
    if len(outp) != len(expect):
        raise ExtractError("literal cross-check: %d values printed, %d expected" % (len(outp), len(expect)))
    import struct
    bad = []
    for hx, (expr, x) in zip(outp, expect):
        got = struct.unpack("<d", struct.pack("<Q", int(hx, 16)))[0]
        want = float(Fraction(x))      # correctly rounded (round-half-even) conversion of the exact rational
        if got != want or (got == 0 and str(got) != str(want)):
            bad.append((expr, hx, repr(want)))
    return len(expect), bad


def write_gen(repo, lean_dir, write_if_changed):
    D = extract_all(repo)
    eos_parts(D, repo)
    files = emit_lean(D)
    changed = []
    for fn, content in files.items():
        if write_if_changed(os.path.join(lean_dir, "RV", "Gen", fn), content):
            changed.append(fn)
    return D, changed


if __name__ == "__main__":
    repo = sys.argv[1] if len(sys.argv) > 1 else "/repo"
    here = os.path.dirname(os.path.abspath(__file__))
    sys.path.insert(0, here)
    from common import write_if_changed, LEAN
    D, changed = write_gen(repo, LEAN, write_if_changed)
    print("regenerated:", changed)
    with tempfile.TemporaryDirectory() as td:
        n, bad = compiled_doubles(D, td)
    print("compiled literals checked:", n, "mismatches:", bad[:5])
