"""Shared by C06 / C07: an independent re-parser of the Simulationarchive format (written from
the format description, shares no code with REBOUND), history generation, and the runner that
executes a history on the real code in a forked child (a crash of the real code is an output).

Format description the re-parser implements
    file      := header[64] blob0 trailer (blob trailer)*
    blob      := record* END
    record    := u32 type, u32 pad, u64 size, payload[size]            (little endian)
    END       := record with type 9999, size 0
    trailer   := i32 index, i32 offset_prev, i32 offset_next            (12 bytes)
    offset_next(trailer k) = offset_prev(trailer k+1) = len(blob k+1) (END included, trailer not);
    offset_next of the last trailer = 0; index counts up from 0.
    snapshot k = records of blob0, overlaid by the records of blob k (later value wins; a record of
    size 0 means "empty array").
"""
import json, os, re, struct, sys, traceback, signal

END = 9999
HEADER_T = 1329743186
T_ID, N_ID, PARTICLES, VARCFG, PJH, WALL, WALL2, STEPS, STATUS = 0, 4, 85, 86, 104, 126, 127, 137, 11
PARTICLE_ARRAYS = (85, 104)
PSIZE = 128


class FormatError(Exception):
    pass


def parse_records(b, pos):
    """records from pos up to END -> ([(type, payload, pad)], position after END)"""
    out = []
    n = len(b)
    while True:
        if pos + 16 > n:
            raise FormatError("record header runs past the end at %d" % pos)
        ty, pad, size = struct.unpack_from("<IIQ", b, pos)
        pos += 16
        if ty == END:
            if size != 0:
                raise FormatError("END record with size %d" % size)
            return out, pos
        if pos + size > n:
            raise FormatError("payload of record %d (size %d) runs past the end" % (ty, size))
        out.append((ty, b[pos:pos + size], pad))
        pos += size


def parse_stream(b):
    """one full serialisation -> (header, records, trailer tuple)"""
    if len(b) < 64:
        raise FormatError("shorter than a header")
    recs, pos = parse_records(b, 64)
    if pos + 12 > len(b):
        raise FormatError("no trailer")
    return b[:64], recs, struct.unpack_from("<iii", b, pos), pos + 12


def parse_archive(b):
    """-> list of blobs dict(off, recs, trailer, end) for every blob that parses and whose trailer chain
    is consistent; stops at the first one that does not (what a correct reader may expose)."""
    blobs = []
    try:
        _, recs, tr, pos = parse_stream(b)
    except FormatError:
        return blobs
    blobs.append(dict(off=0, recs=recs, trailer=tr, end=pos))
    while blobs[-1]["trailer"][2] != 0:
        off = blobs[-1]["end"]
        try:
            recs, p = parse_records(b, off)
        except FormatError:
            break
        if p + 12 > len(b):
            break
        tr = struct.unpack_from("<iii", b, p)
        if tr[1] != p - off or blobs[-1]["trailer"][2] != tr[1] or tr[0] != blobs[-1]["trailer"][0] + 1:
            break
        blobs.append(dict(off=off, recs=recs, trailer=tr, end=p + 12))
    return blobs


def mask_particles(p):
    """zero the members reb_input_fields re-creates (c, ap, sim) and the padding after hash"""
    p = bytearray(p)
    for i in range(0, len(p) - PSIZE + 1, PSIZE):
        p[i + 96:i + 104] = bytes(8)
        p[i + 108:i + 128] = bytes(20)
    return bytes(p)


def mask_varcfg(p):
    p = bytearray(p)
    sz = 40 if len(p) % 40 == 0 else 0
    if sz:
        for i in range(0, len(p), sz):
            p[i:i + 8] = bytes(8)
    return bytes(p)


def mask_pjh(p):
    """ri_whfast.p_jh is realloc'ed scratch: WHFast writes m and the nine coordinates only; r, last_collision,
    c, hash, ap, sim of its entries are whatever the heap held (they differ between processes)"""
    p = bytearray(p)
    for i in range(0, len(p) - PSIZE + 1, PSIZE):
        p[i + 80:i + 128] = bytes(48)
    return bytes(p)


def py_compare(rebound, a, ref, out, tmp):
    """child: snapshot-wise comparison of two archives through the Python loader and the re-parser"""
    import warnings
    warnings.filterwarnings("ignore")
    res = dict(error=None)
    try:
        sa, sr = rebound.Simulationarchive(a, process_warnings=False), rebound.Simulationarchive(ref, process_warnings=False)
        res["n"] = [int(sa.nblobs), int(sr.nblobs)]
        res["t"] = [[hex64(sa.t[i]) for i in range(sa.nblobs)], [hex64(sr.t[i]) for i in range(sr.nblobs)]]
        res["diff"] = []
        for k in range(min(sa.nblobs, sr.nblobs)):
            cs = []
            for arch in (sa, sr):
                s = arch[k]
                p = os.path.join(tmp, "cmp.bin")
                if os.path.exists(p):
                    os.remove(p)
                s.save_to_file(p)
                d = canon(parse_stream(open(p, "rb").read())[1])
                d.pop(87, None)
                if PJH in d:
                    d[PJH] = mask_pjh(d[PJH])
                cs.append(d)
            res["diff"].append(diff_canon(cs[0], cs[1]))
    except Exception as e:
        res["error"] = repr(e)[:200]
    with open(out, "w") as f:
        json.dump(res, f)


def canon(recs, mask_wall=True):
    """id -> payload; pointer-valued bytes masked; absent == empty"""
    d = {}
    for ty, pl, _ in recs:
        d[ty] = pl
    out = {}
    for ty, pl in d.items():
        if len(pl) == 0:
            continue
        if mask_wall and ty in (WALL, WALL2):
            continue
        if ty in PARTICLE_ARRAYS:
            pl = mask_particles(pl)
        elif ty == VARCFG:
            pl = mask_varcfg(pl)
        out[ty] = pl
    return out


def overlay(recs0, recsk):
    return list(recs0) + list(recsk)


def diff_canon(a, b):
    """ids whose canonical payloads differ"""
    return sorted(k for k in set(a) | set(b) if a.get(k) != b.get(k))


def patch_record(b, ty, payload):
    """bytes of a serialisation with the payload of record `ty` replaced (same size)"""
    pos = 64
    b = bytearray(b)
    while pos + 16 <= len(b):
        t, _, size = struct.unpack_from("<IIQ", b, pos)
        pos += 16
        if t == END:
            break
        if t == ty:
            assert size == len(payload)
            b[pos:pos + size] = payload
        pos += size
    return bytes(b)


def rec_value(recs, ty):
    v = None
    for t, pl, _ in recs:
        if t == ty:
            v = pl
    return v


# ------------------------------------------------------------------------------------------ histories
INTEGRATORS = ["whfast", "ias15", "leapfrog", "sei", "janus", "mercurius", "saba", "eos", "bs", "trace", "none"]
FIXED_STEP = ["whfast", "leapfrog", "sei", "janus", "saba", "eos", "mercurius"]
SETTINGS = [("dt", [0.01, 0.02, 0.005, 0.0137]), ("G", [1.0, 0.5, 2.0]), ("softening", [0.0, 1e-3]),
            ("ri_whfast.safe_mode", [0, 1]), ("ri_whfast.corrector", [0, 3, 5, 11, 17]),
            ("ri_whfast.coordinates", [0, 1, 2, 3]), ("ri_whfast.kernel", [0, 1, 2, 3]),
            ("ri_ias15.epsilon", [1e-9, 1e-7, 0.0]), ("ri_ias15.min_dt", [0.0, 1e-6]),
            ("ri_saba.safe_mode", [0, 1]), ("ri_saba._type", [0x0, 0x1, 0x2, 0x3, 0x100, 0x101, 0x203]),
            ("ri_eos.n", [1, 2, 4]), ("ri_eos.safe_mode", [0, 1]), ("ri_mercurius.r_crit_hill", [3.0, 2.0]),
            ("ri_bs.eps_rel", [1e-8, 1e-6]), ("exit_max_distance", [0.0, 1e3]), ("N_active", [-1, 1, 2]),
            ("testparticle_type", [0, 1]), ("gravity", ["basic", "compensated", "none"]),
            ("collision", ["none", "direct"]), ("boundary", ["none", "open"]),
            ("exact_finish_time", [0, 1]), ("force_is_velocity_dependent", [0, 1]),
            ("rand_seed", [1, 12345]), ("ri_trace.r_crit_hill", [3.0, 4.0]), ("ri_janus.order", [2, 4, 6]),
            ("ri_whfast.keep_unsynchronized", [0, 1]), ("ri_saba.keep_unsynchronized", [0, 1]), ("ri_ias15.adaptive_mode", [0, 1, 2, 3]),
            ("ri_bs.min_dt", [0.0, 1e-5]), ("ri_bs.max_dt", [0.0, 0.05]), ("ri_trace.peri_crit_eta", [1.0, 2.0]),
            ("ri_janus.scale_pos", [1e-16, 1e-14]), ("ri_janus.scale_vel", [1e-16, 1e-15]), ("ri_mercurius.safe_mode", [0, 1]),
            ("ri_whfast.corrector2", [0, 1]), ("testparticle_hidewarnings", [0, 1])]


# ------------------------------------------------------------------------------------------ pairwise covering arrays
def all_pairs(factors, excluded):
    """every (f, a, g, b) with f < g in factor order that is not excluded -> set"""
    names = list(factors)
    out = set()
    for i, f in enumerate(names):
        for g in names[i + 1:]:
            for a in factors[f]:
                for b in factors[g]:
                    if not excluded(f, a, g, b):
                        out.add((f, a, g, b))
    return out


def row_pairs(row, names):
    return {(f, row[f], g, row[g]) for i, f in enumerate(names) for g in names[i + 1:]}


UNCOVERABLE = {}


def covering_array(factors, excluded, rng, ncand=60):
    """greedy all-pairs: repeatedly pick, among `ncand` random admissible candidates (seeded to contain one
    uncovered pair), the row covering most uncovered pairs.  A row is admissible when none of its pairs is excluded."""
    names = list(factors)
    todo = all_pairs(factors, excluded)
    rows = []
    guard = 0
    while todo and guard < 5000:
        guard += 1
        best, bestn = None, -1
        seed_pair = next(iter(sorted(todo, key=str))) if guard % 2 else rng.choice(sorted(todo, key=str))
        for _ in range(ncand):
            row = {f: rng.choice(factors[f]) for f in names}
            row[seed_pair[0]] = seed_pair[1]
            row[seed_pair[2]] = seed_pair[3]
            rp = row_pairs(row, names)
            if any(excluded(*q) for q in rp):
                continue
            n = len(rp & todo)
            if n > bestn:
                best, bestn = row, n
        if best is None or bestn <= 0:
            todo.discard(seed_pair)         # cannot be completed to an admissible row: reported as uncoverable
            UNCOVERABLE.setdefault(id(factors), set()).add(seed_pair)
            rows.append(None)
            continue
        rows.append(best)
        todo -= row_pairs(best, names)
    return [r for r in rows if r is not None]


class PairTracker:
    """pairs of factor values actually EXECUTED (a skipped op does not count)"""
    def __init__(self, factors, excluded):
        self.factors, self.excluded = factors, excluded
        self.names = list(factors)
        self.total = all_pairs(factors, excluded)
        self.seen = set()
        nall = sum(len(factors[f]) * len(factors[g]) for i, f in enumerate(self.names) for g in self.names[i + 1:])
        self.nexcluded = nall - len(self.total)

    def add(self, row):
        have = [f for f in self.names if row.get(f) is not None]
        for i, f in enumerate(have):
            for g in have[i + 1:]:
                q = (f, row[f], g, row[g])
                if q in self.total:
                    self.seen.add(q)

    def report(self):
        unc = UNCOVERABLE.get(id(self.factors), set()) - self.seen
        missing = sorted(self.total - self.seen - unc, key=str)
        return {"covered": len(self.seen), "total": len(self.total) - len(unc), "excluded": self.nexcluded,
                "no_admissible_row": [list(m) for m in sorted(unc, key=str)[:30]],
                "factors": {f: len(v) for f, v in self.factors.items()}, "missing": [list(m) for m in missing[:25]]}


def probe_cadence_variant(rebound, wd):
    """behavioural probe: does the interval heartbeat skip output times that have already passed (repaired source,
    fixes/C06-cadence-skip-passed-output-times.diff) or advance by one interval only (pinned)?  -> True = repaired"""
    os.makedirs(wd, exist_ok=True)
    fn, out = os.path.join(wd, "cadprobe.bin"), os.path.join(wd, "cadprobe.json")

    def child():
        import warnings
        warnings.filterwarnings("ignore")
        sim = rebound.Simulation()
        sim.add(m=1.0)
        sim.add(m=1e-3, a=1.0)
        sim.integrator = "leapfrog"
        sim.dt = 0.01
        sim.save_to_file(fn, interval=0.004)
        sim.integrate(0.03, exact_finish_time=0)
        nxt = sim.simulationarchive_next
        json.dump(dict(ahead=bool(nxt > sim.t)), open(out, "w"))
    if fork_run(child) != 0 or not os.path.exists(out):
        return False
    return json.load(open(out))["ahead"]


# ------------------------------------------------------------------------------------------ public entry points
ENTRY_CORE = ("reb_binary_diff", "reb_input_fields", "reb_simulation_save_to_stream", "reb_output_stream_write", "reb_simulation_output_free_stream")
ENTRY_CORE_C07 = ("reb_read_simulationarchive_from_stream_with_messages", "reb_simulation_save_to_file", "reb_simulationarchive_free_pointers",
                  "_reb_simulationarchive_automate_set_filename")


def _c_bodies(repo):
    import glob
    bodies = {}
    for f in sorted(glob.glob(os.path.join(repo, "src", "*.c"))):
        src = open(f, errors="replace").read()
        for m in re.finditer(r"^[A-Za-z_][\w \*]*?\b(\w+)\s*\([^;{]*\)\s*\{", src, flags=re.M):
            end = src.find("\n}", m.end())
            bodies.setdefault(m.group(1), (os.path.basename(f), src[m.end():end]))
    return bodies


def entry_points(repo, core=None):
    """extracted from the source under test: DLLEXPORT functions of src/rebound.h from which the archive mechanism is
    reachable = every function of simulationarchive.c, the delta encoder, the field reader and the stream writer
    (`core` overrides this set), closed under 'is called by'.
    -> (exported entry points {name: file}, non-exported functions on the way {name: file})"""
    h = open(os.path.join(repo, "src", "rebound.h")).read()
    decl = set(re.findall(r"DLLEXPORT[^;(]*?\b(reb_\w+)\s*\(", h))
    bodies = _c_bodies(repo)
    reach = set(core) if core else ({n for n, (f, _) in bodies.items() if f == "simulationarchive.c"} | set(ENTRY_CORE))
    changed = True
    while changed:
        changed = False
        for n, (f, b) in bodies.items():
            if n not in reach and set(re.findall(r"\b(\w+)\s*\(", b)) & reach:
                reach.add(n)
                changed = True
    return ({n: bodies[n][0] for n in sorted(reach) if n in decl and n in bodies},
            {n: bodies[n][0] for n in sorted(reach) if n not in decl and n in bodies})


def py_entry_points(repo, centry):
    """methods of the Python classes that reach a C entry point: every method of class Simulation whose body names one,
    and the public / container methods of class Simulationarchive -> {"Class.method": [C entry points named]}"""
    import ast
    out = {}
    for fn, cls in (("simulation.py", "Simulation"), ("simulationarchive.py", "Simulationarchive")):
        src = open(os.path.join(repo, "rebound", fn)).read()
        for n in ast.parse(src).body:
            if isinstance(n, ast.ClassDef) and n.name == cls:
                for m in n.body:
                    if isinstance(m, ast.FunctionDef):
                        seg = ast.get_source_segment(src, m)
                        hit = sorted(e for e in centry if re.search(r"\b%s\b" % e, seg))
                        if hit or (cls == "Simulationarchive" and (not m.name.startswith("_") or m.name in ("__iter__", "__len__", "__getitem__"))):
                            out["%s.%s" % (cls, m.name)] = hit
    return out


class _LibTrace(object):
    """stands in for `clibrebound` inside the rebound modules: notes which entry points are looked up"""
    def __init__(self, lib, fd, names):
        object.__setattr__(self, "_lib", lib)
        object.__setattr__(self, "_fd", fd)
        object.__setattr__(self, "_names", set(names))
        object.__setattr__(self, "_seen", set())

    def __getattr__(self, name):
        if name in self._names and name not in self._seen:
            self._seen.add(name)
            os.write(self._fd, ("c %s\n" % name).encode())
        return getattr(self._lib, name)

    def __setattr__(self, name, value):
        setattr(self._lib, name, value)


def install_entry_trace(rebound, logpath, centry, pyentry):
    """record (into logpath, also from forked children) which C entry points the Python layer calls and which of the
    extracted Python methods run"""
    import functools
    import sys
    fd = os.open(logpath, os.O_WRONLY | os.O_CREAT | os.O_APPEND, 0o644)
    for modname in ("rebound.simulation", "rebound.simulationarchive"):
        mod = sys.modules[modname]
        if not isinstance(mod.clibrebound, _LibTrace):
            mod.clibrebound = _LibTrace(mod.clibrebound, fd, centry)
    seen = set()
    for qual in pyentry:
        cls, meth = qual.split(".")
        C = getattr(rebound, cls)
        f = C.__dict__[meth]
        raw = f.__func__ if isinstance(f, (staticmethod, classmethod)) else f

        def mk(raw, qual):
            @functools.wraps(raw)
            def w(*a, **k):
                if qual not in seen:
                    seen.add(qual)
                    os.write(fd, ("py %s\n" % qual).encode())
                return raw(*a, **k)
            return w
        wrapped = mk(raw, qual)
        setattr(C, meth, staticmethod(wrapped) if isinstance(f, staticmethod) or meth == "__new__" else wrapped)
    return fd


def read_entry_trace(logpath):
    c_seen, py_seen = set(), set()
    if os.path.exists(logpath):
        for l in open(logpath):
            p = l.split()
            if len(p) == 2:
                (c_seen if p[0] == "c" else py_seen).add(p[1])
    return c_seen, py_seen


def harness_calls(paths, centry):
    """C entry points called by the harness programs of this run (their sources)"""
    out = set()
    for p in paths:
        src = open(p).read()
        src = re.sub(r"/\*.*?\*/", "", src, flags=re.S)
        out |= {e for e in centry if re.search(r"\b%s\s*\(" % e, src)}
    return out


# ------------------------------------------------------------------------------------------ C06 factors
C06_FACTORS = {
    "integrator": ["whfast", "ias15", "leapfrog", "sei", "janus", "mercurius", "saba", "eos", "bs", "trace", "none"],
    "first": ["fresh", "stepped"],                  # lazily allocated arrays absent / present in the first snapshot
    "cadence": ["manual", "interval", "step", "interval_back", "step_back", "interval_short"],   # interval_short: interval < |dt| (prescribed time lags)
    "eventA": ["steps", "merge", "switch", "reset", "n_to_zero", "add", "remove", "lrescale", "nothing", "sett_t0",
               "hash", "callback", "edit", "synchronize", "setting"],
    "eventB": ["steps", "switch", "reset", "nothing", "add", "n_to_zero", "setting", "remove"],
    "roles": ["plain", "n_active", "testparticle1", "variational", "massless"],
    # integrator that took steps BEFORE the one under test was selected (no reset): its arrays are allocated, non-zero and unused
    "prev": ["none", "ias15", "whfast", "mercurius", "janus", "saba", "bs", "trace", "eos"],
    "restore": ["sa[k]", "Simulation(file,k)", "Simulation(sa,k)", "iteration", "c_api"],
}
_VAR_OK = ("ias15", "leapfrog", "none")
_PARTICLE_EVENTS = ("merge", "add", "remove", "n_to_zero")


def c06_excluded(f, a, g, b):
    """combinations the code rejects or that damage memory outside the archive code (listed in notes/C06.md)"""
    d = {f: a, g: b}
    integ, roles, cad = d.get("integrator"), d.get("roles"), d.get("cadence")
    evs = [d[x] for x in ("eventA", "eventB") if x in d]
    if roles == "variational" and integ is not None and integ not in _VAR_OK:
        return True          # variational particles: only IAS15 / leapfrog / none handle every configuration (WHFast family overflows p_jh)
    if roles == "variational" and any(e in _PARTICLE_EVENTS + ("switch",) for e in evs):
        return True          # real particles must not be added / removed / merged after variational ones; switch may leave the supported set
    if (integ == "bs" or d.get("prev") == "bs") and any(e in _PARTICLE_EVENTS for e in evs):
        return True          # BS keeps ODE buffers sized for the old N (heap overflow in integrator_bs.c, not archive code)
    if integ in ("bs", "trace", "mercurius") and "merge" in evs:
        return True
    if cad in ("interval_back", "step_back") and integ in ("trace",):
        return True          # TRACE does not support dt < 0 (documented TODO)
    if cad is not None and cad != "manual" and "merge" in evs:
        return True          # the merge event steps outside integrate(): cadence lags by construction
    if any(e == "lrescale" for e in evs) and roles is not None and roles != "variational":
        return True          # lrescale exists only with a variational configuration
    if roles == "variational" and d.get("prev") in ("mercurius", "trace"):
        return True          # the gravity routine stays "mercurius"/"trace" after the switch; variational equations need basic gravity
    if d.get("prev") is not None and d.get("prev") == integ:
        return True          # "previous integrator" = another integrator
    if d.get("eventA") == "n_to_zero" and d.get("eventB") == "remove":
        return True          # nothing left to remove
    if cad is not None and cad != "manual" and d.get("eventA") == "sett_t0":
        return True          # rewinding t under a time cadence is a lagging run by construction
    return False


def c06_history_from_row(rng, row):
    """history realising one row of the covering array: first snapshot (after steps or not), event A, snapshot right
    after it, event B, snapshot right after it; with an automatic cadence the snapshots are the first heartbeats of
    the next integrate() call (cadence of one step)"""
    integ = row["integrator"]
    parts = [gen_particle(rng, star=True), gen_particle(rng), gen_particle(rng), gen_particle(rng)]
    pre = []
    if row["roles"] == "n_active":
        pre += [["set", "N_active", 2]]
    elif row["roles"] == "testparticle1":
        pre += [["set", "N_active", 2], ["set", "testparticle_type", 1]]
    elif row["roles"] == "massless":
        parts[2]["m"] = 0.0
        parts[3]["m"] = 0.0
    init = dict(particles=parts, integrator=integ, dt=0.01)
    if integ in ("mercurius", "trace") and row["first"] == "stepped":
        parts[1] = dict(m=1e-3, x=1.0, y=0.0, z=0.0, vx=0.0, vy=1.0, vz=0.0, r=0.0)
        parts[2] = dict(m=1e-3 if row["roles"] != "massless" else 0.0, x=1.02, y=0.0, z=0.0, vx=0.0, vy=0.98, vz=0.0, r=0.0)
    other = "leapfrog" if integ != "leapfrog" else "whfast"
    if row["roles"] == "variational":
        other = "ias15" if integ != "ias15" else "leapfrog"

    def ev(name):
        return {"steps": [["steps", 2]], "merge": [["merge"]], "switch": [["integrator", other]], "reset": [["reset"]],
                "n_to_zero": [["remove_all"]], "add": [["add", gen_particle(rng)]], "remove": [["remove", 1]],
                "lrescale": [["lrescale", -1.0]], "nothing": [], "sett_t0": [["sett", "t0"]], "hash": [["hash", 1, 77001]],
                "callback": [["callback", "additional_forces"]], "edit": [["edit", 1, "x", 0.321]], "synchronize": [["synchronize"]],
                "setting": [["set", "G", 0.75]]}[name]
    ops = list(pre)
    prev = row.get("prev") or "none"
    if prev != "none":
        init["integrator"] = prev
        ops += [["steps", 3], ["integrator", integ]]
    if row["first"] == "stepped":
        ops += [["steps", 3]]
    if row["roles"] == "variational":
        ops += [["variation", 1], ["varinit", 0.25]]
    cad = row["cadence"]
    if cad == "manual":
        ops += [["snap"]] + ev(row["eventA"]) + [["snap"]] + ev(row["eventB"]) + [["snap"], ["steps", 1], ["snap"]]
    else:
        sgn = -1 if cad.endswith("_back") else 1
        ops += [["auto_interval", 0.004 if cad == "interval_short" else 0.01] if cad.startswith("interval") else ["auto_step", 1]]
        seg = lambda: [["integrate", sgn * 0.01 * 2.5, 0]]
        a = ev(row["eventA"]) if row["eventA"] != "steps" else seg()
        b = ev(row["eventB"]) if row["eventB"] != "steps" else seg()
        ops += seg() + a + seg() + b + seg() + [["snap"]]
    return dict(init=init, ops=ops, structural="pairwise", auto=(None if cad == "manual" else ("interval" if cad.startswith("interval") else "step")),
                tag=None, row=row, restore=row["restore"])


def gen_particle(rng, star=False):
    if star:
        return dict(m=1.0, x=0.0, y=0.0, z=0.0, vx=0.0, vy=0.0, vz=0.0, r=0.0)
    a = rng.uniform(0.5, 5.0)
    import math
    ph = rng.uniform(0, 2 * math.pi)
    v = 1.0 / math.sqrt(a) * rng.uniform(0.9, 1.1)
    return dict(m=rng.choice([0.0, 1e-6, 1e-4, 1e-3]), x=a * math.cos(ph), y=a * math.sin(ph),
                z=rng.uniform(-0.05, 0.05), vx=-v * math.sin(ph), vy=v * math.cos(ph),
                vz=rng.uniform(-0.01, 0.01), r=0.0)


def gen_history(rng, nappend, structural=None, auto=None, variant=None):
    """-> dict(init=..., ops=[...]).  structural in {None,'reset_after_whfast','remove_all','shrink_zero_reappear',
    'ias15_reset','switch_many','same_time','negzero'}; auto in {None,'interval','step'}"""
    hist_tag = None
    n0 = rng.randint(1, 5)
    # BS keeps ODE buffers that do not survive collisions / particle edits between steps (heap overflow in
    # integrator_bs.c:330, outside C06): it gets histories of its own (steps, settings, snapshots)
    bs_only = structural is None and auto is None and rng.chance(0.08)
    integ = "bs" if bs_only else rng.choice([i for i in INTEGRATORS if i != "bs"])
    if auto:
        integ = rng.choice(FIXED_STEP + ["ias15", "bs"])
    init = dict(particles=[gen_particle(rng, star=True)] + [gen_particle(rng) for _ in range(n0 - 1)],
                integrator=integ, dt=rng.choice([0.01, 0.02, 0.037]))
    ops = [["snap"]]

    def free_ops(k):
        out = []
        for _ in range(k):
            c = rng.randint(0, 99)
            if bs_only:
                c = c % 35 if c < 62 else (70 if c < 90 else 99)
            if c < 35:
                out.append(["steps", rng.randint(1, 4)])
            elif c < 45:
                p = gen_particle(rng)
                out.append(["add", p])
            elif c < 52:
                out.append(["remove", rng.randint(0, 5)])
            elif c < 62:
                out.append(["integrator", rng.choice([i for i in INTEGRATORS if i != "bs"])])
            elif c < 80:
                name, vals = rng.choice(SETTINGS)
                if bs_only and name in ("collision", "boundary", "N_active"):
                    name, vals = "ri_bs.eps_rel", [1e-8, 1e-6]
                out.append(["set", name, rng.choice(vals)])
            elif c < 85:
                out.append(["variation", rng.choice([1, 1, 2])])
            elif c < 90:
                out.append(["merge"])
            elif c < 93:
                out.append(["edit", rng.randint(0, 5), rng.choice(["x", "vy", "m", "r", "az", "last_collision"]), rng.uniform(-1, 1)])
            elif c < 95:
                out.append(rng.choice([["hash", rng.randint(0, 5), rng.randint(1, 2 ** 32 - 1)], ["lrescale", rng.choice([-1.0, 0.5, 3.25])]]))
            elif c < 97:
                out.append(rng.choice([["varinit", rng.uniform(-1, 1)], ["variation_tp"], ["megno"], ["callback", rng.choice(["additional_forces", "post_timestep_modifications", "collision_resolve"])],
                                       ["sett", rng.choice(["t0", "prev", 1e15, -3.5])], ["synchronize"], ["massless", rng.randint(1, 5)]]))
            else:
                out.append(["nop"])
        return out

    if structural == "reset_after_whfast":
        init["integrator"] = "whfast"
        ops = [["steps", 2], ["snap"], ["reset"], ["integrator", rng.choice(["leapfrog", "ias15", "none"])],
               ["steps", 1], ["snap"], ["steps", 1], ["snap"]]
        for _ in range(max(0, nappend - 3)):
            ops += free_ops(rng.randint(1, 2)) + [["snap"]]
    elif structural == "ias15_reset":
        init["integrator"] = "ias15"
        ops = [["steps", 2], ["snap"], ["reset"], ["integrator", "leapfrog"], ["steps", 1], ["snap"], ["steps", 1], ["snap"]]
        for _ in range(max(0, nappend - 3)):
            ops += free_ops(rng.randint(1, 2)) + [["snap"]]
    elif structural == "remove_all":
        init["integrator"] = rng.choice(["leapfrog", "ias15", "whfast", "none"])
        ops = [["steps", 1], ["snap"], ["remove_all"], ["snap"], ["add", gen_particle(rng, star=True)], ["add", gen_particle(rng)],
               ["steps", 2], ["snap"]]
        for _ in range(max(0, nappend - 3)):
            ops += free_ops(rng.randint(1, 2)) + [["snap"]]
    elif structural == "shrink_zero_reappear":
        init["integrator"] = "whfast"
        ops = [["steps", 1], ["snap"], ["reset"], ["integrator", "leapfrog"], ["steps", 1], ["snap"],
               ["integrator", "whfast"], ["steps", 2], ["snap"], ["reset"], ["snap"]]
    elif structural == "grow_first":
        # array absent in the first snapshot appears later (the "new field" case), then vanishes again
        init["integrator"] = "leapfrog"
        ops = [["snap"], ["integrator", rng.choice(["whfast", "ias15", "janus", "mercurius"])], ["steps", 2], ["snap"],
               ["add", gen_particle(rng)], ["steps", 1], ["snap"], ["reset"], ["integrator", "leapfrog"], ["steps", 1], ["snap"]]
    elif structural == "single_change":
        # every snapshot differs from the first one in exactly one persisted item of one KIND: scalar, one member
        # of one particle (hash only, too), one member of a variational configuration, one element of an
        # integrator array; each change is reverted after its snapshot
        init["integrator"] = rng.choice(["ias15", "whfast", "leapfrog"])
        init["particles"] = [gen_particle(rng, star=True), gen_particle(rng), gen_particle(rng)]
        changes = [["set", "G", 0.75], ["set", "ri_ias15.epsilon", 1e-7], ["set", "exit_max_distance", 55.0],
                   ["hash", 1, 12345], ["hash", 2, 7], ["edit", 1, "x", 0.123], ["edit", 2, "vz", -0.5], ["edit", 0, "m", 1.5],
                   ["edit", 1, "r", 0.01], ["edit", 2, "last_collision", 0.3], ["edit", 1, "ax", 0.25],
                   ["lrescale", -1.0], ["lrescale", 2.5], ["varmember", "index_1st_order_a", 3], ["varpart", 1, "x", 0.5],
                   ["poke", "array", 0, 0.625], ["poke", "array", 5, -1.5], ["set", "dt", 0.0123], ["sett", 0.77]]
        rng.shuffle(changes)
        ops = [["steps", 2]]
        if init["integrator"] in ("ias15", "leapfrog"):
            ops.append(["variation", 1])
        ops.append(["snap"])
        for ch in changes[:max(4, min(len(changes), nappend))]:
            ops += [["change", ch], ["snap"], ["revert"]]
    elif structural == "lazy_arrays":
        # every integrator's lazily allocated persisted arrays: present in the first snapshot (taken after steps),
        # changed by further steps, then the integrator is switched / reset
        kinds_ = ["ias15", "whfast_unsafe", "mercurius_encounter", "bs", "janus", "trace_encounter", "saba", "eos", "sei", "leapfrog"]
        integ = kinds_[(variant // 6) % len(kinds_)] if variant is not None else rng.choice(kinds_)
        init["particles"] = [gen_particle(rng, star=True), gen_particle(rng), gen_particle(rng)]
        pre = []
        if integ == "whfast_unsafe":
            init["integrator"] = "whfast"
            pre = [["set", "ri_whfast.safe_mode", 0], ["set", "ri_whfast.corrector", 11]]
        elif integ in ("mercurius_encounter", "trace_encounter"):
            init["integrator"] = integ.split("_")[0]
            # two planets that start inside each other's Hill sphere: encounter arrays get allocated
            init["particles"] = [gen_particle(rng, star=True), dict(m=1e-3, x=1.0, y=0.0, z=0.0, vx=0.0, vy=1.0, vz=0.0, r=0.0),
                                 dict(m=1e-3, x=1.02, y=0.0, z=0.0, vx=0.0, vy=0.98, vz=0.0, r=0.0)]
            init["dt"] = 0.01
        else:
            init["integrator"] = integ
        ops = pre + [["steps", 3], ["snap"], ["steps", 2], ["snap"], ["synchronize"], ["snap"],
                     ["integrator", rng.choice(["leapfrog", "ias15", "whfast"])], ["steps", 1], ["snap"], ["reset"], ["steps", 1], ["snap"]]
        hist_tag = integ
    elif structural == "time_games":
        # time repeating, going backwards, huge: snapshots whose t equals t0 after other times, t < previous t
        ops = [["snap"], ["steps", 2], ["snap"], ["sett", "t0"], ["snap"], ["steps", 1], ["snap"], ["sett", "prev"], ["snap"],
               ["sett", -3.5], ["snap"], ["sett", "t0"], ["set", "G", 0.5], ["snap"], ["sett", 1e15], ["steps", 1], ["snap"],
               ["setsteps", 2 ** 32 + 5], ["snap"], ["steps", 2], ["snap"], ["setsteps", 2 ** 40 + 1], ["snap"]]
    elif structural == "nothing_changed":
        # consecutive snapshots with no change at all, also right after the first one
        ops = [["snap"], ["snap"], ["snap"], ["steps", 2], ["snap"], ["snap"], ["set", "G", 0.5], ["set", "G", 1.0], ["snap"]]
    elif structural == "roles":
        # N_active < N, test particle types, massless and massive test particles, single active body
        init["particles"] = [gen_particle(rng, star=True)] + [gen_particle(rng) for _ in range(4)]
        init["particles"][3]["m"] = 0.0
        ops = [["set", "N_active", rng.choice([1, 2])], ["set", "testparticle_type", rng.choice([0, 1])], ["steps", 2], ["snap"],
               ["massless", 2], ["steps", 1], ["snap"], ["set", "N_active", 1], ["steps", 1], ["snap"], ["set", "testparticle_type", 1], ["variation_tp"],
               ["varinit", 0.5], ["steps", 1], ["snap"]]
    elif structural == "callbacks":
        init["integrator"] = rng.choice(["leapfrog", "whfast", "ias15"])
        ops = [["snap"], ["callback", "additional_forces"], ["steps", 1], ["snap"], ["callback", "post_timestep_modifications"], ["steps", 1], ["snap"],
               ["callback", "collision_resolve"], ["set", "collision", "direct"], ["steps", 1], ["snap"], ["callback", "heartbeat"], ["steps", 1], ["snap"]]
    elif structural == "variations":
        init["integrator"] = rng.choice(["ias15", "leapfrog"])
        init["particles"] = [gen_particle(rng, star=True), gen_particle(rng), gen_particle(rng)]
        if variant is not None:
            init["integrator"] = "ias15" if (variant // 36) % 2 == 0 else "leapfrog"
        if variant is not None and (variant // 18) % 2 == 0:
            # MEGNO: init_megno() adds its own variational particles and the megno_* fields
            ops = [["steps", 1], ["snap"], ["megno"], ["steps", 2], ["snap"], ["varinit", 0.2], ["steps", 2], ["snap"], ["lrescale", 1.5], ["snap"]]
        else:
            ops = [["steps", 1], ["snap"], ["variation", 1], ["varinit", 0.3], ["steps", 2], ["snap"], ["lrescale", -1.0], ["snap"], ["variation_tp"], ["varinit", -0.7],
                   ["steps", 1], ["snap"]] + ([["variation", 2], ["varinit", 0.1], ["steps", 1], ["snap"]] if init["integrator"] == "ias15" else [])
    elif structural == "huge_n":
        nbig = nappend if nappend >= 100 else 600
        init["integrator"] = "leapfrog"
        init["particles"] = [gen_particle(rng, star=True)] + [dict(m=0.0, x=1.0 + 0.001 * i, y=0.0, z=0.0, vx=0.0, vy=1.0, vz=0.0, r=0.0) for i in range(nbig)]
        ops = [["set", "gravity", "none"], ["snap"], ["steps", 1], ["snap"], ["remove", 5], ["snap"], ["steps", 1], ["snap"]]
    elif structural == "same_time":
        ops = [["snap"], ["set", "G", 0.5], ["snap"], ["steps", 2], ["snap"], ["add", gen_particle(rng)], ["snap"]]
    elif structural == "negzero":
        init["integrator"] = "none"
        ops = [["snap"], ["edit", 0, "x", -0.0], ["snap"], ["edit", 0, "x", 0.0], ["edit", 0, "z", -0.0], ["snap"]]
    elif auto:
        mode = auto
        ops = []
        if rng.chance(0.5):
            ops.append(["snap"])
        dt = init["dt"]
        if mode == "interval":
            ops.append(["auto_interval", dt * rng.choice([1.0, 2.5, 3.0, 7.3, 10.0])])
        else:
            ops.append(["auto_step", rng.randint(1, 6)])
        # direction of integration: forward, backward, or changing between integrate() calls
        direction = rng.choice(["fwd", "fwd", "bwd", "mixed"])
        for seg in range(rng.randint(1, 3)):
            sgn = 1 if direction == "fwd" else -1 if direction == "bwd" else (1 if (seg + rng.randint(0, 1)) % 2 == 0 else -1)
            ops.append(["integrate", sgn * dt * (rng.randint(3, 25) + (0.4 if rng.chance(0.3) else 0.0)), rng.choice([0, 0, 1, None])])
            if rng.chance(0.5):
                ops.append(["snap"])
            if rng.chance(0.3):
                ops += [o for o in free_ops(1) if o[0] not in ("steps", "merge")]
    else:
        for _ in range(nappend):
            ops += free_ops(rng.randint(1, 4)) + [["snap"]]
    return dict(init=init, ops=ops, structural=structural, auto=auto, tag=hist_tag)


def _setpath(obj, path, val):
    parts = path.split(".")
    for p in parts[:-1]:
        obj = getattr(obj, p)
    setattr(obj, parts[-1], val)


def apply_change(sim, ch):
    """one single-item change of the live state; returns a function that undoes it (None: not applicable)"""
    k = ch[0]
    if k == "set":
        obj, parts = sim, ch[1].split(".")
        for q in parts[:-1]:
            obj = getattr(obj, q)
        old = getattr(obj, parts[-1])
        setattr(obj, parts[-1], ch[2])
        return lambda: setattr(obj, parts[-1], old)
    if k == "sett":
        old = sim.t
        sim.t = ch[1]
        return lambda: setattr(sim, "t", old)
    if k == "hash":
        if ch[1] >= sim.N:
            return None
        p = sim.particles[ch[1]]
        old = p.hash.value if hasattr(p.hash, "value") else int(p.hash)
        p.hash = ch[2]
        return lambda: setattr(sim.particles[ch[1]], "hash", old)
    if k == "edit":
        if ch[1] >= sim.N:
            return None
        old = getattr(sim.particles[ch[1]], ch[2])
        setattr(sim.particles[ch[1]], ch[2], ch[3])
        return lambda: setattr(sim.particles[ch[1]], ch[2], old)
    if k == "lrescale":
        if sim.N_var_config == 0:
            return None
        old = sim.var_config[0]._lrescale
        sim.var_config[0]._lrescale = ch[1]
        return lambda: setattr(sim.var_config[0], "_lrescale", old)
    if k == "varmember":
        if sim.N_var_config == 0:
            return None
        old = getattr(sim.var_config[0], ch[1])
        setattr(sim.var_config[0], ch[1], ch[2])
        return lambda: setattr(sim.var_config[0], ch[1], old)
    if k == "varpart":
        if sim.N_var == 0:
            return None
        i = sim.N - sim.N_var + min(ch[1], sim.N_var - 1)
        old = getattr(sim.particles[i], ch[2])
        setattr(sim.particles[i], ch[2], ch[3])
        return lambda: setattr(sim.particles[i], ch[2], old)
    if k == "poke":
        # one element of a persisted integrator array
        if sim.integrator == "whfast" and sim.ri_whfast._N_allocated > 0:
            p = sim.ri_whfast._p_jh[min(ch[2], sim.ri_whfast._N_allocated - 1)]
            old = p.vx
            p.vx = ch[3]
            return lambda: setattr(p, "vx", old)
        if sim.integrator == "ias15" and sim.ri_ias15._N_allocated > ch[2]:
            arr = sim.ri_ias15._csx if ch[2] % 2 else sim.ri_ias15._b.p3
            old = arr[ch[2]]
            arr[ch[2]] = ch[3]
            def undo():
                arr[ch[2]] = old
            return undo
        return None
    return None


def hex64(x):
    return "%016x" % struct.unpack("<Q", struct.pack("<d", x))[0]


LIVE_ATTRS = ["t", "dt", "G", "N", "N_var", "N_active", "steps_done", "simulationarchive_next", "simulationarchive_next_step",
              "simulationarchive_auto_step", "simulationarchive_auto_interval", "dt_last_done", "softening", "exit_max_distance"]


# ------------------------------------------------------------------------------------------ live memory image
_IMG = {}
_DT_SIZE = {0: 8, 1: 4, 2: 4, 3: 4, 4: 8, 5: 8, 7: 24}


def _img_table(rebound):
    """the field table of the library under test + the size of every scalar member taken from the Python mirror of the
    struct (ctypes), NOT from the table's dtype: a dtype that disagrees with the member is reported, the member wins"""
    if "tab" in _IMG:
        return _IMG["tab"]
    import ctypes
    from rebound.binary_field_descriptor import binary_field_descriptor_list
    _DT_SIZE[8] = ctypes.sizeof(rebound.Particle)
    _DT_SIZE[15] = 4 * ctypes.sizeof(rebound.Particle)
    tab, mism, resolved = [], [], 0
    for fd in binary_field_descriptor_list():
        name, dtype = fd.name.decode("ascii", "replace"), int(fd.dtype)
        msize = None
        if dtype in _DT_SIZE:
            cls, off, ok = rebound.Simulation, 0, True
            for part in name.split("."):
                ft = dict((f_[0], f_[1]) for f_ in getattr(cls, "_fields_", []))
                cand = part if part in ft else ("_" + part if "_" + part in ft else None)
                if cand is None:
                    ok = False
                    break
                cf = getattr(cls, cand)
                off += cf.offset
                msize = cf.size
                cls = ft[cand]
            if ok and off == int(fd.offset):
                resolved += 1
                if msize != _DT_SIZE[dtype]:
                    mism.append([name, int(fd.type), _DT_SIZE[dtype], msize])
            else:
                msize = None
        tab.append((int(fd.type), dtype, name, int(fd.offset), int(fd.offset_N), int(fd.element_size), msize))
    _IMG["tab"], _IMG["mismatch"], _IMG["resolved"] = tab, mism, resolved
    return tab


def image_recs(rebound, s):
    """the persisted state read from MEMORY (struct members and the arrays they point to), field by field of the table,
    without going through reb_simulation_save_to_stream: [(id, bytes, 0)] like parse_stream"""
    import ctypes
    base = ctypes.addressof(s)
    recs = []
    for ty, dtype, name, off, offn, esz, msize in _img_table(rebound):
        if dtype in _DT_SIZE:
            recs.append((ty, ctypes.string_at(base + off, msize or _DT_SIZE[dtype]), 0))
        elif dtype in (9, 10):
            n = ctypes.c_uint.from_address(base + offn).value
            ptr = ctypes.c_void_p.from_address(base + off).value
            if n * esz and ptr:
                recs.append((ty, ctypes.string_at(ptr, n * esz), 0))
        elif dtype == 16:
            ptr = ctypes.c_void_p.from_address(base + off).value
            if ptr:
                recs.append((ty, ctypes.string_at(ptr, esz), 0))
        elif dtype == 11:
            n = ctypes.c_uint.from_address(base + offn).value
            if n * esz:
                ps = [ctypes.c_void_p.from_address(base + off + 8 * i).value for i in range(7)]
                if all(ps):
                    recs.append((ty, b"".join(ctypes.string_at(p_, n * esz // 7) for p_ in ps), 0))
    return recs


def image_canon(rebound, s):
    d = canon(image_recs(rebound, s))
    if PJH in d:
        d[PJH] = mask_pjh(d[PJH])
    return d


def image_vs_stream(img, path):
    """ids in which the serialisation at `path` differs from the memory image (87 = function pointer flag is computed, not stored)"""
    d = canon(parse_stream(open(path, "rb").read())[1])
    d.pop(87, None)
    if PJH in d:
        d[PJH] = mask_pjh(d[PJH])
    return [[k, len(img.get(k, b"")), len(d.get(k, b""))] for k in diff_canon(img, d)]


def live_values(s):
    """values of scalar members read from the struct itself (not through a serialisation): what a restored snapshot
    must show — a writer that truncates a field truncates it in every stream, only the live struct knows better"""
    out = {}
    for a in LIVE_ATTRS:
        v = getattr(s, a)
        out[a] = hex64(v) if isinstance(v, float) else int(v)
    out["ias15_iterations_max_exceeded"] = int(s.ri_ias15._iterations_max_exceeded)
    if s.N > 0:
        q = s.particles[s.N - 1]
        out["last_particle"] = [hex64(q.x), hex64(q.vy), hex64(q.m), int(q.hash.value)]
    return out


def run_history(rebound, hist, wd, load_back=True, keep_copies=False):
    """executes the history on the real code.  Writes wd/arch.bin, wd/s<k>.bin (serialisation of the live
    state at append k), wd/l<k>.bin (serialisation of snapshot k as loaded by the Python class), wd/meta.json"""
    import ctypes, warnings
    warnings.filterwarnings("ignore")
    fn = os.path.join(wd, "arch.bin")
    sim = rebound.Simulation()
    for p in hist["init"]["particles"]:
        sim.add(**p)
    sim.integrator = hist["init"]["integrator"]
    sim.dt = hist["init"]["dt"]
    meta = dict(appends=[], skipped=[], events=[])
    kept = []
    state = dict(auto=None, hb_on=False)

    def capture(s, kind):
        k = len(meta["appends"])
        p = os.path.join(wd, "s%d.bin" % k)
        if os.path.exists(p):
            os.remove(p)
        s.save_to_file(p)
        img = image_canon(rebound, s)
        idf = image_vs_stream(img, p)
        cp = s.copy()
        selfeq = bool(cp == s)
        kept.append(cp)
        kept_img[k] = img
        meta["appends"].append(dict(kind=kind, t=hex64(s.t), steps=int(s.steps_done), N=int(s.N), selfeq=selfeq, live=live_values(s), image_diff=idf))

    caps = []   # (steps_done, t, path, copy) captured in the heartbeat during integrate
    kept_img = {}   # append number -> memory image of the live state at that append

    def manual_snap():
        state.setdefault("t0", sim.t)
        state["tprev"] = sim.t
        sim.save_to_file(fn)
        if keep_copies:
            import shutil
            shutil.copy(fn, os.path.join(wd, "a%d.bin" % len(meta["appends"])))
        try:
            capture(sim, "manual")
        except Exception as e:
            # the snapshot is in the archive; if the live state cannot be serialised / copied a second time the append
            # is still accounted for (reduced oracle for this history)
            k = len(meta["appends"]) if len(kept) == len(meta["appends"]) else len(meta["appends"]) - 1
            del kept[k:]
            del meta["appends"][k:]
            p_ = os.path.join(wd, "s%d.bin" % k)
            if os.path.exists(p_):
                os.remove(p_)
            kept.append(None)
            meta["appends"].append(dict(kind="manual", t=hex64(sim.t), steps=int(sim.steps_done), N=int(sim.N), selfeq=False, nocapture=True))
            meta["events"].append("capture-exception:" + repr(e)[:160])

    def hb(simp):
        s = simp.contents
        i = len(caps)
        p = os.path.join(wd, "c%d.bin" % i)
        if os.path.exists(p):
            os.remove(p)
        s.save_to_file(p)
        img = image_canon(rebound, s)
        cp = s.copy()
        caps.append(dict(steps=int(s.steps_done), t=hex64(s.t), path=p, copy=cp, selfeq=bool(cp == s), img=img, image_diff=image_vs_stream(img, p)))

    def adv_next(tsnap):
        """what reb_simulationarchive_heartbeat does to simulationarchive_next before it saves (pinned source: one
        interval; repaired source, hist["cad_repaired"]: output times that have already passed are skipped)"""
        import math
        sg = 1.0 if sim.dt > 0 else -1.0
        iv = state["auto"][1]
        n = state["next"] + sg * iv
        if hist.get("cad_repaired") and sg * n <= sg * tsnap and iv > 0:
            n += sg * (math.floor(sg * (tsnap - n) / iv) + 1.0) * iv
            if sg * n <= sg * tsnap:
                n += sg * iv
        state["next"] = n

    def mark(txt):
        with open(os.path.join(wd, "progress"), "w") as f:
            f.write(txt)

    for iop, op in enumerate(hist["ops"]):
        try:
            o = op[0]
            mark("%d %s" % (iop, o))
            if o == "steps":
                if sim.N > 0:
                    sim.steps(op[1])
            elif o == "add":
                # (real particles must precede variational ones; BS keeps an ODE sized for the old N)
                if sim.N_var > 0:
                    meta["skipped"].append(op)
                else:
                    sim.add(**op[1])
                    if sim.integrator == "bs":
                        sim.reset_integrator()
            elif o == "remove":
                if sim.N > 1 and op[1] < sim.N and sim.N_var == 0:
                    sim.remove(op[1])
                    if sim.integrator == "bs":
                        sim.reset_integrator()
                else:
                    meta["skipped"].append(op)
            elif o == "remove_all":
                while sim.N > 0:
                    sim.remove(0)
                if sim.integrator == "bs":
                    sim.reset_integrator()
            elif o == "integrator":
                if state.get("order2") or (sim.N_var > 0 and op[1] not in ("ias15", "leapfrog", "none")):
                    # with variational particles present stay within the integrators that support them in
                    # every configuration (WHFast-family kernels index p_jh by var_config and overflow otherwise)
                    meta["skipped"].append(op)
                else:
                    sim.integrator = op[1]
            elif o == "reset":
                sim.reset_integrator()
            elif o == "set":
                if (op[1] == "N_active" and op[2] > sim.N) or (op[1] == "gravity" and sim.N_var > 0):
                    meta["skipped"].append(op)
                else:
                    _setpath(sim, op[1], op[2])
            elif o == "variation":
                if sim.gravity != "basic" or sim.integrator not in ("ias15", "leapfrog", "none"):
                    meta["skipped"].append(op)
                elif sim.N > 0 and sim.N_var == 0 and op[1] == 1:
                    sim.add_variation()
                elif sim.N > 0 and op[1] == 2 and sim.integrator == "ias15":
                    state["order2"] = True
                    v1 = sim.add_variation()
                    sim.add_variation(order=2, first_order=v1)
                else:
                    meta["skipped"].append(op)
            elif o == "merge":
                if sim.N >= 1 and sim.N_var == 0 and sim.integrator not in ("bs", "trace", "mercurius"):
                    sim.collision = "direct"
                    sim.collision_resolve = "merge"
                    sim.add(m=1e-5, x=7.0, y=0.0, z=0.0, vx=0.0, vy=0.3, r=0.05)
                    sim.add(m=1e-5, x=7.0 + 0.02, y=0.0, z=0.0, vx=-0.5, vy=0.3, r=0.05)
                    n0 = sim.N
                    sim.steps(2)
                    meta["events"].append("merge:%d->%d" % (n0, sim.N))
                else:
                    meta["skipped"].append(op)
            elif o == "edit":
                if op[1] < sim.N:
                    setattr(sim.particles[op[1]], op[2], op[3])
                else:
                    meta["skipped"].append(op)
            elif o == "varinit":
                if sim.N_var > 0:
                    for i in range(sim.N - sim.N_var, sim.N):
                        q = sim.particles[i]
                        q.x += op[1] * (i + 1); q.vy -= 0.5 * op[1]; q.m += 0.01 * op[1]
                    meta["events"].append("varinit")
                else:
                    meta["skipped"].append(op)
            elif o == "variation_tp":
                if sim.gravity == "basic" and sim.integrator in ("ias15", "leapfrog", "none") and sim.N - sim.N_var > 1 and not state.get("order2"):
                    sim.add_variation(testparticle=sim.N - sim.N_var - 1)
                    meta["events"].append("variation_tp")
                else:
                    meta["skipped"].append(op)
            elif o == "megno":
                if sim.gravity == "basic" and sim.integrator in ("ias15", "leapfrog") and sim.N_var == 0 and sim.N > 1:
                    sim.init_megno()
                    meta["events"].append("megno")
                else:
                    meta["skipped"].append(op)
            elif o == "callback":
                cbs = state.setdefault("cbs", [])
                if op[1] == "collision_resolve":
                    def cr(simp, col):
                        return 0
                    sim.collision_resolve = cr
                    cbs.append(cr)
                else:
                    def cb(simp):
                        return None
                    setattr(sim, op[1], cb)
                    cbs.append(cb)
                meta["events"].append("callback:" + op[1])
            elif o == "sett":
                if op[1] == "t0":
                    tv = state.get("t0", sim.t)
                elif op[1] == "prev":
                    tv = state.get("tprev", sim.t)
                else:
                    tv = op[1]
                sim.t = tv
                meta["events"].append("sett")
            elif o == "synchronize":
                sim.synchronize()
            elif o == "setsteps":
                sim.steps_done = op[1]
                sim.ri_ias15._iterations_max_exceeded = op[1] + 3
                meta["events"].append("setsteps")
            elif o == "massless":
                if 0 < op[1] < sim.N - sim.N_var:
                    sim.particles[op[1]].m = 0.0
                else:
                    meta["skipped"].append(op)
            elif o == "hash":
                if op[1] < sim.N:
                    sim.particles[op[1]].hash = op[2]
                else:
                    meta["skipped"].append(op)
            elif o == "lrescale":
                if sim.N_var_config > 0:
                    sim.var_config[0]._lrescale = op[1]
                else:
                    meta["skipped"].append(op)
            elif o == "change":
                state["undo"] = apply_change(sim, op[1])
                if state["undo"] is None:
                    meta["skipped"].append(op)
                else:
                    meta["events"].append("change:" + op[1][0])
            elif o == "revert":
                if state.get("undo"):
                    state["undo"]()
                    state["undo"] = None
            elif o == "snap":
                manual_snap()
            elif o == "auto_interval":
                if sim.simulationarchive_auto_interval != op[1]:
                    state["next"] = sim.t
                sim.save_to_file(fn, interval=op[1])
                state["auto"] = ("interval", op[1], hex64(sim.t))
                meta["events"].append("auto_interval")
            elif o == "auto_step":
                if sim.simulationarchive_auto_step != op[1]:
                    state["next"] = int(sim.steps_done)
                sim.save_to_file(fn, step=op[1])
                state["auto"] = ("step", op[1], int(sim.steps_done))
                meta["events"].append("auto_step")
            elif o == "integrate":
                # automatic snapshots are written inside integrate(); the heartbeat (called after every step,
                # nothing changes until the archive heartbeat that follows) captures the live state
                del caps[:]
                nb0 = len(parse_archive(open(fn, "rb").read())) if os.path.exists(fn) else 0
                nocap = op[2] != 0
                if nocap:
                    # exact_finish_time = 1 / omitted: the last step is shortened (dt edited between the heartbeats), the live
                    # state of an automatic snapshot cannot be captured from outside: count / times / cadence only
                    def hb_light(simp):
                        s_ = simp.contents
                        caps.append(dict(steps=int(s_.steps_done), t=hex64(s_.t), path=None, copy=None, selfeq=False))
                    sim.heartbeat = hb_light
                else:
                    sim.heartbeat = hb
                try:
                    if op[2] is None:
                        sim.integrate(sim.t + op[1])
                    else:
                        sim.integrate(sim.t + op[1], exact_finish_time=op[2])
                except Exception as e:
                    # integrate() ended with an exception (escape, no particles left, ...): snapshots taken up to
                    # that point are in the archive and are accounted for below
                    meta["events"].append("integrate-exception:" + repr(e)[:100])
                    nocap = True
                # final state (after synchronize): the archive heartbeat at the end of integrate sees this one
                hbtrace = [(c["steps"], c["t"]) for c in caps]
                fin_p = os.path.join(wd, "cfin.bin")
                if os.path.exists(fin_p):
                    os.remove(fin_p)
                sim.save_to_file(fin_p)
                fcp = sim.copy()
                fimg = image_canon(rebound, sim)
                fin = dict(steps=int(sim.steps_done), t=hex64(sim.t), path=fin_p, copy=fcp, selfeq=bool(fcp == sim), img=fimg, image_diff=image_vs_stream(fimg, fin_p))
                if nocap:
                    state["exact_runs"] = state.get("exact_runs", 0) + 1
                blobs = parse_archive(open(fn, "rb").read()) if os.path.exists(fn) else []
                new = blobs[nb0:]
                recs0 = blobs[0]["recs"] if blobs else []
                for bl in new:
                    recs = overlay(recs0, bl["recs"]) if bl["off"] else bl["recs"]
                    sd = struct.unpack("<Q", rec_value(recs, STEPS))[0]
                    st = struct.unpack("<i", rec_value(recs, STATUS))[0]
                    cand = [c for c in caps if c["steps"] == sd]
                    # the snapshot taken after the loop sees the final (synchronised) state
                    src = fin if (sd == fin["steps"] and (st >= 0 or not cand)) else (cand[-1] if cand else None)
                    k = len(meta["appends"])
                    p = os.path.join(wd, "s%d.bin" % k)
                    if src is None or nocap:
                        tb = rec_value(recs, T_ID)
                        meta["appends"].append(dict(kind="auto", t=tb[::-1].hex(), steps=int(sd), N=-1, selfeq=False, nocapture=True))
                        kept.append(None)
                        if state["auto"][0] == "interval":
                            adv_next(struct.unpack("<d", tb)[0])
                        else:
                            state["next"] = state["next"] + state["auto"][1]
                        continue
                    # the archive heartbeat advances the cadence state *before* it saves: the prescribed
                    # next output time / step (previous + interval, exactly) is part of the snapshot
                    sb = open(src["path"], "rb").read()
                    cp = src["copy"] if src is not fin else src["copy"].copy()
                    if state["auto"][0] == "interval":
                        adv_next(struct.unpack("<d", struct.pack("<Q", int(src["t"], 16)))[0])
                        sb = patch_record(sb, 48, struct.pack("<d", state["next"]))
                        cp.simulationarchive_next = state["next"]
                    else:
                        state["next"] = state["next"] + state["auto"][1]
                        sb = patch_record(sb, 136, struct.pack("<Q", state["next"]))
                        cp.simulationarchive_next_step = state["next"]
                    with open(p, "wb") as f:
                        f.write(sb)
                    kept.append(cp)
                    if src.get("img") is not None:
                        im = dict(src["img"])
                        if state["auto"][0] == "interval":
                            im[48] = struct.pack("<d", state["next"])
                        else:
                            im[136] = struct.pack("<Q", state["next"])
                        kept_img[k] = im
                    meta["appends"].append(dict(kind="auto", t=src["t"], steps=src["steps"], N=-1, selfeq=src["selfeq"], image_diff=src.get("image_diff", [])))
                meta["events"].append(dict(integrate=op[1], exact=op[2], hb=hbtrace, fin=(fin["steps"], fin["t"]),
                                           dt=hex64(sim.dt), auto=state["auto"], nnew=len(new), dir=(1 if op[1] > 0 else -1),
                                           next_after=hex64(sim.simulationarchive_next),
                                           next_step_after=int(sim.simulationarchive_next_step)))
                for c in caps:
                    if c["path"] and os.path.exists(c["path"]):
                        os.remove(c["path"])
            elif o == "nop":
                pass
        except Exception as e:
            meta["skipped"].append([op[0], "exception", repr(e)[:200]])
    # the run itself is complete: record it, then read back with the real code (Python class); a death of
    # the reader leaves meta.json without back.json
    with open(os.path.join(wd, "meta.json"), "w") as f:
        json.dump(meta, f)
    mark("%d readback" % len(hist["ops"]))
    back = dict(error=None)
    if load_back and os.path.exists(fn):
        try:
            sa = rebound.Simulationarchive(fn)
            nb = int(sa.nblobs)
            back["nblobs"] = nb
            back["t"] = [hex64(sa.t[i]) for i in range(nb)]
            back["offset"] = [int(sa.offset[i]) for i in range(nb)]
            back["eq"] = []
            back["vals"] = []
            restore = hist.get("restore") or "sa[k]"
            back["restore"] = restore
            it = iter(sa) if restore == "iteration" else None
            for k in range(nb):
                if restore == "Simulation(file,k)":
                    s = rebound.Simulation(fn, snapshot=k)
                elif restore == "Simulation(sa,k)":
                    s = rebound.Simulation(sa, snapshot=k)
                elif restore == "iteration":
                    s = next(it)
                else:
                    s = sa[k]
                back["vals"].append(live_values(s))
                if k in kept_img:
                    li = image_canon(rebound, s)
                    back.setdefault("image_diff", {})[str(k)] = [[i_, len(kept_img[k].get(i_, b"")), len(li.get(i_, b""))] for i_ in diff_canon(kept_img[k], li)]
                lp = os.path.join(wd, "l%d.bin" % k)
                if os.path.exists(lp):
                    os.remove(lp)
                s.save_to_file(lp)
                if k < len(kept) and kept[k] is not None:
                    back["eq"].append(bool(s == kept[k]))
                else:
                    back["eq"].append(None)
                del s
            del sa
        except Exception as e:
            back["error"] = repr(e)[:300]
    with open(os.path.join(wd, "back.json"), "w") as f:
        json.dump(back, f)
    meta["back"] = back
    return meta


def image_table_report(rebound):
    _img_table(rebound)
    return dict(fields=len(_IMG["tab"]), scalar_members_resolved=_IMG["resolved"], dtype_size_mismatch=_IMG["mismatch"])


def residual_tail_case(c, rebound, run_driver, drv, V, wd, rng, variant):
    """a complete trailer chain followed by residual bytes: a crash persisted the file length but the last blocks
    read back as zeros (or garbage) over MORE than one snapshot.  Restart from sa[-1] and keep appending: every
    append must land at the end of the last valid snapshot (theorem c07_append_position_any_tail), the final archive
    must expose the snapshots of the uninterrupted run, and the model's append (corruption test + repair walk) must
    reproduce the bytes of every restarted append.  -> dict(ok, detail) ; violations are reported through `c`"""
    os.makedirs(wd, exist_ok=True)
    full = os.path.join(wd, "full.bin")
    integ = ["whfast", "leapfrog", "ias15", "saba"][variant % 4]
    nsn = 8
    m = 4                       # snapshots 0..m-1 survive
    parts = [gen_particle(rng, star=True), gen_particle(rng), gen_particle(rng)]

    def mk():
        sim = rebound.Simulation()
        for p in parts:
            sim.add(**p)
        sim.integrator = integ
        sim.dt = 0.01
        return sim

    def fullrun():
        import warnings
        warnings.filterwarnings("ignore")
        sim = mk()
        for i in range(nsn):
            sim.save_to_file(full)
            shutil.copy(full, os.path.join(wd, "a%d.bin" % i))
            sim.steps(2 + i)
    import shutil
    if fork_run(fullrun, timeout=60) != 0:
        return None
    a_hi = open(os.path.join(wd, "a%d.bin" % (m + 1)), "rb").read()
    a_lo = open(os.path.join(wd, "a%d.bin" % (m - 1)), "rb").read()
    blobs = parse_archive(a_hi)
    if len(blobs) != m + 2:
        return None
    end = blobs[m - 1]["end"]
    kind = ["zeros_link_kept", "zeros_link_cleared", "garbage", "zeros_long"][(variant // 4) % 4]
    if kind == "zeros_link_kept":          # trailer m-1 still points to the lost snapshot m
        img_b = a_hi[:end] + bytes(len(a_hi) - end)
    elif kind == "zeros_link_cleared":     # trailer m-1 says "last" and zeros follow
        img_b = a_lo + bytes(len(a_hi) - len(a_lo))
    elif kind == "garbage":
        tail = bytes(rng.randint(0, 255) for _ in range(len(a_hi) - end - 4)) + b"\x07\x00\x00\x01"
        img_b = a_hi[:end] + tail
    else:
        img_b = a_hi[:end] + bytes(3 * (len(a_hi) - end) + 1000)
    img = os.path.join(wd, "img.bin")
    open(img, "wb").write(img_b)

    def restart():
        import warnings
        warnings.filterwarnings("ignore")
        sim = rebound.Simulation(img, snapshot=-1)
        sim.steps(2 + (m - 1))
        for i in range(m, nsn):
            shutil.copy(img, os.path.join(wd, "before%d.bin" % i))
            p = os.path.join(wd, "rs%d.bin" % i)
            if os.path.exists(p):
                os.remove(p)
            sim.save_to_file(p)
            sim.save_to_file(img)
            shutil.copy(img, os.path.join(wd, "after%d.bin" % i))
            sim.steps(2 + i)
    rc = fork_run(restart, timeout=60)
    out = os.path.join(wd, "cmp.json")
    if os.path.exists(out):
        os.remove(out)
    rc2 = fork_run(py_compare, rebound, img, full, out, wd) if rc == 0 else 1
    det = json.load(open(out)) if os.path.exists(out) else dict(rc=rc)
    ok = rc == 0 and rc2 == 0 and det.get("error") is None and det["n"][0] == det["n"][1] == nsn and det["t"][0] == det["t"][1] and all(not x for x in det["diff"])
    rep = dict(kind=kind, integrator=integ, particles=parts, surviving=m, written=nsn, restart_rc=rc, exposed=det.get("n"), diff=det.get("diff"))
    c.count(("residual-tail", kind, integ))
    if not ok:
        c.violation("restart-differs:residual-tail", "a complete chain of %d snapshots followed by a damaged tail (%s) longer than one snapshot; restart from sa[-1] and "
                    "%d more appends: archive exposes %s snapshots, %d were written" % (m, kind, nsn - m, (det.get("n") or ["?"])[0], nsn), rep)
    # tie: the model's append on every intermediate file
    lines, idx = [], []
    for i in range(m, nsn):
        b_, s_, a_ = (os.path.join(wd, x % i) for x in ("before%d.bin", "rs%d.bin", "after%d.bin"))
        if all(os.path.exists(x) for x in (b_, s_, a_)):
            lines.append("append %s %s %s %s" % (V, b_, s_, os.path.join(wd, "m%d.bin" % i)))
            idx.append(i)
    outs = run_driver(drv, lines) if lines else []
    neq = 0
    for i, o in zip(idx, outs):
        mp = os.path.join(wd, "m%d.bin" % i)
        if not (o.startswith("ok") and os.path.exists(mp) and open(mp, "rb").read() == open(os.path.join(wd, "after%d.bin" % i), "rb").read()):
            neq += 1
            c.corr_break("model append on archive ++ residual tail (%s, append %d) differs from what the real code wrote (%s)" % (kind, i, o[:80]), rep)
    shutil.rmtree(wd, ignore_errors=True)
    return dict(ok=ok, kind=kind, model_appends_equal=len(idx) - neq)


def only_sign_of_zero(a, b):
    """two particle arrays differ only in the sign bit of zero-valued doubles"""
    if len(a) != len(b) or len(a) % 8:
        return False
    seen = False
    for i in range(0, len(a), 8):
        x, y = a[i:i + 8], b[i:i + 8]
        if x != y:
            if x[:7] == bytes(7) and y[:7] == bytes(7) and x[7] in (0, 0x80) and y[7] in (0, 0x80):
                seen = True
            else:
                return False
    return seen


def fork_run(fn, *args, timeout=8):
    """run fn(*args) in a forked child; returns (exit_code or -signal, timed_out)"""
    sys.stdout.flush()
    sys.stderr.flush()
    pid = os.fork()
    if pid == 0:
        try:
            signal.alarm(timeout)
            fn(*args)
            os._exit(0)
        except BaseException:
            try:
                traceback.print_exc()
            finally:
                os._exit(3)
    _, st = os.waitpid(pid, 0)
    if os.WIFSIGNALED(st):
        return -os.WTERMSIG(st)
    return os.WEXITSTATUS(st)
