"""C13 translator: reads the guard structure of reb_simulation_remove_particle from
src/particle.c and returns the `RmVariant` flags of lean/RV/Model/Collision.lean together with
item counts (every marker must be found exactly once, else the extraction is reported broken).

The flags only describe source-level variants that leave the C13 statement untouched (order of
the guards, N_active bookkeeping); the differential tie checks on every run that the model with
these flags reproduces the compiled function."""
import os, re


def function_body(src, name):
    m = re.search(r"^int\s+" + re.escape(name) + r"\s*\([^)]*\)\s*\{", src, flags=re.M)
    if not m:
        return None
    i = m.end()
    depth = 1
    while i < len(src) and depth:
        if src[i] == "{":
            depth += 1
        elif src[i] == "}":
            depth -= 1
        i += 1
    return src[m.end():i - 1]


def block_after(body, pos):
    """text of the brace block that opens at/after pos"""
    i = body.index("{", pos)
    j = i + 1
    depth = 1
    while j < len(body) and depth:
        if body[j] == "{":
            depth += 1
        elif body[j] == "}":
            depth -= 1
        j += 1
    return body[i + 1:j - 1], j


def remove_variant(repo):
    src = open(os.path.join(repo, "src", "particle.c")).read()
    body = function_body(src, "reb_simulation_remove_particle")
    problems = []
    if body is None:
        return None, {"functions": 0}, ["reb_simulation_remove_particle not found in particle.c"]
    counts = {"functions": 1}
    marks = {
        "range": r"was out of range",
        "last": r"if\s*\(\s*r->N\s*==\s*1\s*\)",
        "nvar": r"if\s*\(\s*r->N_var\s*\)",
        "sorted": r"if\s*\(\s*keep_sorted\s*\)\s*\{",
        "sorted_tree_err": r"cannot remove a particle a tree and keep the particles sorted",
        "shift": r"r->particles\[j\]\s*=\s*r->particles\[j\+1\]",
        "flag": r"\.y\s*=\s*nan\(",
        "swap": r"r->particles\[index\]\s*=\s*r->particles\[r->N\]",
    }
    pos = {}
    for k, rx in marks.items():
        ms = list(re.finditer(rx, body))
        counts[k] = len(ms)
        if len(ms) != 1:
            problems.append("marker %s found %d times (expected 1)" % (k, len(ms)))
        else:
            pos[k] = ms[0].start()
    if problems:
        return None, counts, problems
    last_block, _ = block_after(body, pos["last"])
    flags = dict(
        rangeFirst=int(pos["range"] < pos["last"]),
        lastResetsNActive=int("N_active" in last_block),
        lastDeletesTree=int("reb_tree_delete" in last_block),
        sortedTreeErrFirst=int(pos["sorted_tree_err"] < pos["shift"]),
        unsortedClampNActive=int("N_active" in body[pos["swap"]:pos["swap"] + 400].split("return")[0]),
    )
    # structural expectations shared by all variants
    if not (pos["last"] < pos["nvar"] < pos["sorted"] < pos["shift"] < pos["flag"] < pos["swap"]):
        problems.append("unexpected order of the guards in reb_simulation_remove_particle")
    return flags, counts, problems


if __name__ == "__main__":
    import sys
    print(remove_variant(sys.argv[1] if len(sys.argv) > 1 else "/repo"))
