#!/bin/bash
# rv/runall.sh [Cxx ...]  — run the quick tier of the given (default: all) checks against /repo, one line per check
cd "$(dirname "$0")/.."
ps="$@"; [ -z "$ps" ] && ps=$(seq -f "C%02g" 1 20)
for p in $ps; do
  s=$(date +%s); timeout 1500 ./check $p > /tmp/all-$p.log 2>&1; rc=$?; e=$(date +%s)
  echo "$p rc=$rc wall=$((e-s))s known=$(grep -c '^KNOWN-FINDING' /tmp/all-$p.log) $(grep '^VIOLATION' /tmp/all-$p.log | head -1 | cut -c1-200) $(grep -h 'lean:' /tmp/all-$p.log | tail -1 | sed 's/.*lean: //' | cut -c1-80)"
done
