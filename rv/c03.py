"""C03 — Kepler propagation is exact for every two-body orbit and time step; the step
always terminates and never yields NaN / infinite coordinates.

proof:   lean/RV/Props/C03.lean  (table = 1/n!, Horner series = truncated Stumpff series,
         duplication preserves the Stumpff relations, G-relations, f-g update conserves
         energy / angular momentum / Laplace vector and lands at radius r0+η0G1+ζ0G2,
         mass parameter per coordinate system, termination of the halving loop over an
         Archimedean field) about lean/RV/Model/Kepler.lean + lean/RV/Gen/C03Table.lean
tie:     the same model on IEEE doubles (drv_c03) vs the exported reb_whfast_kepler_solver (with and
         without a variational particle), reb_whfast_kepler_step (4 coordinate systems),
         reb_integrator_mercurius_kepler_step, reb_integrator_trace_whfast_step on generated orbits driving
         every branch.  On the pinned tree all pairs are bit-identical; pairs that are not are judged
         against the conditioned rounding unit (C03 is a "to rounding error" property).
search:  the real code (solver, tangent map, and one full sim.step() of WHFast x4 coordinate systems, SABA,
         MERCURIUS, TRACE) against a 50-digit classical-element propagation (mpmath, python3-vt)

Every call into the real solver runs in a child process under a watchdog: the solver can hang
(finding F14).
"""
import ctypes, json, math, os, select, subprocess, sys, threading, time
sys.path.insert(0, os.path.dirname(os.path.abspath(__file__)))
from common import *
import extract_c03

HERE = os.path.abspath(__file__)
REFPY = os.path.join(ROOT, "ref", "C03_kepler_ref.py")
COORDS = ["jacobi", "dh", "whds", "bary"]
COORD_PY = {"jacobi": "jacobi", "dh": "democraticheliocentric", "whds": "whds", "bary": "barycentric"}
EPS = 2.220446049250313e-16


# ============================================================================ worker (child process)
def _noop(*a):
    return None


def run_sequence(rebound, sp):
    """a two-body (or star + many test particles) history on the REAL code: options, callbacks, variational
    particle, and a list of actions (steps / integrate / synchronize / restore / switch / set dt / user edit).
    Returns check points: physical time elapsed since the previous one and the state(s) relative to the star."""
    import pickle, tempfile
    F6 = ("x", "y", "z", "vx", "vy", "vz")
    clib = rebound.clibrebound

    def configure(sim, integ, coord, opts):
        sim.integrator = integ
        if integ == "whfast":
            w = sim.ri_whfast
            w.coordinates = COORD_PY[coord]
            for k, dflt in (("safe_mode", 1), ("keep_unsynchronized", 0), ("corrector", 0), ("corrector2", 0)):
                setattr(w, k, opts.get(k, dflt))
            w.kernel = opts.get("kernel", "default")
        elif integ == "saba":
            sim.ri_whfast.coordinates = "jacobi"      # SABA requires it (and says so)
            if "type" in opts:
                sim.ri_saba.type = opts["type"]
            for k, dflt in (("safe_mode", 1), ("keep_unsynchronized", 0)):
                setattr(sim.ri_saba, k, opts.get(k, dflt))
        elif integ == "mercurius":
            for k in ("safe_mode", "r_crit_hill"):
                if k in opts:
                    setattr(sim.ri_mercurius, k, opts[k])
            if "L" in opts:
                sim.ri_mercurius.L = opts["L"]
        elif integ == "trace":
            for k in ("r_crit_hill",):
                if k in opts:
                    setattr(sim.ri_trace, k, opts[k])
        elif integ == "whfast512":
            sim.exact_finish_time = 0          # required by the integrator (it says so)
            for k in ("N_systems", "gr_potential"):
                if k in opts:
                    setattr(sim.ri_whfast512, k, opts[k])
        sim.ri_whfast._timestep_warning = 1

    def callbacks(sim):
        sim.heartbeat = _noop
        sim.pre_timestep_modifications = _noop
        sim.post_timestep_modifications = _noop
        sim.additional_forces = _noop
        sim.force_is_velocity_dependent = 1

    sim = rebound.Simulation()
    sim.G = sp["G"]
    off = sp["off"]
    sim.add(m=sp["m0"], x=off[0], y=off[1], z=off[2], vx=off[3], vy=off[4], vz=off[5])
    bodies = sp["bodies"]                      # list of (m, 6-state relative to the star)
    for m, st in bodies:
        sim.add(m=m, x=off[0] + st[0], y=off[1] + st[1], z=off[2] + st[2], vx=off[3] + st[3], vy=off[4] + st[4], vz=off[5] + st[5])
    sim.N_active = sp["nactive"]
    sim.testparticle_type = sp["tpt"]
    sim.t = sp.get("t0", 0.0)
    sim.dt = sp["dt"]
    integ, coord, opts = sp["integ"], sp["coord"], sp["opts"]
    if sp.get("spelling"):
        sim.integrator = sp["spelling"]            # a public Python spelling (shortcut / composite name), nothing else configured
        sim.ri_whfast._timestep_warning = 1
    else:
        configure(sim, integ, coord, opts)
    if sp.get("debug_operator_kepler") is not None:
        f_ = clib.reb_integrator_whfast_debug_operator_kepler
        f_.argtypes = [ctypes.c_void_p, ctypes.c_double]
        f_.restype = None
    if sp.get("var") is not None:
        v = sim.add_variation()          # WHFast supports full first-order variations only
        for k, val in zip(F6, sp["var"]):
            setattr(v.particles[1], k, val)
    if sp.get("callbacks"):
        callbacks(sim)

    def rel(sim):
        ps = sim.particles
        a = [getattr(ps[0], k) for k in F6]
        out = []
        for i in range(1, len(bodies) + 1):
            out.append([getattr(ps[i], k) - a[q] for q, k in enumerate(F6)])
        return out

    def varstate(sim):
        if sp.get("var") is None:
            return None
        vp = sim.var_config[0].particles
        return [getattr(vp[1], k) - getattr(vp[0], k) for k in F6]

    cps = []
    el = 0.0
    path = 0.0          # sum of |dt| over the steps taken since the last check point (rounding grows with it, not with the net time)
    tmode = 0
    for act in sp["actions"]:
        kind = act[0]
        if integ == "trace" and sim.steps_done > 0:
            tmode |= int(sim.ri_trace._current_C) + (2 if int(sim.ri_trace._encounter_N) > 1 else 0)
        if integ == "mercurius" and sim.steps_done > 0 and int(sim.ri_mercurius._encounter_N) > 1:
            tmode |= 2
        if kind == "steps":
            clib.reb_simulation_steps(ctypes.byref(sim), ctypes.c_uint(act[1]))
            el += act[1] * sim.dt
            path += abs(act[1] * sim.dt)
        elif kind == "integrate":
            target = sim.t + act[1] * sim.dt          # amount in units of the current step (sign included)
            sd0, dt0 = sim.steps_done, sim.dt
            eft = act[2]
            if eft is None:
                sim.integrate(target)
            else:
                sim.integrate(target, exact_finish_time=eft)
            ns = sim.steps_done - sd0
            if ns > 0:
                el += (ns - 1) * dt0 + (sim.dt_last_done if eft != 0 else dt0)
                path += abs((ns - 1) * dt0) + abs(sim.dt_last_done if eft != 0 else dt0)
        elif kind == "debug_kepler":
            f_(ctypes.addressof(sim), act[1] * sim.dt)
            el += act[1] * sim.dt
            path += abs(act[1] * sim.dt)
        elif kind == "sync":
            sim.synchronize()
        elif kind == "restore":
            if act[1] == "archive":
                fn = tempfile.mktemp(prefix="c03seq.", suffix=".bin", dir=os.environ.get("VERIF_TMP", "/tmp"))
                try:
                    sim.save_to_file(fn, delete_file=True)
                    sim = rebound.Simulation(fn)
                finally:
                    if os.path.exists(fn):
                        os.remove(fn)
            elif act[1] == "copy":
                sim = sim.copy()
            else:
                sim = pickle.loads(pickle.dumps(sim))
            sim.ri_whfast._timestep_warning = 1
            if sp.get("callbacks"):
                callbacks(sim)
        elif kind == "switch":
            sim.synchronize()
            if act[3]:
                sim.reset_integrator()
            integ, coord, opts = act[1], act[2], act[4]
            configure(sim, integ, coord, opts)
        elif kind == "setdt":
            sim.synchronize()
            sim.dt = sim.dt * act[1]
        elif kind == "edit":
            sim.synchronize()
            cps.append({"el": el, "path": path, "rel": rel(sim), "var": varstate(sim)})
            p = sim.particles[1]
            p.vx += act[1][0]; p.vy += act[1][1]; p.vz += act[1][2]
            # what the documentation asks of a user who edits particles with safe_mode=0
            sim.ri_whfast.recalculate_coordinates_this_timestep = 1
            sim.ri_mercurius.recalculate_coordinates_this_timestep = 1
            cps.append({"el": None, "rel": rel(sim), "var": varstate(sim)})     # new start
            el = 0.0
            path = 0.0
    sim.synchronize()
    cps.append({"el": el, "path": path, "rel": rel(sim), "var": varstate(sim)})
    if integ == "trace":
        tmode |= int(sim.ri_trace._current_C) + (2 if int(sim.ri_trace._encounter_N) > 1 else 0)
    if integ == "mercurius" and int(sim.ri_mercurius._encounter_N) > 1:
        tmode |= 2
    return {"cps": cps, "t": sim.t, "mode": tmode, "gravity": str(sim.gravity), "final": [integ, coord, opts.get("kernel", "default")]}


def worker(scratch):
    """reads op lines on stdin, runs the REAL code, one flushed answer line per op"""
    rebound = use_scratch_rebound(scratch)
    clib = rebound.clibrebound
    P = rebound.Particle
    ks = clib.reb_whfast_kepler_solver
    ks.argtypes = [ctypes.c_void_p, ctypes.POINTER(P), ctypes.c_double, ctypes.c_uint, ctypes.c_double]
    ks.restype = None
    kstep = clib.reb_whfast_kepler_step
    kstep.argtypes = [ctypes.c_void_p, ctypes.c_double]
    kstep.restype = None
    sim0 = rebound.Simulation()
    simv = rebound.Simulation()
    simv.add(m=1.0)
    simv.add(m=1e-3, a=1.0)
    simv.add_variation()
    vindex = simv.var_config[0].index
    out = sys.stdout
    F6 = ("x", "y", "z", "vx", "vy", "vz")
    out.write("READY\n")
    out.flush()

    def setp(p, vals):
        for k, v in zip(F6, vals):
            setattr(p, k, v)

    def getp(p):
        return [getattr(p, k) for k in F6]

    for line in sys.stdin:
        t = line.split()
        if not t:
            continue
        op, cid = t[0], t[1]
        try:
            if op == "solve":
                v = [h2d(s) for s in t[2:]]
                arr = (P * 2)()
                setp(arr[1], v[1:7])
                sim0.ri_whfast._timestep_warning = 0
                ks(ctypes.addressof(sim0), arr, v[0], 1, v[7])
                w = sim0.ri_whfast._timestep_warning
                sim0.ri_whfast._timestep_warning = 1
                res = " ".join(d2h(c) for c in getp(arr[1])) + (" W" if w else " -")
            elif op == "var":
                v = [h2d(s) for s in t[2:]]
                arr = (P * (2 + vindex))()
                setp(arr[1], v[1:7])
                setp(arr[1 + vindex], v[8:14])
                simv.ri_whfast._timestep_warning = 1
                ks(ctypes.addressof(simv), arr, v[0], 1, v[7])
                res = " ".join(d2h(c) for c in getp(arr[1]) + getp(arr[1 + vindex]))
            elif op == "kstep":
                coord, G, nactm1, dt, m0, pj0m = t[2], h2d(t[3]), int(t[4]), h2d(t[5]), h2d(t[6]), h2d(t[7])
                vals = [h2d(s) for s in t[8:]]
                n = len(vals) // 7
                sim = rebound.Simulation()
                sim.G = G
                sim.integrator = "whfast"
                sim.ri_whfast.coordinates = COORD_PY[coord]
                sim.add(m=1.0)
                for i in range(n):
                    sim.add(m=1e-3, a=1.0 + i, f=0.3 * i)
                sim.dt = 1e-3
                sim.step()                       # allocates ri_whfast.p_jh
                sim.ri_whfast._timestep_warning = 1
                sim.N_active = nactm1 + 1
                sim.particles[0].m = m0
                pj = sim.ri_whfast._p_jh
                pj[0].m = pj0m
                for i in range(n):
                    pj[i + 1].m = vals[7 * i]
                    setp(pj[i + 1], vals[7 * i + 1:7 * i + 7])
                kstep(ctypes.addressof(sim), dt)
                res = " ".join(d2h(c) for i in range(n) for c in getp(pj[i + 1]))
                sim = None
            elif op == "hstep":
                which, G, dt, m0 = t[2], h2d(t[3]), h2d(t[4]), h2d(t[5])
                vals = [h2d(s) for s in t[6:]]
                n = len(vals) // 7
                sim = rebound.Simulation()
                sim.G = G
                sim.add(m=m0)
                for i in range(n):
                    sim.add(m=vals[7 * i], x=vals[7 * i + 1], y=vals[7 * i + 2], z=vals[7 * i + 3],
                            vx=vals[7 * i + 4], vy=vals[7 * i + 5], vz=vals[7 * i + 6])
                sim.ri_whfast._timestep_warning = 1
                fn = clib.reb_integrator_mercurius_kepler_step if which == "mercurius" else clib.reb_integrator_trace_whfast_step
                fn.argtypes = [ctypes.c_void_p, ctypes.c_double]
                fn.restype = None
                fn(ctypes.addressof(sim), dt)
                res = " ".join(d2h(c) for i in range(n) for c in getp(sim.particles[i + 1]))
                sim = None
            elif op == "wjump":
                coord, tpt, nactive, dt, m0 = t[2], int(t[3]), int(t[4]), h2d(t[5]), h2d(t[6])
                vals = [h2d(s) for s in t[7:]]
                slot0 = vals[:6]
                vals = vals[6:]
                n = len(vals) // 7
                sim = rebound.Simulation()
                sim.integrator = "whfast"
                sim.ri_whfast.coordinates = COORD_PY[coord]
                sim.add(m=1.0)
                for i in range(n):
                    sim.add(m=1e-3, a=1.0 + i, f=0.3 * i)
                sim.dt = 1e-3
                sim.step()                       # allocates ri_whfast.p_jh
                sim.N_active = nactive
                sim.testparticle_type = tpt
                sim.particles[0].m = m0
                pj = sim.ri_whfast._p_jh
                setp(pj[0], slot0)
                for i in range(n):
                    sim.particles[i + 1].m = vals[7 * i]
                    setp(pj[i + 1], vals[7 * i + 1:7 * i + 7])
                for nm in ("reb_whfast_jump_step", "reb_whfast_com_step"):
                    fn = getattr(clib, nm)
                    fn.argtypes = [ctypes.c_void_p, ctypes.c_double]
                    fn.restype = None
                    fn(ctypes.addressof(sim), dt)
                res = " ".join(d2h(c) for i in range(n + 1) for c in getp(pj[i]))
                sim = None
            elif op == "jump":
                which, tpt, nactive, dt, m0 = t[2], int(t[3]), int(t[4]), h2d(t[5]), h2d(t[6])
                vals = [h2d(s) for s in t[7:]]
                n = len(vals) // 7
                sim = rebound.Simulation()
                sim.add(m=m0)
                for i in range(n):
                    sim.add(m=vals[7 * i], x=vals[7 * i + 1], y=vals[7 * i + 2], z=vals[7 * i + 3],
                            vx=vals[7 * i + 4], vy=vals[7 * i + 5], vz=vals[7 * i + 6])
                sim.N_active = nactive
                sim.testparticle_type = tpt
                fn = clib.reb_integrator_mercurius_jump_step if which == "mercurius" else clib.reb_integrator_trace_jump_step
                fn.argtypes = [ctypes.c_void_p, ctypes.c_double]
                fn.restype = None
                fn(ctypes.addressof(sim), dt)
                res = " ".join(d2h(c) for i in range(n) for c in getp(sim.particles[i + 1]))
                sim = None
            elif op == "seq":
                res = "J " + json.dumps(run_sequence(rebound, json.loads(line.split(None, 2)[2])))
            elif op == "step":
                integ, coord, nact, tpt = t[2], t[3], int(t[4]), int(t[5])
                v = [h2d(s) for s in t[6:]]
                G, m0, m1 = v[0:3]
                st, dt = v[3:9], v[9]
                off = v[10:16] if len(v) >= 16 else [0.0] * 6
                sim = rebound.Simulation()
                sim.G = G
                sim.add(m=m0, x=off[0], y=off[1], z=off[2], vx=off[3], vy=off[4], vz=off[5])
                sim.add(m=m1, x=off[0] + st[0], y=off[1] + st[1], z=off[2] + st[2],
                        vx=off[3] + st[3], vy=off[4] + st[4], vz=off[5] + st[5])
                sim.N_active = nact                 # -1: all active
                sim.testparticle_type = tpt
                sim.integrator = integ
                if integ == "whfast":
                    sim.ri_whfast.coordinates = COORD_PY[coord]
                    sim.ri_whfast._timestep_warning = 1
                elif integ == "saba":
                    sim.ri_whfast._timestep_warning = 1
                sim.dt = dt
                clib.reb_simulation_step(ctypes.byref(sim))
                p0, p1 = sim.particles[0], sim.particles[1]
                a, b = getp(p0), getp(p1)
                # TRACE: 1 = pericentre switch fired, 2 = a planet-planet/star encounter was integrated with BS
                mode = (int(sim.ri_trace._current_C) + (2 if int(sim.ri_trace._encounter_N) > 1 else 0)) if integ == "trace" else 0
                if integ == "mercurius" and int(sim.ri_mercurius._encounter_N) > 1:
                    mode = 2        # MERCURIUS handed the body to IAS15 (its dcrit has a v*dt term): not the Kepler path
                res = " ".join(d2h(b[i] - a[i]) for i in range(6)) + " " + d2h(sim.t) + " %d" % mode
                sim = None
            else:
                res = "bad-op"
        except Exception as ex:  # an exception of the python layer is an answer, not a crash
            res = "exception " + repr(ex).replace(" ", "_")[:200]
        out.write(cid + " " + res + "\n")
        out.flush()


class Real:
    """runs op lines through worker processes; a line that gets no answer within `timeout`
    seconds is reported as 'HANG' and the worker is replaced"""

    def __init__(self, scratch, timeout=6.0):
        self.scratch = scratch
        self.timeout = timeout
        self.hangs = 0
        self.restarts = 0

    def _spawn(self, lines):
        p = subprocess.Popen([sys.executable, "-u", HERE, "--worker", self.scratch], stdin=subprocess.PIPE,
                             stdout=subprocess.PIPE, stderr=subprocess.DEVNULL, text=True, bufsize=1)

        def feed():
            try:
                for l in lines:
                    p.stdin.write(l + "\n")
                p.stdin.close()
            except Exception:
                pass
        th = threading.Thread(target=feed, daemon=True)
        th.start()
        return p

    def run(self, lines, first_timeout=60.0):
        """lines: 'op id …'; returns dict id -> answer string (or 'HANG' / 'CRASH')"""
        res = {}
        pos = 0
        while pos < len(lines):
            p = self._spawn(lines[pos:])
            fd = p.stdout.fileno()
            buf = b""
            started = False
            dead = False
            while pos < len(lines):
                tmo = self.timeout if started else first_timeout
                r, _, _ = select.select([fd], [], [], tmo)
                if not r:
                    cid = lines[pos].split()[1]
                    res[cid] = "HANG"
                    self.hangs += 1
                    pos += 1
                    dead = True
                    break
                chunk = os.read(fd, 1 << 16)
                if not chunk:
                    # worker died: the line it was working on crashed it
                    if pos < len(lines):
                        cid = lines[pos].split()[1]
                        res[cid] = "CRASH"
                        pos += 1
                    dead = True
                    break
                buf += chunk
                while b"\n" in buf:
                    l, buf = buf.split(b"\n", 1)
                    t = l.decode().split(None, 1)
                    if not t:
                        continue
                    if t[0] == "READY":
                        started = True
                        continue
                    res[t[0]] = t[1] if len(t) > 1 else ""
                    pos += 1
            try:
                p.kill()
                p.wait(timeout=5)
            except Exception:
                pass
            if dead:
                self.restarts += 1
        return res


# ============================================================================ generator
def rot_random(rng):
    while True:
        q = [rng.normal() for _ in range(4)]
        n = math.sqrt(sum(c * c for c in q))
        if n > 1e-3:
            break
    w, x, y, z = [c / n for c in q]
    return [[1 - 2 * (y * y + z * z), 2 * (x * y - z * w), 2 * (x * z + y * w)],
            [2 * (x * y + z * w), 1 - 2 * (x * x + z * z), 2 * (y * z - x * w)],
            [2 * (x * z - y * w), 2 * (y * z + x * w), 1 - 2 * (x * x + y * y)]]


ROT_ID = [[1, 0, 0], [0, 1, 0], [0, 0, 1]]
ROT_PERM = [[0, 0, 1], [1, 0, 0], [0, 1, 0]]
ROT_FLIP = [[0, -1, 0], [1, 0, 0], [0, 0, 1]]


def apply(R, v):
    return [R[i][0] * v[0] + R[i][1] * v[1] + R[i][2] * v[2] for i in range(3)]


def gen_e(rng):
    k = rng.randint(0, 9)
    if k == 0:
        return 0.0
    if k <= 3:
        return rng.uniform(0.0, 0.95)
    if k == 4:
        return 1.0 - 10 ** rng.uniform(-6, -1)          # near-parabolic ellipse
    if k == 5:
        return rng.uniform(0.9, 0.9999)
    if k == 6:
        return 1.0 + 10 ** rng.uniform(-6, -1)          # near-parabolic hyperbola
    if k <= 8:
        return 1.0 + 10 ** rng.uniform(-1, math.log10(49.0))
    return rng.uniform(1.0 + 1e-6, 50.0)


def gen_orbit(rng, e=None, dt_over_P=None, phase=None, M=None, a=None):
    """classical elements -> doubles (M, state, dt) + meta"""
    e = gen_e(rng) if e is None else e
    hyp = e > 1.0
    a = 10 ** rng.uniform(-6, 6) if a is None else a
    G = 10 ** rng.uniform(-10, 10)
    m = 10 ** rng.uniform(-10, 10)
    if M is None:
        M = G * m
    else:
        m = M / G
    if phase is None:
        phase = rng.choice(["peri", "peri", "apo", "f", "f", "f", "f", "nearperi", "Mean"])
    if hyp and phase == "apo":
        phase = "f"
    p = a * abs(1 - e * e)
    if phase == "peri":
        f = 0.0
    elif phase == "apo":
        f = math.pi
    elif phase == "nearperi":
        f = rng.choice([1, -1]) * 10 ** rng.uniform(-9, -2)
    else:
        if hyp:
            finf = math.acos(-1.0 / e)
            f = rng.uniform(-1, 1) * finf * 0.98
        else:
            f = rng.uniform(-math.pi, math.pi)
    sq = math.sqrt(M / p) if p > 0 else 0.0
    if phase == "peri":
        q = a * abs(1 - e)
        xp, vp = [q, 0.0, 0.0], [0.0, sq * (1 + e), 0.0]
    elif phase == "apo":
        Q = a * (1 + e)
        xp, vp = [-Q, 0.0, 0.0], [0.0, -sq * (1 - e), 0.0]
    else:
        r = p / (1 + e * math.cos(f))
        xp, vp = [r * math.cos(f), r * math.sin(f), 0.0], [-sq * math.sin(f), sq * (e + math.cos(f)), 0.0]
    rk = rng.randint(0, 5)
    R = [ROT_ID, ROT_PERM, ROT_FLIP][rk] if rk < 3 else rot_random(rng)
    x, v = apply(R, xp), apply(R, vp)
    if rng.chance(0.15):                                   # retrograde / mirrored
        v = [-c for c in v]
    P = 2 * math.pi * math.sqrt(a ** 3 / M)
    if dt_over_P is None:
        k = rng.randint(0, 10)
        if k == 0:
            dt_over_P = float(rng.randint(1, 30)) * rng.choice([1.0, 0.5])      # whole / half periods
        elif k <= 2:
            dt_over_P = 10 ** rng.uniform(-8, -2)
        elif k <= 6:
            dt_over_P = 10 ** rng.uniform(-2, 1)
        elif k == 7:
            dt_over_P = 10 ** rng.uniform(1.5, 3)                                # many periods
        elif k == 8:
            # just off k*2^j periods: where the quartic iteration cycles and the bisection fallback is taken
            dt_over_P = 2 ** rng.randint(4, 9) * rng.choice([1, 1, 1.5, 1.75]) * (1 - rng.choice([1, -1]) * 10 ** rng.uniform(-4, -1.5))
        else:
            dt_over_P = 10 ** rng.uniform(-8, 3)
        dt_over_P *= rng.choice([1, -1])
    dt = dt_over_P * P
    return {"M": M, "G": G, "m": m, "st": x + v, "dt": dt,
            "meta": {"e": e, "a": (-a if hyp else a), "phase": phase, "dtP": dt_over_P, "rot": rk}}


def e_bin(e):
    if e == 0:
        return "e=0"
    if e < 0.5:
        return "e<.5"
    if e < 0.9:
        return "e<.9"
    if e < 0.999:
        return "e<.999"
    if e < 1:
        return "e<1"
    if e < 1.001:
        return "e<1.001"
    if e < 1.1:
        return "e<1.1"
    if e < 2:
        return "e<2"
    return "e<=50"


def dt_bin(x):
    x = abs(x)
    if x == 0:
        return "dt=0"
    l = math.floor(math.log10(x))
    return "1e%d" % max(-8, min(3, l))


SABA_TYPES = ["1", "2", "3", "4", "cm1", "cm2", "cl1", "cl4", "10,4", "8,6,4", "10,6,4", "h8,4,4", "h10,6,4"]
MERC_L = ["mercury", "C4", "C5", "infinity"]


def gen_options(rng, integ, coord, tags):
    o = {}
    if integ == "whfast":
        o["safe_mode"] = rng.randint(0, 1)
        o["keep_unsynchronized"] = rng.randint(0, 1) if o["safe_mode"] == 0 else 0
        if coord in ("jacobi", "bary") and rng.chance(0.6):
            o["corrector"] = rng.choice([3, 5, 7, 11, 17])
            tags.add("option:corrector")
        if coord == "jacobi" and rng.chance(0.4):
            o["kernel"] = rng.choice(["modifiedkick", "composition", "lazy"])
            tags.add("option:kernel_nondefault")
            if rng.chance(0.5):
                o["corrector2"] = 1
                o.setdefault("corrector", 17)
                tags.add("option:corrector2")
    elif integ == "saba":
        o["type"] = rng.choice(SABA_TYPES)
        o["safe_mode"] = rng.randint(0, 1)
        o["keep_unsynchronized"] = rng.randint(0, 1) if o["safe_mode"] == 0 else 0
        tags.add("option:saba_type")
    elif integ == "mercurius":
        o["safe_mode"] = rng.randint(0, 1)
        o["r_crit_hill"] = rng.choice([1.0, 3.0, 5.0])
        o["L"] = rng.choice(MERC_L)
        tags.add("option:mercurius_rcrit_L")
    elif integ == "trace":
        o["r_crit_hill"] = rng.choice([1.0, 3.0, 4.0])
        tags.add("option:trace_rcrit")
    if o.get("safe_mode") == 0:
        tags.add("option:safe_mode_0")
    if o.get("keep_unsynchronized") == 1:
        tags.add("option:keep_unsynchronized")
    return o


SEQ_CONFIGS = [("whfast", "jacobi"), ("whfast", "dh"), ("whfast", "whds"), ("whfast", "bary"), ("saba", "-"),
               ("mercurius", "-"), ("trace", "-")]


# ---------------------------------------------------------------------------- pairwise factors of the histories
CFG_NAMES = ["whfast/jacobi", "whfast/dh", "whfast/whds", "whfast/bary", "saba", "mercurius", "trace"]
EVENTS = ["none", "sync", "setdt", "reverse", "edit", "restore_archive", "restore_copy", "restore_pickle", "switch", "switch_reset",
          "exact_finish_output"]
FACTORS = {
    "cfg": CFG_NAMES,
    "role": ["active:massless", "active:massive", "tp0:massless", "tp0:massive", "tp1:massless", "tp1:massive"],
    "safe": ["safe1", "safe0", "safe0_keep"],
    "variant": ["plain", "corrector", "kernel", "kernel_corrector2"],
    "dtsign": ["+", "-"],
    "orbit": ["ell_low", "ell_high", "hyp"],
    "steplen": ["short", "medium", "long"],
    "pattern": ["steps", "integrate_eft0", "integrate_eft1", "integrate_omitted"],
    "ev1": EVENTS,          # event after the first segment ...
    "ev2": EVENTS,          # ... and the event one step later (event adjacency: the pair (ev1, ev2))
    "callbacks": ["none", "set"],
    "var": ["none", "riding"],
    "com": ["origin", "offset_boost"],
    "t0": ["0", "huge"],
}
FNAMES = list(FACTORS)
EXACT_MASSIVE = ("whfast/jacobi", "whfast/whds", "saba")
MISUSE_WITH_KEEP = ("setdt", "reverse", "edit", "switch", "switch_reset")


def pair_forbidden(f, a, g, b):
    """combinations the code rejects / documents as misuse / that leave the property's domain; returns the reason or None.
    All constraints of the history generator are pairwise, so a case is valid iff it contains no forbidden pair."""
    if FNAMES.index(f) > FNAMES.index(g):
        f, a, g, b = g, b, f, a
    if f == "cfg":
        if g == "safe":
            if a == "trace" and b != "safe1":
                return "TRACE has no safe_mode"
            if a == "mercurius" and b == "safe0_keep":
                return "MERCURIUS has no keep_unsynchronized"
        if g == "variant":
            if b == "corrector" and a not in ("whfast/jacobi", "whfast/bary"):
                return "correctors: WHFast Jacobi/barycentric only (the code says so)"
            if b in ("kernel", "kernel_corrector2") and a != "whfast/jacobi":
                return "non-default kernels: WHFast Jacobi only (the code says so)"
        if g == "dtsign" and a == "trace" and b == "-":
            return "TRACE with dt<0: finding F10 (C01/C08)"
        if g == "steplen" and a == "trace" and b != "short":
            return "TRACE: longer steps trigger its pericentre switch (not the Kepler path)"
        if g == "t0" and b == "huge" and a in ("mercurius", "trace"):
            return "MERCURIUS/TRACE encounter sub-integrations use absolute times (outside the Kepler path)"
        if g == "var" and b == "riding" and a != "whfast/jacobi":
            return "variations: WHFast Jacobi only (the code says so)"
        if g == "role" and b in ("active:massive", "tp1:massive") and a not in EXACT_MASSIVE:
            return "two-body splitting not exact for a massive non-test body in dh/barycentric schemes"
        if g in ("ev1", "ev2") and a == "trace" and b == "reverse":
            return "TRACE with dt<0: finding F10"
    if f == "role" and g == "var" and b == "riding" and not a.startswith("active"):
        return "variation next to a test particle: C16 finding F24"
    if f == "safe":
        if g in ("ev1", "ev2") and a == "safe0_keep" and b in MISUSE_WITH_KEEP:
            return "keep_unsynchronized=1: run continues from the unsynchronised state (documented misuse)"
        if g == "callbacks" and a == "safe0_keep" and b == "set":
            return "keep_unsynchronized=1 with timestep-modification callbacks: REBOUND warns, wrong by design"
    if f == "variant" and g == "var" and b == "riding" and a in ("kernel", "kernel_corrector2"):
        return "variations with non-default kernels are rejected by the code"
    if f == "orbit" and g == "steplen" and a == "hyp" and b == "long":
        return "hyperbolic + long step: F14 domain (covered by the solver tie)"
    if f == "pattern" and g == "t0" and b == "huge" and a != "steps":
        return "|t|/dt=1e12 with integrate(): elapsed time not representable (t+dt bookkeeping)"
    if f in ("ev1", "ev2") and g == "t0" and b == "huge" and a in ("exact_finish_output",):
        return "|t|/dt=1e12 with an exact-finish output call: elapsed time not representable"
    return None


def case_valid(fv):
    for i, f in enumerate(FNAMES):
        for g in FNAMES[i + 1:]:
            if pair_forbidden(f, fv[f], g, fv[g]):
                return False
    return True


def covering_array(seed=20260930, tries=40):
    """greedy all-pairs covering array of FACTORS under pair_forbidden (deterministic)"""
    rng = SplitMix(seed)
    need = set()
    excluded = {}
    for i, f in enumerate(FNAMES):
        for g in FNAMES[i + 1:]:
            for a in FACTORS[f]:
                for b in FACTORS[g]:
                    why = pair_forbidden(f, a, g, b)
                    if why:
                        excluded[(f, a, g, b)] = why
                    else:
                        need.add((f, a, g, b))
    total = len(need)

    def pairs_of(fv):
        return {(f, fv[f], g, fv[g]) for i, f in enumerate(FNAMES) for g in FNAMES[i + 1:]}

    def candidate(fix):
        for _ in range(60):
            fv = {f: rng.choice(FACTORS[f]) for f in FNAMES}
            fv.update(fix)
            if case_valid(fv):
                return fv
        return None
    rows = []
    infeasible = {}
    pending = sorted(need)
    while need:
        target = None
        for pr in pending:
            if pr in need:
                target = pr
                break
        best, bestn = None, -1
        for _ in range(tries):
            fv = candidate({target[0]: target[1], target[2]: target[3]})
            if fv is None:
                continue
            n = len(pairs_of(fv) & need)
            if n > bestn:
                best, bestn = fv, n
        if best is None:
            infeasible[target] = "no valid completion"
            need.discard(target)
            continue
        rows.append(best)
        need -= pairs_of(best)
    return rows, total - len(infeasible), excluded, infeasible


def build_history(rng, fv):
    """a history realising the factor values `fv`; returns (spec, tags, GM, orbit, offk)"""
    tags = set()
    cfg = fv["cfg"]
    integ, coord = (cfg.split("/") + ["-"])[:2] if "/" in cfg else (cfg, "-")
    lo, hi = {"short": (-3.0, -1.3), "medium": (-1.3, 0.0), "long": (0.0, 1.5)}[fv["steplen"]]
    for attempt in range(400):
        if fv["orbit"] == "ell_low":
            e = rng.uniform(0.0, 0.9) if rng.chance(0.9) else 0.0
        elif fv["orbit"] == "ell_high":
            e = 1.0 - 10 ** rng.uniform(-4, -1)
        else:
            e = 1.0 + 10 ** rng.uniform(-3, math.log10(20.0))
        dtp = 10 ** rng.uniform(lo, hi)
        x = 2 * math.pi * dtp
        if e > 1 and x / (e - 1) > 8.0:
            continue                                    # stay clear of the F14 domain (sub-steps of up to 3.4 dt, several steps)
        if integ == "trace" and x * abs(1 - e) ** -1.5 > 0.05:
            dtp = 0.05 / (2 * math.pi) * abs(1 - e) ** 1.5 * rng.uniform(0.1, 1.0)
        if integ == "mercurius" and x * abs(1 - e) ** -1.5 > 50.0:
            continue
        break
    o = gen_orbit(rng, e=e, dt_over_P=dtp * (1 if fv["dtsign"] == "+" else -1))
    dt = o["dt"]
    G, mt = o["G"], o["m"]
    role, mass = fv["role"].split(":")
    if role == "tp0":
        m1 = 0.0 if mass == "massless" else mt * 1e-3
        m0 = mt; GM = G * m0
    else:
        m1 = 0.0 if mass == "massless" else rng.choice([mt * 1e-3, mt * rng.uniform(0.05, 0.5)])
        m0 = mt - m1; GM = G * (m0 + m1)
    nactive, tpt = {"active": (-1, 0), "tp0": (1, 0), "tp1": (1, 1)}[role]

    def options(integ, coord, variant, safe):
        o_ = {}
        sm = {"safe1": (1, 0), "safe0": (0, 0), "safe0_keep": (0, 1)}[safe]
        if integ == "whfast":
            o_["safe_mode"], o_["keep_unsynchronized"] = sm
            if variant == "corrector":
                o_["corrector"] = rng.choice([3, 5, 7, 11, 17])
            elif variant in ("kernel", "kernel_corrector2"):
                o_["kernel"] = rng.choice(["modifiedkick", "composition", "lazy"])
                if variant == "kernel_corrector2":
                    o_["corrector"] = 17; o_["corrector2"] = 1
                elif rng.chance(0.5):
                    o_["corrector"] = rng.choice([3, 5, 7, 11, 17])
        elif integ == "saba":
            o_["type"] = rng.choice(SABA_TYPES)
            o_["safe_mode"], o_["keep_unsynchronized"] = sm
        elif integ == "mercurius":
            o_["safe_mode"] = sm[0]
            o_["r_crit_hill"] = rng.choice([1.0, 3.0, 5.0]); o_["L"] = rng.choice(MERC_L)
        elif integ == "trace":
            o_["r_crit_hill"] = rng.choice([1.0, 3.0, 4.0])
        return o_
    opts = options(integ, coord, fv["variant"], fv["safe"])
    sx = math.sqrt(sum(v * v for v in o["st"][:3])); sv = math.sqrt(sum(v * v for v in o["st"][3:]))
    offk = rng.uniform(0.1, 2.0) if fv["com"] == "offset_boost" else 0.0
    off = [rng.normal() * sx * offk for _ in range(3)] + [rng.normal() * sv * offk for _ in range(3)]
    sp = {"G": G, "m0": m0, "bodies": [[m1, o["st"]]], "off": off, "dt": dt, "integ": integ, "coord": coord,
          "nactive": nactive, "tpt": tpt, "opts": opts, "actions": [], "factors": fv}
    if fv["t0"] == "huge":
        sp["t0"] = dt * 1e12 * rng.choice([1, -1])
    if fv["callbacks"] == "set":
        sp["callbacks"] = True
    if fv["var"] == "riding":
        sp["var"] = [rng.normal() * sx for _ in range(3)] + [rng.normal() * sv for _ in range(3)]
    acts = sp["actions"]

    def segment():
        if fv["pattern"] == "steps":
            acts.append(["steps", rng.randint(1, 4)])
        else:
            eft = {"integrate_eft0": 0, "integrate_eft1": 1, "integrate_omitted": None}[fv["pattern"]]
            acts.append(["integrate", rng.uniform(0.3, 3.7), eft])

    def event(ev):
        nonlocal integ, coord
        if ev == "none":
            return
        if ev == "sync":
            acts.append(["sync"])
        elif ev == "setdt":
            acts.append(["setdt", rng.choice([0.5, 2.0, 0.37])])
        elif ev == "reverse":
            acts.append(["setdt", -1.0])
        elif ev == "edit":
            acts.append(["edit", [rng.normal() * sv * 0.03 for _ in range(3)]])
        elif ev.startswith("restore_"):
            acts.append(["restore", ev.split("_")[1]])
        elif ev in ("switch", "switch_reset"):
            targets = [c_ for c_ in CFG_NAMES[:5]]
            if "var" in sp:
                targets = ["whfast/jacobi"]
            elif m1 != 0.0 and role != "tp0":
                targets = list(EXACT_MASSIVE)
            t_ = rng.choice(targets)
            i2, c2 = (t_.split("/") + ["-"])[:2] if "/" in t_ else (t_, "-")
            v2 = "plain" if "var" not in sp else rng.choice(["plain", "corrector"])
            if "var" not in sp and i2 == "whfast" and c2 in ("jacobi", "bary") and rng.chance(0.4):
                v2 = "corrector"
            o2 = options(i2, c2, v2, "safe1" if sp.get("callbacks") or rng.chance(0.5) else "safe0")
            acts.append(["switch", i2, c2, ev == "switch_reset", o2])
            integ, coord = i2, c2
        elif ev == "exact_finish_output":
            acts.append(["integrate", rng.uniform(0.2, 0.9), 1])       # an output call that shortens the last step
    segment()
    event(fv["ev1"])
    if fv["ev1"] != "none" and fv["ev2"] != "none":
        acts.append(["steps", 1])                                       # ev2 hits the step right after ev1's
    event(fv["ev2"])
    segment()
    for f in FNAMES:
        tags.add(f + "=" + fv[f])
    return sp, tags, GM, o, offk


# ============================================================================ oracle
def run_oracle(lines, nproc=12):
    """lines 'id GM st*6 dt res*6' -> dict id -> json"""
    if not lines:
        return {}
    nproc = max(1, min(nproc, len(lines) // 20 + 1))
    chunks = [lines[i::nproc] for i in range(nproc)]
    procs = []
    for ch in chunks:
        p = subprocess.Popen(["python3-vt", REFPY], stdin=subprocess.PIPE, stdout=subprocess.PIPE,
                             stderr=subprocess.PIPE, text=True)
        procs.append((p, ch))
    outs = {}
    # communicate sequentially; the children compute concurrently (their stdin fits in the pipe
    # only for small inputs, so feed from threads)
    res = [None] * len(procs)

    def comm(i):
        p, ch = procs[i]
        try:
            o, e = p.communicate("\n".join(ch) + "\n", timeout=1500)
            res[i] = (p.returncode, o, e)
        except subprocess.TimeoutExpired:
            p.kill()
            res[i] = (-9, "", "timeout")
    ths = [threading.Thread(target=comm, args=(i,)) for i in range(len(procs))]
    for t in ths:
        t.start()
    for t in ths:
        t.join()
    for rc, o, e in res:
        if rc != 0:
            raise Infra("reference (python3-vt mpmath) failed: " + (e or "")[-1500:])
        for l in o.splitlines():
            if l.startswith("{"):
                j = json.loads(l)
                outs[j["id"]] = j
    return outs


def tolerance(o):
    """unit of allowed relative error of position/velocity for one case, from the reference's own
    conditioning data:
      phase error  eps * (1 + 8 kbeta n|dt| + 40 (n|dt|)^2)
         kbeta = (2M/r0 + v0^2)/|beta|: rounding of beta = 2M/r0 - v^2 shifts the mean motion,
         40 (n dt)^2: measured growth of rounding errors through the argument-doubling
         recurrences (4^n with 4^n <= 40 beta X^2) - only matters for steps of many periods,
      amplified along the orbit by max(1, |v|/(n r), GM/(r^2 n |v|)) at the end point
      (~(1-e)^(-3/2) at pericentre).
    Calibrated on 165 000 clean-tree orbits: max error / unit = 22 (elliptic, 512 periods, bisection
    path), 1.6 (hyperbolic outside the F14 domain); median 0.01.  Allowed: 64 units, 256 for steps
    longer than 100 periods."""
    amp = max(1.0, o["amp_x"], o["amp_v"])
    phase = 1.0 + 8.0 * o["kbeta"] * o["ndt"] + 40.0 * o["ndt"] ** 2
    return amp * phase * EPS


# ============================================================================ the check
def run(c):
    try:
        run_(c)
    except (Infra, subprocess.TimeoutExpired):
        raise
    except Exception:               # a bug of this script is an infrastructure failure, never a VIOLATION
        import traceback
        raise Infra("unexpected exception in rv/c03.py:\n" + traceback.format_exc()[-3000:])


def run_(c):
    d = build()
    real = Real(d)
    # ---------------------------------------------------------------- translator
    c.log("extracting table / constants from", REPO)
    try:
        tab = extract_c03.extract(REPO)
        gen_changed = write_if_changed(os.path.join(LEAN, "RV", "Gen", "C03Table.lean"), extract_c03.render(tab))
        c.cov["extracted"] = {"invfactorial_entries": len(tab["num"]), "declared": tab["declared"],
                              "NMAX_QUART": tab["WHFAST_NMAX_QUART"], "NMAX_NEWT": tab["WHFAST_NMAX_NEWT"],
                              "nmax_cs3": tab["nmax_stumpff_cs3"], "nmax_cs": tab["nmax_stumpff_cs"],
                              "regenerated": gen_changed}
        if len(tab["num"]) != 35 or tab["declared"] != 35:
            c.broken.append("proof obligation: extraction found %d invfactorial entries (declared %d), expected 35"
                            % (len(tab["num"]), tab["declared"]))
    except extract_c03.ExtractError as ex:
        tab = None
        c.broken.append("proof obligation: translator cannot read src/integrator_whfast.c: %s" % ex)
    # ---------------------------------------------------------------- proofs
    ok = c.prove(["RV.Props.C03", "RV.Props.C03Tan"])
    try:
        exe = lean_exe("drv_c03")
    except Infra as ex:
        if ok:
            raise
        exe = None
        c.broken.append("correspondence: model driver does not build (generated table no longer type-checks)")
    c.cov["trusted_base"] = ["Lean 4.33 kernel", "Mathlib field_simp/ring/linear_combination/norm_num (kernel-checked)",
                             "rv/extract_c03.py regexes (item counts checked; table re-checked against the compiled code through the bitwise tie)",
                             "correspondence drv_c03 vs compiled integrator_whfast.c on generated inputs (differential test, bitwise)",
                             "mpmath 50-digit elementary functions (reference)", "ctypes Particle / Simulation layout (checked by C18)"]
    c.assumptions += ["theorems are exact-arithmetic statements about the model's pieces (series, duplication, scaling, f-g update, mass parameter, halving loop); "
                      "that the Newton/quartic/bisection iteration returns a root of the universal Kepler equation, and IEEE error growth, are not proved - the search measures them against the 50-digit reference",
                      "gcc -O3 -ffp-contract=off evaluates double expressions in source order (no FMA, no re-association)",
                      "WHFast512 (AVX512) is not compiled in this environment and not covered",
                      "termination theorem holds for finite arguments over an Archimedean field; IEEE overflow to inf is finding F14"]
    c.cov["rule"] = ("orbits from classical elements: e in {0} U (0,1) U (1,50] with |1-e|>=1e-6 (10 families incl. near-parabolic on both sides), a log-uniform over 1e-6..1e6, "
                     "G and mass log-uniform over 1e-10..1e10 each, phase in {exact pericentre, exact apocentre, near pericentre, uniform true anomaly}, 6 orientations "
                     "(axis-aligned, permuted, random rotation), prograde/retrograde, dt/P in +-[1e-8,1e3] incl. whole and half periods; every case is run through the Lean Float model "
                     "and the compiled reb_whfast_kepler_solver (child process, watchdog) and compared (bit-identical, else within 64 conditioned rounding units), and against the mpmath reference; "
                     "plus reb_whfast_kepler_step / MERCURIUS / TRACE Kepler steps with 1-5 particles per coordinate system and N_active, solver calls with a variational particle, and one full "
                     "sim.step() per integrator configuration; distinct_nontrivial = distinct (branch path, e-bin, dt/P decade, phase kind) resp. (routine, coordinates, N, N_active)")
    if exe is None:
        return
    # ---------------------------------------------------------------- table tie
    got = run_driver(exe, ["table"])[0].split()
    if tab is not None:
        want = [d2h(float(n) / float(dn)) for n, dn in zip(tab["num"], tab["den"])]
        if got != want:
            bad = [i for i, (g, w) in enumerate(zip(got, want)) if g != w]
            c.corr_break("Float value of the model's invfactorial table differs from the value of the C literal at entries %s" % bad[:5],
                         {"model": got, "python": want})
        c.count(("table", len(got)), n=len(got))

    # ---------------------------------------------------------------- solver tie + search
    ncase = 60000 if c.thorough else 1800
    cases = []
    for i in range(ncase):
        rng = c.rng.fork()
        cases.append(gen_orbit(rng))
    # directed: exact F14 repro inputs from DESIGN section 4 (pericentre start, long hyperbolic flight)
    cases.append({"M": 0.061182822500113046, "st": [1.0695459134279534e-05, 0.0, 0.0, 0.0, 107.13556287302355, 0.0],
                  "dt": 0.0012501583364124844, "meta": {"e": 1.0065, "a": -1.65e-3, "phase": "peri", "dtP": 0.74, "rot": 0, "directed": "F14-hang"}})
    cases.append({"M": 1.0, "st": [0.001, 0.0, 0.0, 0.0, math.sqrt(2.001 / 0.001), 0.0], "dt": math.pi,
                  "meta": {"e": 1.001, "a": -1.0, "phase": "peri", "dtP": 0.5, "rot": 0, "directed": "F14-line"}})
    # directed: M = 0 (free particle: the NaN guard's legitimate use), dt = 0
    for k in range(6):
        rng = c.rng.fork()
        o = gen_orbit(rng)
        o["M"] = 0.0
        o["meta"]["directed"] = "M=0"
        cases.append(o)
    for k in range(6):
        rng = c.rng.fork()
        o = gen_orbit(rng)
        o["dt"] = 0.0
        o["meta"]["dtP"] = 0.0
        o["meta"]["directed"] = "dt=0"
        cases.append(o)
    mlines = ["solve " + " ".join(d2h(v) for v in [o["M"]] + o["st"] + [o["dt"]]) for o in cases]
    c.log("running %d orbits through the Lean Float model" % len(mlines))
    mout = run_driver(exe, mlines)
    if len(mout) != len(mlines):
        raise Infra("driver returned %d lines for %d" % (len(mout), len(mlines)))
    # what the model says: result bits + path
    paths = {}
    model = []
    for o, g in zip(cases, mout):
        t = g.split()
        if t[0] == "hang":
            model.append({"hang": t[1]})
            path = "hang:" + t[1]
        else:
            tr = t[7:]
            m = {"res": t[:6], "X": t[6], "ell": tr[0] == "E", "warn": tr[1] == "W", "quartic": tr[2] == "Q", "conv": tr[3] == "C",
                 "iters": int(tr[4]), "bisect": tr[5] == "B", "bit": int(tr[6]), "nan": tr[7] == "G", "maxhalv": int(tr[8])}
            model.append(m)
            path = ("ell" if m["ell"] else "hyp") + ":" + ("quartic" if m["quartic"] else "newton") + \
                   (":converged" if m["conv"] else ":bisection") + (":nan-guard" if m["nan"] else "")
        paths[path] = paths.get(path, 0) + 1
        o["path"] = path
    c.cov["branch_histogram"] = dict(sorted(paths.items()))
    wanted = ["ell:newton:converged", "ell:quartic:converged", "hyp:newton:converged", "hyp:newton:bisection",
              "ell:quartic:bisection", "ell:newton:bisection"]
    zero = [w for w in wanted if not any(k.startswith(w) for k in paths)]
    nan_hits = sum(v for k, v in paths.items() if "nan-guard" in k)
    if nan_hits == 0:
        zero.append("nan-guard")
    if not any(k.startswith("hang") for k in paths):
        zero.append("hang (fuel exhaustion)")
    c.cov["branches_with_zero_hits"] = zero
    c.cov["max_halvings_seen"] = max([m.get("maxhalv", 0) for m in model])
    c.cov["max_iterations_seen"] = {"newton_or_quartic": max([m.get("iters", 0) for m in model]),
                                    "bisection": max([m.get("bit", 0) for m in model])}
    # real code: every call in a watchdog'ed child.  Inputs on which the model predicts a hang are
    # confirmed on a few (each costs the timeout) and not run otherwise.
    hang_idx = [i for i, m in enumerate(model) if "hang" in m]
    confirm = hang_idx[:(6 if c.thorough else 2)]
    for i in hang_idx:
        if cases[i]["meta"].get("directed") == "F14-hang" and i not in confirm:
            confirm.append(i)
    rl = ["solve %d %s" % (i, mlines[i].split(None, 1)[1]) for i in range(len(cases)) if "hang" not in model[i]]
    c.log("running %d orbits through the compiled solver (watchdog child), %d predicted hangs (%d to confirm)"
          % (len(rl), len(hang_idx), len(confirm)))
    rout = real.run(rl)
    real_h = Real(d, timeout=3.0)
    hout = real_h.run(["solve %d %s" % (i, mlines[i].split(None, 1)[1]) for i in confirm]) if confirm else {}
    c.cov["model_predicted_hangs"] = len(hang_idx)
    c.cov["hangs_confirmed_on_real_code"] = sum(1 for v in hout.values() if v == "HANG")
    ndis = 0
    first = None
    nwarn = 0
    olines = []
    pending = []
    for i, o in enumerate(cases):
        m = model[i]
        key = (o["path"], e_bin(o["meta"]["e"]), dt_bin(o["meta"]["dtP"]), o["meta"]["phase"])
        if "hang" in m:
            c.count(key)
            if i in confirm:
                ans = hout.get(str(i))
                if ans == "HANG":
                    c.violation("F14:hyperbolic-overflow-hang",
                                "reb_whfast_kepler_solver does not return (watchdog %.0fs): hyperbolic orbit e=%.6g, sqrt(-beta)|dt|/q large; model: argument-halving loop never exits (z=inf)"
                                % (real_h.timeout, o["meta"]["e"]),
                                {"M": o["M"], "state": o["st"], "dt": o["dt"], "meta": o["meta"],
                                 "how": "call reb_whfast_kepler_solver(r, p, M, i, dt) in a child process with a timeout"})
                else:
                    ndis += 1
                    if first is None:
                        first = {"input": mlines[i], "model": "hang (fuel exhausted in stumpff halving loop)", "impl": ans}
            continue
        ans = rout.get(str(i))
        if ans is None or ans in ("HANG", "CRASH") or ans.startswith("exception"):
            c.count(key)
            if ans == "HANG":
                c.violation("solver-hang:" + o["path"], "reb_whfast_kepler_solver does not return within %.0fs (model: returns)" % real.timeout,
                            {"M": o["M"], "state": o["st"], "dt": o["dt"], "meta": o["meta"]})
            ndis += 1
            if first is None:
                first = {"input": mlines[i], "model": mout[i], "impl": ans}
            continue
        rt = ans.split()
        c.count(key)
        if (rt[6] == "W") != m["warn"]:
            ndis += 1
            if first is None:
                first = {"input": mlines[i], "model": mout[i], "impl": ans, "meta": o["meta"], "what": "timestep warning flag"}
        elif rt[:6] != m["res"]:
            pending.append(i)          # not bit-identical: judged against the conditioned rounding unit below
        nwarn += rt[6] == "W"
        o["real"] = rt[:6]
        olines.append("%d %s %s" % (i, mlines[i].split(None, 1)[1], " ".join(rt[:6])))
    c.cov["solver_lines_compared"] = len(rl)
    c.cov["timestep_warning_raised"] = nwarn
    for i in range(min(3, len(cases))):
        c.sample({"M": cases[i]["M"], "state": cases[i]["st"], "dt": cases[i]["dt"], "meta": cases[i]["meta"],
                  "path": cases[i]["path"], "model_line": mout[i][:160]})

    # ---------------------------------------------------------------- search vs reference
    c.log("reference propagation of %d orbits (mpmath, %d digits)" % (len(olines), 50))
    ref = run_oracle(olines)
    SAFETY = 64.0

    def reldiff(a6, b6, ref6):
        """max relative difference of position and of velocity (relative to the reference norms)"""
        a, b, r = [h2d(x) for x in a6], [h2d(x) for x in b6], [h2d(x) for x in ref6]
        out = 0.0
        for k in (0, 3):
            nr = math.hypot(*r[k:k + 3]) or 1.0
            dd = math.hypot(*[a[k + q] - b[k + q] for q in range(3)])
            out = max(out, dd / nr)
        return out if (out == out and nr == nr) else float("inf")

    # model/implementation pairs that are not bit-identical: C03 is a "to rounding error" property, so a
    # re-association or a different (convergent) iteration path must not alarm, a wrong constant must
    nwithin = 0
    for i in pending:
        j = ref.get(str(i))
        okk = False
        if j is not None and "error" not in j and j["kind"] != "line" and j.get("finite"):
            dd = reldiff(cases[i]["real"], model[i]["res"], j["ref"])
            okk = dd <= SAFETY * tolerance(j)
        if okk:
            nwithin += 1
        else:
            ndis += 1
            if first is None:
                first = {"input": mlines[i], "model": mout[i], "impl": " ".join(cases[i]["real"]), "meta": cases[i]["meta"]}
    c.cov["solver_lines_bit_identical"] = len(rl) - len(pending)
    c.cov["solver_lines_within_rounding_tolerance"] = nwithin
    c.cov["solver_disagreements"] = ndis
    if ndis:
        c.corr_break("%d of %d solver calls differ between the Lean Float model and the compiled code" % (ndis, len(cases)), first)
    worst = {}
    ratios = []
    nfail = 0
    f14line = 0
    nonfinite = 0
    for i, o in enumerate(cases):
        if "real" not in o:
            continue
        j = ref.get(str(i))
        if j is None or "error" in j:
            raise Infra("reference gave no answer for case %d: %s" % (i, j))
        rep = {"M": o["M"], "state": o["st"], "dt": o["dt"], "meta": o["meta"], "path": o["path"],
               "got": [h2d(s) for s in o["real"]], "reference": [h2d(s) for s in j["ref"]]}
        m = model[i]
        same_as_model = o["real"] == m.get("res")
        if j["kind"] == "line":
            if o["real"] != j["ref"] and not all(abs(h2d(a) - h2d(b)) <= 4 * EPS * max(abs(h2d(b)), abs(o["st"][k % 3 + 3] * o["dt"])) for k, (a, b) in enumerate(zip(o["real"], j["ref"]))):
                c.violation("free-particle", "M=0: result is not x+v*dt", rep)
            continue
        hyp = j["kind"] == "hyp"
        s = j.get("hyp_s", 0.0)
        f14dom = hyp and s > 300.0
        if not j["finite"]:
            nonfinite += 1
            if f14dom and same_as_model:
                c.violation("F14:hyperbolic-overflow-nonfinite", "non-finite coordinates after the Kepler step (hyperbolic, sqrt(-beta)|dt|/q=%.3g)" % s, rep)
            else:
                c.violation("nonfinite:" + o["path"], "Kepler step returns NaN/inf coordinates (e=%.6g, dt/P=%.3g)" % (o["meta"]["e"], o["meta"]["dtP"]), rep)
            continue
        err = max(j["errx"], j["errv"])
        tol = tolerance(j) * (SAFETY if j["ndt"] < 628.0 else 4 * SAFETY)
        ratio = err / (tolerance(j))
        b = ("hyp" if hyp else "ell") + ("/F14-domain" if f14dom else "")
        if not f14dom:
            ratios.append(ratio)
        w = worst.get(b)
        if w is None or ratio > w["ratio"]:
            worst[b] = {"ratio": ratio, "err": err, "e": j["e"], "ndt": j["ndt"], "path": o["path"]}
        if err > tol:
            rep.update(err=err, tol=tol, hyp_s=s)
            if f14dom and same_as_model:
                f14line += 1
                c.violation("F14:hyperbolic-overflow-straightline",
                            "hyperbolic orbit with sqrt(-beta)|dt|/q=%.3g: result off by %.3g relative (overflow in the Stumpff doubling; %s)"
                            % (s, err, "NaN guard -> straight line" if m["nan"] else "wrong root"), rep)
            else:
                nfail += 1
                c.violation("inexact:" + o["path"].split(":")[0] + ":" + e_bin(o["meta"]["e"]),
                            "Kepler step differs from the exact two-body solution by %.3g relative (allowed %.3g): e=%.8g dt/P=%.4g %s"
                            % (err, tol, o["meta"]["e"], o["meta"]["dtP"], o["path"]), rep)
    ratios.sort()
    c.cov["reference_cases"] = len(olines)
    c.cov["error_over_conditioned_eps"] = {"median": ratios[len(ratios) // 2] if ratios else None,
                                           "p99": ratios[int(len(ratios) * 0.99)] if ratios else None,
                                           "max": ratios[-1] if ratios else None, "allowed": SAFETY}
    c.cov["worst_cases"] = worst
    c.cov["F14_domain_wrong_results"] = f14line
    c.cov["nonfinite_results"] = nonfinite

    # ---------------------------------------------------------------- mass parameter: reb_whfast_kepler_step tie
    nk = 1600 if c.thorough else 80
    klines, kmodel, kmeta = [], [], []
    for i in range(nk):
        rng = c.rng.fork()
        coord = COORDS[i % 4]
        n = rng.randint(1, 5)
        G = 10 ** rng.uniform(-3, 3)
        m0 = 10 ** rng.uniform(-3, 3)
        ms = [m0 * 10 ** rng.uniform(-8, 0.3) if rng.chance(0.8) else 0.0 for _ in range(n)]
        pj0m = (m0 + sum(ms)) * rng.choice([1.0, 1.0, rng.uniform(0.5, 2.0)])     # p_jh[0].m (total mass in real use)
        nact1 = rng.randint(0, n)                                                # number of active ones among 1..n
        nactive_field = -1 if (nact1 == n and rng.chance(0.5)) else nact1 + 1
        # python mirror only to choose sensible orbits (the model computes its own)
        eta, etas = m0, []
        for k in range(n):
            if coord == "jacobi":
                if k < nact1:
                    eta += ms[k]
                etas.append(eta)
            elif coord == "dh":
                etas.append(m0)
            elif coord == "whds":
                etas.append(m0 + ms[k] if k < nact1 else m0)
            else:
                etas.append(pj0m)
        dt = None
        parts = []
        for k in range(n):
            o = gen_orbit(rng, e=rng.uniform(0, 0.9) if rng.chance(0.8) else rng.uniform(1.2, 3.0), M=etas[k] * G,
                          a=10 ** rng.uniform(-1, 1), dt_over_P=rng.uniform(-1, 1) * (1.0 if k else rng.choice([1e-3, 0.1, 3.0])))
            if dt is None:
                dt = o["dt"]
            parts.append([ms[k]] + o["st"])
        flat = " ".join(d2h(v) for pp in parts for v in pp)
        kmodel.append("kstep %s %s %s %s %d %s %s" % (coord, d2h(G), d2h(m0), d2h(pj0m), nact1, d2h(dt), flat))
        klines.append("kstep %d %s %s %d %s %s %s %s" % (i, coord, d2h(G), nactive_field - 1 if nactive_field > 0 else -2, d2h(dt), d2h(m0), d2h(pj0m), flat))
        kmeta.append((coord, n, nact1, nactive_field))
    kmo = run_driver(exe, kmodel)
    keep = [i for i in range(nk) if "hang" not in kmo[i]]
    kro = real.run([klines[i] for i in keep])
    kdis, kfirst, kwithin = 0, None, 0
    khist = {}
    for i in keep:
        coord, n, nact1, naf = kmeta[i]
        mparts = kmo[i].split(" | ")
        mres = " ".join(mparts[1:])
        ans = kro.get(str(i), "")
        khist[coord] = khist.get(coord, 0) + 1
        c.count(("kstep", coord, n, nact1, naf == -1))
        if ans != mres:
            a, b = ans.split(), mres.split()
            good = len(a) == len(b) == 6 * n
            if good:
                for q in range(n):      # orbits here are well conditioned by construction (e<0.9 or 1.2<e<3, |dt|<3P)
                    good = good and reldiff(a[6 * q:6 * q + 6], b[6 * q:6 * q + 6], b[6 * q:6 * q + 6]) <= 1e-9
            if good:
                kwithin += 1
            else:
                kdis += 1
                if kfirst is None:
                    kfirst = {"coordinates": coord, "n": n, "N_active": naf, "model_line": kmodel[i], "model": kmo[i], "impl": ans}
    c.cov["kepler_step_calls_compared"] = {"total": len(keep), "per_coordinates": khist, "not_bit_identical_but_within_1e-9": kwithin, "disagreements": kdis}
    if kdis:
        c.corr_break("%d of %d reb_whfast_kepler_step calls differ from the model (mass parameter per coordinate system / solver)" % (kdis, len(keep)), kfirst)

    # ---------------------------------------------------------------- MERCURIUS / TRACE Kepler steps (exported, in place, dh)
    nh = 600 if c.thorough else 40
    hmodel, hlines, hmeta = [], [], []
    for i in range(nh):
        rng = c.rng.fork()
        which = ("mercurius", "trace")[i % 2]
        n = rng.randint(1, 4)
        G = 10 ** rng.uniform(-3, 3)
        m0 = 10 ** rng.uniform(-3, 3)
        dt = None
        parts = []
        for k in range(n):
            o = gen_orbit(rng, e=rng.uniform(0, 0.9) if rng.chance(0.8) else rng.uniform(1.2, 3.0), M=G * m0,
                          a=10 ** rng.uniform(-1, 1), dt_over_P=rng.uniform(-1, 1) * (1.0 if k else rng.choice([1e-3, 0.1, 3.0])))
            if dt is None:
                dt = o["dt"]
            parts.append([m0 * 10 ** rng.uniform(-6, 0)] + o["st"])
        flat = " ".join(d2h(v) for pp in parts for v in pp)
        hmodel.append("hstep %s %s %s %s" % (d2h(G), d2h(m0), d2h(dt), flat))
        hlines.append("hstep %d %s %s %s %s %s" % (i, which, d2h(G), d2h(dt), d2h(m0), flat))
        hmeta.append((which, n))
    hmo = run_driver(exe, hmodel)
    hkeep = [i for i in range(nh) if "hang" not in hmo[i]]
    hro = real.run([hlines[i] for i in hkeep])
    hdis, hfirst, hwithin = 0, None, 0
    for i in hkeep:
        which, n = hmeta[i]
        mres = " ".join(hmo[i].split(" | ")[1:])
        ans = hro.get(str(i), "")
        c.count(("hstep", which, n))
        if ans != mres:
            a, b = ans.split(), mres.split()
            good = len(a) == len(b) == 6 * n
            if good:
                for q in range(n):
                    good = good and reldiff(a[6 * q:6 * q + 6], b[6 * q:6 * q + 6], b[6 * q:6 * q + 6]) <= 1e-9
            if good:
                hwithin += 1
            else:
                hdis += 1
                if hfirst is None:
                    hfirst = {"routine": which, "n": n, "model_line": hmodel[i], "model": hmo[i], "impl": ans}
    c.cov["hybrid_kepler_step_calls_compared"] = {"total": len(hkeep), "not_bit_identical_but_within_1e-9": hwithin, "disagreements": hdis}
    if hdis:
        c.corr_break("%d of %d reb_integrator_mercurius_kepler_step / reb_integrator_trace_whfast_step calls differ from the model (M = G*particles[0].m)" % (hdis, len(hkeep)), hfirst)

    # ---------------------------------------------------------------- MERCURIUS / TRACE jump steps (exported): particle range of the momentum sum
    nj = 400 if c.thorough else 60
    jl, jm, jmeta = [], [], []
    for i in range(nj):
        rng = c.rng.fork()
        which = ("mercurius", "trace")[i % 2]
        n = rng.randint(1, 5)
        tpt = rng.randint(0, 1)
        nactive = rng.choice([-1, 1, 1] + list(range(1, n + 2)))
        nact1 = n if nactive == -1 else nactive - 1
        dt = rng.normal() * 10 ** rng.uniform(-3, 1)
        m0 = 10 ** rng.uniform(-3, 3)
        parts = [[m0 * 10 ** rng.uniform(-6, 0) if rng.chance(0.8) else 0.0] + [rng.normal() for _ in range(6)] for _ in range(n)]
        jl.append("jump %d %s %d %d %s %s %s" % (i, which, tpt, nactive, d2h(dt), d2h(m0), " ".join(d2h(v) for pp in parts for v in pp)))
        for comp in range(3):
            jm.append("jump %s %d %d %s %s %s" % (which, tpt, nact1, d2h(dt), d2h(m0),
                                                  " ".join("%s %s %s" % (d2h(pp[0]), d2h(pp[4 + comp]), d2h(pp[1 + comp])) for pp in parts)))
        jmeta.append((which, tpt, nactive, n, parts))
    jmo = run_driver(exe, jm)
    jro = real.run(jl)
    jdis, jfirst = 0, None
    for i in range(nj):
        which, tpt, nactive, n, parts = jmeta[i]
        a = jro.get(str(i), "").split()
        c.count(("jump", which, tpt, nactive, n))
        good = len(a) == 6 * n
        if good:
            for comp in range(3):
                mres = jmo[3 * i + comp].split()
                good = good and mres == [a[6 * q + comp] for q in range(n)]
            good = good and all(a[6 * q + 3 + comp] == d2h(parts[q][4 + comp]) for q in range(n) for comp in range(3))
        if not good:
            jdis += 1
            if jfirst is None:
                jfirst = {"routine": which, "testparticle_type": tpt, "N_active": nactive, "n": n, "model": jmo[3 * i:3 * i + 3], "impl": " ".join(a)}
    c.cov["hybrid_jump_step_calls_compared_bitwise"] = {"total": nj, "disagreements": jdis}
    if jdis:
        c.corr_break("%d of %d reb_integrator_mercurius_jump_step / reb_integrator_trace_jump_step calls differ from the model (particle range of the momentum sum: N_active for testparticle_type 0, N for type 1)" % (jdis, nj), jfirst)

    # ---------------------------------------------------------------- WHFast's own jump step and com step (exported)
    nw = 400 if c.thorough else 80
    wl, wm, wmeta2 = [], [], []
    for i in range(nw):
        rng = c.rng.fork()
        coord = COORDS[i % 4]
        n = rng.randint(1, 5)
        tpt = rng.randint(0, 1)
        nactive = rng.choice([-1, 1, 1] + list(range(1, n + 2)))
        nact1 = n if (nactive == -1 or tpt == 1) else nactive - 1
        dt = rng.normal() * 10 ** rng.uniform(-3, 1)
        m0 = 10 ** rng.uniform(-3, 3)
        slot0 = [rng.normal() for _ in range(6)]
        parts = [[m0 * 10 ** rng.uniform(-6, 0) if rng.chance(0.8) else 0.0] + [rng.normal() for _ in range(6)] for _ in range(n)]
        wl.append("wjump %d %s %d %d %s %s %s %s" % (i, coord, tpt, nactive, d2h(dt), d2h(m0), " ".join(d2h(v) for v in slot0),
                                                     " ".join(d2h(v) for pp in parts for v in pp)))
        for comp in range(3):
            wm.append("wjump %s %d %s %s %s %s %s" % (coord, nact1, d2h(dt), d2h(m0), d2h(slot0[comp]), d2h(slot0[3 + comp]),
                                                      " ".join("%s %s %s" % (d2h(pp[0]), d2h(pp[4 + comp]), d2h(pp[1 + comp])) for pp in parts)))
        wmeta2.append((coord, tpt, nactive, n, slot0, parts))
    wmo = run_driver(exe, wm)
    wro2 = real.run(wl)
    wdis, wfirst = 0, None
    wh = {}
    for i in range(nw):
        coord, tpt, nactive, n, slot0, parts = wmeta2[i]
        a = wro2.get(str(i), "").split()
        c.count(("wjump", coord, tpt, nactive, n))
        wh[coord] = wh.get(coord, 0) + 1
        good = len(a) == 6 * (n + 1)
        if good:
            for comp in range(3):
                mres = wmo[3 * i + comp].split()
                good = good and mres == [a[6 * q + comp] for q in range(n + 1)]
            vel0 = [d2h(v) for v in slot0[3:]]
            good = good and a[3:6] == vel0 and all(a[6 * (q + 1) + 3 + comp] == d2h(parts[q][4 + comp]) for q in range(n) for comp in range(3))
        if not good:
            wdis += 1
            if wfirst is None:
                wfirst = {"coordinates": coord, "testparticle_type": tpt, "N_active": nactive, "n": n, "model": wmo[3 * i:3 * i + 3], "impl": " ".join(a)}
    c.cov["whfast_jump_com_step_calls_compared_bitwise"] = {"total": nw, "per_coordinates": wh, "disagreements": wdis}
    if wdis:
        c.corr_break("%d of %d reb_whfast_jump_step + reb_whfast_com_step calls differ from the model (momentum sum over the active particles; WHDS own-term; slot 0 drift)" % (wdis, nw), wfirst)

    # ---------------------------------------------------------------- tangent map tie
    nv = 5000 if c.thorough else 250
    vcases, vlines = [], []
    for i in range(nv):
        rng = c.rng.fork()
        o = gen_orbit(rng)
        sx = max(abs(v) for v in o["st"][:3]); sv = max(abs(v) for v in o["st"][3:]) or 1.0
        kind = rng.randint(0, 2)
        dst = [rng.normal() * sx * (kind != 1) for _ in range(3)] + [rng.normal() * sv * (kind != 2) for _ in range(3)]
        o["dst"] = dst
        vcases.append(o)
        vlines.append("var " + " ".join(d2h(v) for v in [o["M"]] + o["st"] + [o["dt"]] + dst))
    vmo = run_driver(exe, vlines)
    vkeep = [i for i in range(nv) if not vmo[i].startswith("hang")]
    vro = real.run(["var %d %s" % (i, vlines[i].split(None, 1)[1]) for i in vkeep])
    vdis, vfirst, vpend = 0, None, []
    for i in vkeep:
        t = vmo[i].split()
        ans = vro.get(str(i), "")
        c.count(("var", t[12], t[14], t[15], t[17], e_bin(vcases[i]["meta"]["e"])))
        if " ".join(t[:12]) != ans:
            if len(ans.split()) == 12:
                vpend.append(i)
            else:
                vdis += 1
                if vfirst is None:
                    vfirst = {"input": vlines[i], "model": vmo[i], "impl": ans, "meta": vcases[i]["meta"]}
    # reference for every variational case: 50-digit flow + central-difference tangent (100 digits)
    vol = []
    for i in vkeep:
        a = vro.get(str(i), "").split()
        if len(a) == 12:
            t = vlines[i].split()
            vol.append("%d %s %s %s %s" % (i, " ".join(t[1:9]), " ".join(a[:6]), " ".join(t[9:15]), " ".join(a[6:12])))
    vref = run_oracle(vol)
    vwithin = 0
    for i in vpend:
        j = vref.get(str(i))
        a, b = vro[str(i)].split(), vmo[i].split()[:12]
        good = j is not None and "error" not in j and j["kind"] != "line" and j.get("finite", False)
        if good:
            unit = SAFETY * tolerance(j)
            good = reldiff(a[:6], b[:6], j["ref"]) <= unit and reldiff(a[6:], b[6:], j.get("tref", b[6:])) <= unit * (1 + j["ndt"])
        if good:
            vwithin += 1
        else:
            vdis += 1
            if vfirst is None:
                vfirst = {"input": vlines[i], "model": vmo[i], "impl": vro[str(i)], "meta": vcases[i]["meta"]}
    # search: the tangent map of the real code against the derivative of the exact flow
    tworst, tn = None, 0
    for i in vkeep:
        j = vref.get(str(i))
        if j is None or "error" in j or j["kind"] == "line" or "tref" not in j:
            continue
        if j["kind"] == "hyp" and j["hyp_s"] > 300.0:
            continue                         # F14 domain (reported by the solver part)
        o = vcases[i]
        rep = {"M": o["M"], "state": o["st"], "dt": o["dt"], "variation": o["dst"], "meta": o["meta"],
               "got": [h2d(x) for x in vro[str(i)].split()[6:12]], "reference": [h2d(x) for x in j["tref"]]}
        tn += 1
        if not j.get("tfinite", False):
            c.violation("tangent-nonfinite", "variational particle is NaN/inf after the Kepler step (e=%.6g dt/P=%.3g)" % (o["meta"]["e"], o["meta"]["dtP"]), rep)
            continue
        unit = tolerance(j) * (1 + j["ndt"])
        terr = max(j["terrx"], j["terrv"])
        if tworst is None or terr / unit > tworst["ratio"]:
            tworst = {"ratio": terr / unit, "err": terr, "e": j["e"], "ndt": j["ndt"]}
        if terr > SAFETY * unit:
            rep.update(err=terr, allowed=SAFETY * unit)
            c.violation("tangent-inexact:" + ("hyp" if j["kind"] == "hyp" else "ell"),
                        "tangent map of the Kepler step differs from the derivative of the exact flow by %.3g (allowed %.3g), e=%.6g dt/P=%.3g"
                        % (terr, SAFETY * unit, o["meta"]["e"], o["meta"]["dtP"]), rep)
    c.cov["tangent_map_search"] = {"cases": tn, "worst_error_over_unit": tworst, "allowed": SAFETY}
    c.cov["tangent_map_calls_compared"] = {"total": len(vkeep), "not_bit_identical_but_within_tolerance": vwithin, "disagreements": vdis}
    if vdis:
        c.corr_break("%d of %d solver calls with a variational particle differ from the model (stumpff_cs / stiefel_Gs / tangent map)" % (vdis, len(vkeep)), vfirst)

    # ---------------------------------------------------------------- one full sim.step() per integrator
    groups = [("whfast", "jacobi", "any"), ("whfast", "whds", "any"), ("saba", "-", "any"),
              ("whfast", "dh", "test"), ("whfast", "bary", "test"), ("mercurius", "-", "test"), ("trace", "-", "test")]
    per = 600 if c.thorough else 48
    slines, sinfo = [], []
    for integ, coord, mk in groups:
        for rep in range(per):
            rng = c.rng.fork()
            while True:
                o = gen_orbit(rng)
                e = o["meta"]["e"]
                if e > 1 and 2 * math.pi * abs(o["meta"]["dtP"]) / (e - 1) > 100.0:
                    continue           # F14 domain is covered by the solver part
                if integ == "trace" and 2 * math.pi * abs(o["meta"]["dtP"]) * abs(1 - e) ** -1.5 > 0.3:
                    continue           # TRACE "away from encounters": steps that resolve the pericentre passage
                                       # (otherwise its pericentre switch hands the step to BS, which is not C03's
                                       # subject and can take minutes for e -> 1)
                break
            if integ == "trace":
                o["dt"] = abs(o["dt"])          # TRACE with dt<0 is finding F10 (C01/C08)
                o["meta"]["dtP"] = abs(o["meta"]["dtP"])
            G, mt = o["G"], o["m"]
            # role of the orbiting body: active (N_active=-1), type-0 test particle (N_active=1; may CARRY MASS:
            # it is then only ignored as a source, the exact orbit has mu = G m0 - c03_mass_parameter_*,
            # c03_hybrid_jump_lone_testparticle), type-1 semi-active particle (N_active=1, testparticle_type=1:
            # acts like an active one, mu = G (m0+m1) where the two-body splitting is exact)
            role = ("active", "tp0", "tp1")[rep % 3]
            if role == "tp0":
                m1 = rng.choice([0.0, mt * 1e-3, mt * 1e-3, mt * rng.uniform(0.05, 0.5)])
                if integ == "trace" and m1 > mt * 1e-3:
                    m1 = mt * 1e-3      # a heavier body is inside TRACE's own Hill-radius encounter criterion (BS, 1e-12)
                m0 = mt
            else:
                if mk == "test":
                    m1 = 0.0
                else:
                    m1 = rng.choice([0.0, mt * 1e-12, mt * 1e-3, mt * rng.uniform(0.05, 0.5)])
                m0 = mt - m1
            nactive, tpt = {"active": (-1, 0), "tp0": (1, 0), "tp1": (1, 1)}[role]
            sx = math.sqrt(sum(v * v for v in o["st"][:3])); sv = math.sqrt(sum(v * v for v in o["st"][3:]))
            offk = 0.0 if rep % 2 == 0 else rng.uniform(0.1, 2.0)
            off = [rng.normal() * sx * offk for _ in range(3)] + [rng.normal() * sv * offk for _ in range(3)]
            k = len(slines)
            slines.append("step %d %s %s %d %d %s" % (k, integ, coord, nactive, tpt, " ".join(d2h(v) for v in [G, m0, m1] + o["st"] + [o["dt"]] + off)))
            sinfo.append((integ, coord, (G * m0 if role == "tp0" else G * (m0 + m1)), o, m1 / mt, offk, role))
    c.log("one full step of %d two-body simulations (%d integrator configurations)" % (len(slines), len(groups)))
    sro = real.run(slines)
    sol = []
    for k, (integ, coord, GM, o, mr, offk, role) in enumerate(sinfo):
        ans = sro.get(str(k), "")
        t = ans.split()
        if len(t) >= 8 and t[0] not in ("exception",):
            sol.append("%d %s %s" % (k, " ".join(d2h(v) for v in [GM] + o["st"] + [o["dt"]]), " ".join(t[:6])))
    sref = run_oracle(sol)
    sworst = {}
    rolehist = {}
    skipped_trace = 0
    for k, (integ, coord, GM, o, mr, offk, role) in enumerate(sinfo):
        name = integ + ("/" + coord if coord != "-" else "") + ":" + role
        ans = sro.get(str(k), "")
        t = ans.split()
        rep = {"role": role, "N_active": (-1 if role == "active" else 1), "testparticle_type": (1 if role == "tp1" else 0), "mu_expected": GM, "integrator": integ, "coordinates": coord, "G": o["G"], "m_total": o["m"], "m1_over_mtotal": mr, "state_rel": o["st"],
               "dt": o["dt"], "meta": o["meta"], "offset_scale": offk, "answer": ans[:200]}
        c.count(("step", name, e_bin(o["meta"]["e"]), dt_bin(o["meta"]["dtP"]), mr == 0))
        rolehist[name + (":massive" if mr != 0 else ":massless")] = rolehist.get(name + (":massive" if mr != 0 else ":massless"), 0) + 1
        if ans in ("HANG", "CRASH") or len(t) < 8 or t[0] == "exception":
            c.violation("step-%s:%s" % (ans.split()[0].lower() if ans else "noanswer", name),
                        "one %s step of a two-body system: %s (e=%.6g dt/P=%.4g)" % (name, ans[:80], o["meta"]["e"], o["meta"]["dtP"]), rep)
            continue
        if integ in ("trace", "mercurius") and t[7] != "0":
            skipped_trace += 1          # pericentre switch fired: not the Kepler solver (not "away from encounters")
            continue
        j = sref[str(k)]
        if not j.get("finite", False):
            c.violation("step-nonfinite:" + name, "one %s step returns NaN/inf" % name, rep)
            continue
        err = max(j["errx"], j["errv"])
        # one DKD step is two Kepler half steps: the rounding error of the first is carried through the second,
        # whose Jacobian is bounded by J = max_orbit(kbeta) * n|dt| * amp  (max kbeta = 4/|1-e|);
        # calibrated on 5000 clean-tree steps: max err/unit = 2.2 with this factor, 4.8e6 without
        e_ = j["e"]
        J = (4.0 / abs(1.0 - e_) if e_ != 1.0 else float("inf")) * j["ndt"] * max(1.0, j["amp_x"], j["amp_v"])
        unit = tolerance(j) * (1.0 + J) * (1.0 + 2.0 * offk)
        ratio = err / unit
        w = sworst.get(name)
        if w is None or ratio > w["ratio"]:
            sworst[name] = {"ratio": ratio, "err": err, "e": j["e"], "ndt": j["ndt"]}
        if err > unit * SAFETY * 4:
            rep.update(err=err, allowed=unit * SAFETY * 4, reference=[h2d(x) for x in j["ref"]])
            c.violation("step-inexact:" + name, "one %s step of a two-body system is off the exact Kepler orbit by %.3g relative (allowed %.3g), e=%.6g dt/P=%.4g"
                        % (name, err, unit * SAFETY * 4, o["meta"]["e"], o["meta"]["dtP"]), rep)
    c.cov["full_step"] = {"cases": len(slines), "cases_per_configuration": dict(sorted(rolehist.items())), "worst_error_over_unit": sworst, "allowed": SAFETY * 4,
                          "trace_cases_skipped_because_pericentre_switch_fired": skipped_trace,
                          "not_covered": "WHFast512 (needs AVX512, not compiled here)"}

    # ---------------------------------------------------------------- histories: options x time x callbacks x restores x edits
    rows, pairs_total, pairs_excluded, pairs_infeasible = covering_array()
    reps = 6 if c.thorough else 2                    # thorough: the array six times with fresh random fills
    order = list(range(len(rows)))
    if not c.thorough and len(rows) > 320:           # quick: a seed-rotated slice
        k0 = (c.seed * 320) % len(rows)
        order = [(k0 + q) % len(rows) for q in range(320)]
    specs = []
    for rep_ in range(reps):
        for q in order:
            rng = c.rng.fork()
            specs.append(build_history(rng, rows[q]))
    if c.thorough:                                   # 3-way: full factorial of the factors closest to the solver
        for cfg_ in CFG_NAMES:
            for ds_ in FACTORS["dtsign"]:
                for ob_ in FACTORS["orbit"]:
                    for sl_ in FACTORS["steplen"]:
                        for pt_ in FACTORS["pattern"]:
                            rng = c.rng.fork()
                            for _ in range(30):
                                fv = {f: rng.choice(FACTORS[f]) for f in FNAMES}
                                fv.update(cfg=cfg_, dtsign=ds_, orbit=ob_, steplen=sl_, pattern=pt_)
                                if case_valid(fv):
                                    specs.append(build_history(rng, fv))
                                    break
    c.cov["pairs_array_rows"] = len(rows)
    # star + many type-0 test particles (allocation boundaries 128 / 1024)
    for K, (integ, coord) in ([(1100, ("whfast", "dh")), (130, ("whfast", "jacobi")), (130, ("mercurius", "-")), (1030, ("saba", "-"))] if c.thorough
                              else [(130, ("whfast", "jacobi")), (130, ("mercurius", "-"))]):
        rng = c.rng.fork()
        G = 10 ** rng.uniform(-2, 2); m0 = 10 ** rng.uniform(-2, 2)
        bodies, orbs = [], []
        dt = None
        for q in range(K):
            o = gen_orbit(rng, e=rng.uniform(0, 0.8), M=G * m0, a=10 ** rng.uniform(0, 1), dt_over_P=0.01 if dt is None else None)
            if dt is None:
                dt = o["dt"]
            bodies.append([0.0, o["st"]]); orbs.append(o)
        sp = {"G": G, "m0": m0, "bodies": bodies, "off": [0.0] * 6, "dt": dt, "integ": integ, "coord": coord,
              "nactive": 1, "tpt": 0, "opts": {}, "actions": [["steps", 3]]}
        specs.append((sp, {"scale:N_%s_test_particles" % (">1024" if K > 1024 else ">128")}, G * m0, orbs, 0.0))
    c.log("%d two-body histories (options, callbacks, restores, edits, switches) on the real code" % len(specs))
    qro = real.run(["seq %d %s" % (i, json.dumps(sp[0])) for i, sp in enumerate(specs)])
    qol, qmeta = [], {}
    dims = {}
    pairs_seen = set()
    seq_fail = 0
    for i, (sp, tags, GM, o, offk) in enumerate(specs):
        ans = qro.get(str(i), "")
        cfg = sp["integ"] + ("/" + sp["coord"] if sp["coord"] != "-" else "")
        rep0 = {"spec": sp, "tags": sorted(tags), "mu_expected": GM, "answer": ans[:300]}
        if not ans.startswith("J "):
            c.count(("seq", cfg, tuple(sorted(tags))))
            c.violation("history-%s:%s" % ((ans.split()[0].lower() if ans else "noanswer"), cfg),
                        "a two-body history with %s (%s): %s" % (cfg, ", ".join(sorted(tags))[:200], ans[:120]), rep0)
            continue
        R = json.loads(ans[2:])
        if R["mode"] != 0:
            continue                       # a TRACE pericentre switch / encounter fired somewhere: not the Kepler path
        for tg in tags | {"option:G_not_1"}:
            dims[tg] = dims.get(tg, 0) + 1
        fv_ = sp.get("factors")
        if fv_:
            for a_i, f_ in enumerate(FNAMES):
                for g_ in FNAMES[a_i + 1:]:
                    pairs_seen.add((f_, fv_[f_], g_, fv_[g_]))
        c.count(("seq", cfg, tuple(sorted(tags))))
        cps = R["cps"]
        start = [b[1] for b in sp["bodies"]]
        vstart = sp.get("var")
        seg = 0
        for cp in cps:
            if cp["el"] is None:
                start, vstart = cp["rel"], cp["var"]
                continue
            for b in range(len(start)):
                cid = "%d_%d_%d" % (i, seg, b)
                l = "%s %s %s" % (cid, " ".join(d2h(v) for v in [GM] + start[b] + [cp["el"]]), " ".join(d2h(v) for v in cp["rel"][b]))
                if vstart is not None and cp["var"] is not None and b == 0:
                    l += " " + " ".join(d2h(v) for v in vstart) + " " + " ".join(d2h(v) for v in cp["var"])
                qol.append(l)
                qmeta[cid] = (i, seg, b, cp.get("path", abs(cp["el"])))
            start, vstart = cp["rel"], cp["var"]
            seg += 1
    qref = run_oracle(qol)
    qworst = {}
    tworst2 = 0.0
    for cid, (i, seg, b, pathlen) in qmeta.items():
        sp, tags, GM, o, offk = specs[i]
        j = qref.get(cid)
        cfg = sp["integ"] + ("/" + sp["coord"] if sp["coord"] != "-" else "")
        rep = {"spec": sp if len(sp["bodies"]) < 5 else {k: v for k, v in sp.items() if k != "bodies"}, "tags": sorted(tags), "mu_expected": GM, "segment": seg, "body": b}
        if j is None or "error" in j:
            raise Infra("reference gave no answer for history %s: %s" % (cid, j))
        if j["kind"] == "line":
            continue
        if not j.get("finite", False):
            c.violation("history-nonfinite:" + cfg, "a two-body history with %s (%s) ends with NaN/inf coordinates" % (cfg, ", ".join(sorted(tags))[:200]), rep)
            continue
        if j["kind"] == "hyp" and j["hyp_s"] > 100.0:
            continue                                   # F14 domain
        e_ = j["e"]
        # rounding accumulates along the path actually travelled (forward and back), not the net time
        jj = dict(j)
        a_ = abs(j["a"])
        ndt_path = math.sqrt(GM / a_ ** 3) * pathlen if (a_ > 0 and a_ == a_ and GM > 0) else j["ndt"]
        jj["ndt"] = max(j["ndt"], ndt_path)
        J = (4.0 / abs(1.0 - e_) if e_ != 1.0 else float("inf")) * jj["ndt"] * max(1.0, j["amp_x"], j["amp_v"])
        unit = tolerance(jj) * (1.0 + J) * (1.0 + 2.0 * offk)
        err = max(j["errx"], j["errv"])
        ratio = err / unit
        if ratio > qworst.get(cfg, (0,))[0]:
            qworst[cfg] = (ratio, err, sorted(tags))
        if err > unit * SAFETY * 16:
            seq_fail += 1
            rep.update(err=err, allowed=unit * SAFETY * 16, got=None, reference=[h2d(x) for x in j["ref"]])
            Rj = json.loads(qro[str(i)][2:])
            fin = Rj.get("final", ["", "", ""])
            g_ = Rj.get("gravity")
            if (any(a[0] == "switch" for a in sp["actions"]) and fin[0] in ("whfast", "saba") and fin[2] == "default"
                    and (g_ in ("trace", "mercurius") or (g_ == "jacobi" and fin[0] == "whfast" and fin[1] != "jacobi"))):
                c.violation("FC03a:whfast-keeps-previous-integrators-gravity-routine",
                            "integrator switched to %s on a simulation stepped with %s before: r->gravity stays '%s' and the two-body orbit is off by %.3g relative"
                            % ("/".join(fin[:2]), sp["integ"], g_, err), rep)
                continue
            c.violation("history-inexact:" + cfg, "a two-body history with %s (%s) leaves the exact Kepler orbit by %.3g relative (allowed %.3g), e=%.6g"
                        % (cfg, ", ".join(sorted(tags))[:240], err, unit * SAFETY * 16, e_), rep)
        if "terrx" in j and SAFETY * 16 * unit * (1 + jj["ndt"]) < 1e-6:      # (beyond that the tangent is too ill-conditioned to say anything)
            tunit = unit * (1 + jj["ndt"])
            terr = max(j["terrx"], j["terrv"])
            tworst2 = max(tworst2, terr / tunit)
            if terr > SAFETY * 16 * tunit:
                rep.update(err=terr, allowed=SAFETY * 16 * tunit)
                c.violation("history-tangent-inexact:" + cfg, "variational particle riding along a two-body history with %s (%s) differs from the derivative of the exact flow by %.3g (allowed %.3g)"
                            % (cfg, ", ".join(sorted(tags))[:200], terr, SAFETY * 16 * tunit), rep)
    c.cov["histories"] = {"cases": len(specs), "segments_checked": len(qmeta), "allowed": SAFETY * 16,
                          "worst_error_over_unit": {k: {"ratio": v[0], "err": v[1], "tags": v[2]} for k, v in qworst.items()},
                          "tangent_worst_error_over_unit": tworst2}
    # dimensions crossed with the core oracle (see notes/C03.md for the ones not applicable)
    hist = c.cov.get("branch_histogram", {})
    dims["solver_tie:dt_negative"] = sum(1 for o in cases if o["dt"] < 0)
    dims["solver_tie:elliptic_bisection_dt_negative"] = sum(1 for o in cases if o["dt"] < 0 and o.get("path", "").startswith("ell") and "bisection" in o.get("path", ""))
    dims["solver_tie:hyperbolic_dt_negative"] = sum(1 for o in cases if o["dt"] < 0 and o.get("path", "").startswith("hyp"))
    dims["solver_tie:step_longer_than_period"] = sum(1 for o in cases if abs(o["meta"]["dtP"]) > 1)
    dims["solver_tie:variational_particle_nonzero"] = len(vkeep)
    dims["kepler_step_tie:N_active_lt_N"] = sum(1 for m in kmeta if m[3] != -1 and m[2] < m[1])
    dims["jump_step_tie:testparticle_type_1"] = sum(1 for m in jmeta if m[1] == 1)
    for k, v in c.cov["full_step"]["cases_per_configuration"].items():
        r_ = "full_step_role:" + k.split(":")[1] + ":" + k.split(":")[2]
        dims[r_] = dims.get(r_, 0) + v
    required = [f + "=" + v for f in FNAMES for v in FACTORS[f]] + \
               ["option:G_not_1", "scale:N_>128_test_particles", "solver_tie:elliptic_bisection_dt_negative", "solver_tie:hyperbolic_dt_negative",
                "solver_tie:variational_particle_nonzero", "kepler_step_tie:N_active_lt_N", "jump_step_tie:testparticle_type_1"]
    if c.thorough:
        required.append("scale:N_>1024_test_particles")
    for k in required:
        dims.setdefault(k, 0)
    # pairwise coverage of the history factors: pairs of evaluated cases against the pairs that are not excluded
    need_pairs = set()
    for a_i, f_ in enumerate(FNAMES):
        for g_ in FNAMES[a_i + 1:]:
            for va in FACTORS[f_]:
                for vb in FACTORS[g_]:
                    if not pair_forbidden(f_, va, g_, vb) and (f_, va, g_, vb) not in pairs_infeasible:
                        need_pairs.add((f_, va, g_, vb))
    missing_pairs = sorted(need_pairs - pairs_seen)
    reasons = {}
    for v in pairs_excluded.values():
        reasons[v] = reasons.get(v, 0) + 1
    c.cov["pairs"] = {"covered": len(need_pairs & pairs_seen), "total": len(need_pairs), "excluded": len(pairs_excluded) + len(pairs_infeasible),
                      "factors": {f: len(FACTORS[f]) for f in FNAMES}, "array_rows": len(rows), "repetitions": reps,
                      "excluded_reasons": reasons, "missing": [list(m) for m in missing_pairs[:20]],
                      "three_way": "cfg x dtsign x orbit x steplen x pattern full factorial (valid cells) in the thorough tier"}
    if c.thorough and missing_pairs:
        c.broken.append("proof obligation: pairwise coverage of the history factors incomplete: %d of %d pairs evaluated, e.g. %s"
                        % (len(need_pairs & pairs_seen), len(need_pairs), missing_pairs[:3]))
    c.cov["dimensions"] = dict(sorted(dims.items()))
    for k in required:
        if dims[k] == 0:
            c.broken.append("proof obligation: dimension %s not covered by this run" % k)

    # ---------------------------------------------------------------- entry points (extracted from the sources of this run)
    import re as _re
    callers = {}
    KEP = r"\b(reb_whfast_kepler_solver|reb_whfast_kepler_step|reb_integrator_mercurius_kepler_step|reb_integrator_trace_whfast_step|reb_integrator_trace_kepler_step|reb_whfast512_kepler_step)\s*\("
    for fn_ in ("integrator_whfast.c", "integrator_saba.c", "integrator_mercurius.c", "integrator_trace.c", "integrator_whfast512.c"):
        src_ = open(os.path.join(REPO, "src", fn_)).read()
        starts = [(m.start(), m.group(1)) for m in _re.finditer(r"^(?:static\s+)?(?:inline\s+)?(?:void|int|double|unsigned int)\s+(\w+)\s*\([^;{]*\)\s*\{", src_, flags=_re.M)]
        for m in _re.finditer(KEP, src_):
            enc = [n for p_, n in starts if p_ < m.start()]
            if enc and enc[-1] != m.group(1):
                callers.setdefault(enc[-1], set()).add(m.group(1))
    hdr = open(os.path.join(REPO, "src", "rebound.h")).read()
    exported = set(_re.findall(r"DLLEXPORT\s+[\w\s\*]+?\b(reb_simulation_step|reb_simulation_steps|reb_simulation_integrate|reb_simulation_synchronize|reb_whfast_kepler_step)\s*\(", hdr))
    pysrc = open(os.path.join(REPO, "rebound", "simulation.py")).read()
    setter = pysrc[pysrc.index("def integrator(self, value):"):]
    setter = setter[:setter.index("@property")]
    spellings = set(_re.findall(r'value\s*==\s*"(\w+)"', setter))
    sabasrc = open(os.path.join(REPO, "rebound", "integrators", "saba.py")).read()
    saba_types = _re.findall(r'"([\w,]+)"\s*:\s*0x', sabasrc)
    spellings |= {"saba" + t_ for t_ in saba_types} | {"whfast", "saba", "mercurius", "trace", "WHFast", "SABA(10,6,4)", "Mercurius", "TRACE"}
    # how each caller is reached: counts come from this run's evaluated cases
    corr_n = sum(v for k, v in dims.items() if k == "variant=corrector")
    reach = {
        "reb_whfast_kepler_step": c.cov["kepler_step_calls_compared"]["total"],
        "reb_integrator_mercurius_kepler_step": c.cov["hybrid_kepler_step_calls_compared"]["total"],
        "reb_integrator_trace_whfast_step": c.cov["hybrid_kepler_step_calls_compared"]["total"],
        "reb_whfast_corrector_Z": dims.get("variant=corrector", 0),
        "reb_whfast_operator_C": dims.get("variant=kernel_corrector2", 0),
        "reb_whfast_operator_U": dims.get("variant=kernel_corrector2", 0),
        "reb_whfast_operator_Uinv": dims.get("variant=kernel_corrector2", 0),
        "reb_integrator_whfast_part1": sum(v for k, v in dims.items() if k.startswith("cfg=whfast")),
        "reb_integrator_whfast_part2": sum(v for k, v in dims.items() if k.startswith("cfg=whfast")),
        "reb_integrator_whfast_synchronize": dims.get("safe=safe0", 0) + dims.get("safe=safe1", 0),
        "reb_integrator_saba_part1": dims.get("cfg=saba", 0), "reb_integrator_saba_part2": dims.get("cfg=saba", 0),
        "reb_integrator_saba_synchronize": dims.get("cfg=saba", 0),
        "reb_integrator_mercurius_part2": dims.get("cfg=mercurius", 0),
        "reb_integrator_trace_kepler_step": dims.get("cfg=trace", 0), "reb_integrator_trace_step": dims.get("cfg=trace", 0),
    }
    # smoke + oracle: every Python spelling, the debug operator, each exported C routine
    esp, emeta = [], []
    for sp_name in sorted(spellings):
        rng = c.rng.fork()
        o = gen_orbit(rng, e=rng.uniform(0, 0.5), dt_over_P=10 ** rng.uniform(-3, -2), M=None)
        esp.append({"G": o["G"], "m0": o["m"], "bodies": [[0.0, o["st"]]], "off": [0.0] * 6, "dt": abs(o["dt"]) , "integ": "spelling", "coord": "-",
                    "nactive": -1, "tpt": 0, "opts": {}, "spelling": sp_name, "actions": [["steps", 2]]})
        emeta.append(("python:sim.integrator='%s'" % sp_name, o["G"] * o["m"], o))
    for coord_ in COORDS:
        rng = c.rng.fork()
        o = gen_orbit(rng, e=rng.uniform(0, 0.8), dt_over_P=10 ** rng.uniform(-2, 0))
        esp.append({"G": o["G"], "m0": o["m"], "bodies": [[0.0, o["st"]]], "off": [0.0] * 6, "dt": o["dt"], "integ": "whfast", "coord": coord_,
                    "nactive": -1, "tpt": 0, "opts": {}, "debug_operator_kepler": 1, "actions": [["debug_kepler", 1.0], ["debug_kepler", -0.25]]})
        emeta.append(("reb_integrator_whfast_debug_operator_kepler/" + coord_, o["G"] * o["m"], o))
    ero = real.run(["seq e%d %s" % (i, json.dumps(sp_)) for i, sp_ in enumerate(esp)])
    eol = []
    for i, (name_, GM_, o_) in enumerate(emeta):
        a_ = ero.get("e%d" % i, "")
        if a_.startswith("J "):
            cp_ = json.loads(a_[2:])["cps"][-1]
            eol.append("e%d %s %s" % (i, " ".join(d2h(v) for v in [GM_] + o_["st"] + [cp_["el"]]), " ".join(d2h(v) for v in cp_["rel"][0])))
    eref = run_oracle(eol)
    entry_ok = {}
    for i, (name_, GM_, o_) in enumerate(emeta):
        a_ = ero.get("e%d" % i, "")
        j = eref.get("e%d" % i)
        c.count(("entry", name_))
        if "whfast512" in name_:
            continue                      # handled by the AVX512 section below
        if j is None or not a_.startswith("J "):
            c.violation("entry-point-fails:" + name_, "public entry point %s on a two-body system: %s" % (name_, a_[:150]), {"spec": esp[i]})
            continue
        err_ = max(j["errx"], j["errv"]) if j.get("finite") else float("inf")
        e__ = j["e"]
        J_ = (4.0 / abs(1.0 - e__)) * j["ndt"] * max(1.0, j["amp_x"], j["amp_v"])
        if not err_ <= tolerance(j) * (1 + J_) * SAFETY * 16:
            c.violation("entry-point-inexact:" + name_, "public entry point %s leaves the exact Kepler orbit by %.3g relative" % (name_, err_), {"spec": esp[i], "err": err_})
        entry_ok[name_] = 1
    reach["reb_integrator_whfast_debug_operator_kepler"] = sum(1 for k in entry_ok if k.startswith("reb_integrator_whfast_debug_operator_kepler"))
    reach_exported = {"reb_simulation_step": c.cov["full_step"]["cases"], "reb_simulation_steps": dims.get("pattern=steps", 0),
                      "reb_simulation_integrate": sum(v for k, v in dims.items() if k.startswith("pattern=integrate")),
                      "reb_simulation_synchronize": c.cov["histories"]["cases"], "reb_whfast_kepler_step": c.cov["kepler_step_calls_compared"]["total"]}

    # ---------------------------------------------------------------- WHFast512 (integrator_whfast512.c: own vectorised Kepler solver)
    have512 = "avx512f" in open("/proc/cpuinfo").read()
    w512 = {"available": have512}
    if have512:
        import common as _common
        oldflags = _common.CFLAGS[:]
        _common.CFLAGS += ["-march=native", "-DAVX512"]
        try:
            d512 = build()
        finally:
            _common.CFLAGS[:] = oldflags
        real512 = Real(d512)
        n512 = 400 if c.thorough else 60
        wspecs = []
        for k in range(n512):
            rng = c.rng.fork()
            K = rng.randint(1, 8)
            m0 = 10 ** rng.uniform(-3, 3)
            outside = (k % 10 == 9)             # a tenth of the cases outside the convergence domain of its fixed-iteration solver
            bodies, orbs = [], []
            dt = None
            for q in range(K):
                for _ in range(200):
                    e = rng.choice([0.0, rng.uniform(0, 0.9), 1 - 10 ** rng.uniform(-3, -1), 1 + 10 ** rng.uniform(-2, 1)])
                    if dt is None:
                        dtp = 10 ** rng.uniform(-5, 0.5)
                        a_ = 10 ** rng.uniform(-2, 2)
                    else:
                        a_ = 10 ** rng.uniform(-2, 2)
                        dtp = dt / (2 * math.pi * math.sqrt(a_ ** 3 / m0))
                    xres = 2 * math.pi * dtp * abs(1 - e) ** -1.5
                    if (xres > 3.0) if (outside and q == 0) else (xres < 0.4):
                        break
                else:
                    continue
                o = gen_orbit(rng, e=e, dt_over_P=dtp, M=m0, a=a_)
                if dt is None:
                    dt = o["dt"]
                bodies.append([0.0, o["st"]]); orbs.append(o)
            wspecs.append(({"G": 1.0, "m0": m0, "bodies": bodies, "off": [0.0] * 6, "dt": dt, "integ": "whfast512", "coord": "-", "nactive": -1, "tpt": 0,
                            "opts": {}, "actions": [["steps", rng.randint(1, 3)]] if k % 3 else [["integrate", rng.uniform(0.5, 3.5), 0]]}, m0, orbs, outside))
        wro = real512.run(["seq w%d %s" % (i, json.dumps(w[0])) for i, w in enumerate(wspecs)])
        wol, wmeta = [], {}
        for i, (sp_, GM_, orbs, outside) in enumerate(wspecs):
            a_ = wro.get("w%d" % i, "")
            c.count(("whfast512", len(sp_["bodies"]), outside, sp_["actions"][0][0]))
            if not a_.startswith("J "):
                c.violation("whfast512-%s" % (a_.split()[0].lower() if a_ else "noanswer"), "WHFast512 on a star + %d massless planets: %s" % (len(orbs), a_[:150]), {"spec": sp_})
                continue
            cp_ = json.loads(a_[2:])["cps"][-1]
            for b_, o_ in enumerate(orbs):
                cid = "w%d_%d" % (i, b_)
                wol.append("%s %s %s" % (cid, " ".join(d2h(v) for v in [GM_] + o_["st"] + [cp_["el"]]), " ".join(d2h(v) for v in cp_["rel"][b_])))
                wmeta[cid] = (i, b_)
        wref = run_oracle(wol)
        wworst, nin, nout, nout_bad = 0.0, 0, 0, 0
        for cid, (i, b_) in wmeta.items():
            sp_, GM_, orbs, outside = wspecs[i]
            j = wref[cid]
            o_ = orbs[b_]
            xres = 2 * math.pi * abs(o_["meta"]["dtP"]) * abs(1 - o_["meta"]["e"]) ** -1.5
            rep = {"spec": {k_: v_ for k_, v_ in sp_.items()}, "body": b_, "e": o_["meta"]["e"], "dt_over_P": o_["meta"]["dtP"], "x": xres}
            err_ = max(j["errx"], j["errv"]) if j.get("finite") else float("inf")
            J_ = (4.0 / abs(1.0 - j["e"])) * j["ndt"] * max(1.0, j["amp_x"], j["amp_v"])
            unit = tolerance(j) * (1 + J_)
            if xres > 2.0:
                nout += 1
                if not err_ <= unit * SAFETY * 16:
                    nout_bad += 1
                    c.violation("FC03b:whfast512-solver-does-not-converge",
                                "WHFast512: step that does not resolve the pericentre passage (2 pi dt/P (1-e)^-1.5 = %.3g): %s" % (xres, "non-finite coordinates" if err_ == float("inf") else "error %.3g" % err_), rep)
                continue
            if xres > 0.5:
                continue
            if any(2 * math.pi * abs(oo["meta"]["dtP"]) * abs(1 - oo["meta"]["e"]) ** -1.5 > 0.5 for oo in orbs):
                continue          # a sibling lane left the convergence domain (FC03b): its NaN reaches every planet through the interaction step
            nin += 1
            wworst = max(wworst, err_ / unit)
            if not err_ <= unit * SAFETY * 16:
                rep.update(err=err_, allowed=unit * SAFETY * 16)
                c.violation("whfast512-inexact", "WHFast512 step (e=%.6g, dt/P=%.3g, resolved pericentre) leaves the exact Kepler orbit by %.3g relative" % (o_["meta"]["e"], o_["meta"]["dtP"], err_), rep)
        # tie: the Lean model of the vectorised Kepler step (lean/RV/Model/Kepler512.lean, one lane, fused operations
        # as two roundings) composed as the step does it: kepler(dt/2), kepler(dt) x (n-1), kepler(dt/2)
        tie_items = []
        for cid, (i, b_) in wmeta.items():
            sp_, GM_, orbs, outside = wspecs[i]
            o_ = orbs[b_]
            xres = 2 * math.pi * abs(o_["meta"]["dtP"]) * abs(1 - o_["meta"]["e"]) ** -1.5
            if sp_["actions"][0][0] == "steps" and xres <= 0.5 and not outside:
                n_ = sp_["actions"][0][1]
                tie_items.append([cid, GM_, list(o_["st"]), [sp_["dt"] / 2.0] + [sp_["dt"]] * (n_ - 1) + [sp_["dt"] / 2.0]])
        rounds = max([len(t_[3]) for t_ in tie_items] + [0])
        for rd in range(rounds):
            act = [t_ for t_ in tie_items if rd < len(t_[3])]
            outl = run_driver(exe, ["solve512 " + " ".join(d2h(v) for v in [t_[1]] + t_[2] + [t_[3][rd]]) for t_ in act])
            for t_, l_ in zip(act, outl):
                t_[2] = [h2d(x) for x in l_.split()[:6]]
        tie512_n, tie512_bad, tie512_worst, tie512_first = 0, 0, 0.0, None
        for cid, GM_, st_, _sched in tie_items:
            i, b_ = wmeta[cid]
            cp_ = json.loads(wro["w%d" % i][2:])["cps"][-1]
            j = wref[cid]
            if not j.get("finite"):
                continue
            J_ = (4.0 / abs(1.0 - j["e"])) * j["ndt"] * max(1.0, j["amp_x"], j["amp_v"])
            unit = tolerance(j) * (1 + J_)
            dd = reldiff([d2h(v) for v in cp_["rel"][b_]], [d2h(v) for v in st_], j["ref"])
            tie512_n += 1
            tie512_worst = max(tie512_worst, dd / unit)
            if not dd <= SAFETY * unit:
                tie512_bad += 1
                if tie512_first is None:
                    tie512_first = {"spec": wspecs[i][0], "body": b_, "model": st_, "impl": cp_["rel"][b_], "difference": dd, "allowed": SAFETY * unit}
        w512["model_tie"] = {"lanes_compared": tie512_n, "worst_difference_over_unit": tie512_worst, "allowed": SAFETY, "disagreements": tie512_bad,
                             "note": "not bit-identical by construction: the compiled code rounds its fused multiply-adds once, the model twice"}
        if tie512_bad:
            c.corr_break("%d of %d WHFast512 lanes differ from the Lean model of reb_whfast512_kepler_step by more than %g conditioned rounding units" % (tie512_bad, tie512_n, SAFETY), tie512_first)
        if tie512_n == 0:
            c.broken.append("correspondence: no WHFast512 lane was compared with the model in this run")
        w512.update(cases=len(wspecs), bodies_checked_in_domain=nin, worst_error_over_unit=wworst, allowed=SAFETY * 16,
                    bodies_outside_convergence_domain=nout, of_which_wrong=nout_bad)
        reach["reb_integrator_whfast512_part1"] = nin
        reach["reb_integrator_whfast512_synchronize"] = nin
        reach["democraticheliocentric_to_inertial_posvel"] = nin
        dims["integrator:whfast512"] = nin
        if nin == 0:
            c.broken.append("proof obligation: dimension integrator:whfast512 not covered by this run")
    else:
        c.assumptions.append("this machine has no AVX512: integrator_whfast512.c (anchored) is not covered by this run")
    c.cov["whfast512"] = w512
    unreached = sorted(k for k in callers if reach.get(k, 0) == 0 and not (k.startswith("reb_integrator_whfast512") or k == "democraticheliocentric_to_inertial_posvel") or (have512 and reach.get(k, 0) == 0 and k != "reb_integrator_whfast512_synchronize_fallback"))
    unreached = sorted(set(k for k in callers if reach.get(k, 0) == 0 and k != "reb_integrator_whfast512_synchronize_fallback"
                           and (have512 or not (k.startswith("reb_integrator_whfast512") or k == "democraticheliocentric_to_inertial_posvel"))))
    c.cov["entry_points"] = {"callers_of_the_kepler_routines_extracted": {k: sorted(v) for k, v in sorted(callers.items())},
                             "reached_by_cases": {k: reach.get(k, 0) for k in sorted(callers)},
                             "exported_c": {k: reach_exported.get(k, 0) for k in sorted(exported)},
                             "python_spellings": len(spellings), "python_spellings_exact": sum(1 for k in entry_ok if k.startswith("python:")),
                             "not_exercised": unreached,
                             "note": "reb_integrator_whfast512_synchronize_fallback (scalar solver on a copy) is reached only when WHFast512 synchronises a simulation loaded without its internal state"}
    if len(callers) < 16 or len(exported) < 5 or len(spellings) < 20:
        c.broken.append("proof obligation: entry-point extraction found %d callers / %d exported / %d spellings (expected >= 16 / 5 / 20)" % (len(callers), len(exported), len(spellings)))
    if unreached:
        c.broken.append("proof obligation: callers of the Kepler routines not exercised by this run: " + ", ".join(unreached))
    for k in sorted(exported):
        if reach_exported.get(k, 0) == 0:
            c.broken.append("proof obligation: exported entry point %s not exercised by this run" % k)
    c.cov["dimensions"] = dict(sorted(dims.items()))
    c.cov["watchdog"] = {"hangs": real.hangs + real_h.hangs, "worker_restarts": real.restarts + real_h.restarts}


if __name__ == "__main__":
    if len(sys.argv) >= 3 and sys.argv[1] == "--worker":
        worker(sys.argv[2])
        sys.exit(0)
    main("C03", run)
