"""C19 — concurrent simulations do not interfere; served snapshots are consistent.

proof    lean/RV/Props/C19.lean: the integration-loop / web-server protocol (RV/Model/Conc.lean,
         transcribed from rebound.c:794-888, 653-735 and server.c:285-330) for ALL interleavings:
         mutual exclusion, no serialisation during a step, integrator unaffected by the server,
         no deadlock, independent machines commute; the full "always at a boundary" statement is
         refuted in the model (F18) and proved under the hypothesis naming the finding.
tie      (i)  rv/extract_c19.py -> RV/Gen/C19Globals.lean: writable symbols / writable bytes of every
              object, undefined libc references, static objects in the sources; decided against
              ref/C19_globals_allow.json by the kernel every run.
         (ii) harness/c19_preload.c (LD_PRELOAD, no source hooks) logs lock/unlock/step/serialise/
              check_exit/synchronize/spin events of the real library while a simulation integrates
              with the server running and a client fetching /simulation, under injected delays;
              every trace must be accepted by the model (drv_c19), mutants of it must be rejected.
search   (i)  k simulations of all 10 integrators created/copied/saved/loaded/freed/advanced in
              parallel threads vs sequentially: final serialisations bitwise.
         (ii) every HTTP /simulation body: parses completely, sits at a step boundary of the
              reference run, continues bit-for-bit to the final state of the uninterrupted run;
              final state with server+requests == without.
         thorough: the same server scenario as a C program under ThreadSanitizer.
"""
import ctypes, hashlib, json, os, re, socket, struct, subprocess, sys, tempfile, threading, time
sys.path.insert(0, os.path.dirname(os.path.abspath(__file__)))
from common import *

INTEGS = ["ias15", "whfast", "saba", "eos", "mercurius", "trace", "bs", "janus", "leapfrog", "sei"]
HARNESS = os.path.join(ROOT, "harness")
F18A = "F18:served-snapshot-carries-shrunk-last-step-dt"
F18B = "F18:served-snapshot-torn-by-unlocked-synchronize"
F19 = "F19:server-started-mid-step-serialises-live-state"
F20 = "F20:server-closes-connection-descriptor-twice"
F21 = "F21:stop_server-frees-server_data-under-the-running-loop"


# ============================================================================ simulations
VAR_OK = {"ias15": ["1st", "2nd", "megno"], "whfast": ["1st", "megno"], "bs": ["1st", "2nd"], "leapfrog": ["1st", "2nd"],
          "eos": ["1st", "2nd", "megno"]}          # integrators that accept variational particles (others raise / exit)
TESTP_OK = ("ias15", "whfast", "saba", "eos", "mercurius", "trace", "bs", "leapfrog")


def make_sim(rebound, sp):
    """deterministic simulation from a spec dict (same bits in every process).
    options: var = 1st | 2nd | megno (variational particles with non-zero variations), testp = k (last k particles are test
    particles, N_active = N-k, testparticle_type tpt), enc = 1 (two massive planets on close orbits: MERCURIUS/TRACE switch into
    their encounter branch and allocate/fill its arrays), safe = 0 (unsynchronised), eft (exact_finish_time of every call)"""
    rng = SplitMix(sp["seed"])
    sim = rebound.Simulation()
    sim.rand_seed = sp["seed"] & 0x7FFFFFFF
    integ, N = sp["integ"], sp["N"]
    testp = sp.get("testp", 0)
    opt = sp.get("opt", {})
    if sp.get("units"):
        sim.units = ("AU", "yr", "Msun")          # sets G and the persisted python_unit_* fields; before any particle is added
    if "G" in opt:
        sim.G = opt["G"]
    if sp.get("coll"):
        # a ring of finite-size bodies on crossing orbits: physical collisions, resolved by merging (N decreases)
        if sp["coll"] in ("tree", "tree-gravity"):
            sim.configure_box(20.0)
        sim.add(m=1.0, r=0.005)
        for i in range(1, N):
            sim.add(m=1e-5, r=0.03, a=rng.uniform(1.0, 1.4), e=rng.uniform(0, 0.1), f=rng.uniform(0, 6.28), inc=rng.uniform(0, 0.01))
        if sp["coll"] == "direct":
            sim.move_to_com()
        sim.collision = "direct" if sp["coll"] == "direct" else "tree"
        if sp["coll"] == "tree-gravity":
            sim.gravity = "tree"
            sim.opening_angle2 = 0.5
    elif integ == "sei":
        sim.ri_sei.OMEGA = 1.0
        for i in range(N):
            sim.add(m=1e-9, x=rng.uniform(-1, 1), y=rng.uniform(-1, 1), z=rng.uniform(-0.1, 0.1),
                    vx=rng.uniform(-0.1, 0.1), vy=rng.uniform(-0.1, 0.1), vz=rng.uniform(-0.01, 0.01))
    elif sp.get("enc"):
        sim.add(m=1.0)
        sim.add(m=2e-3, a=1.0, e=0.02, f=rng.uniform(0, 6.28))
        sim.add(m=2e-3, a=1.12, e=0.02, f=rng.uniform(0, 6.28))
        for i in range(3, N):
            sim.add(m=(0.0 if i >= N - testp else 1e-5), a=1.03 + 0.9 * (i - 2) / N + rng.uniform(0, 0.05), e=rng.uniform(0, 0.03),
                    inc=rng.uniform(0, 0.02), f=rng.uniform(0, 6.28))
        sim.move_to_com()
    else:
        sim.add(m=1.0)
        mp = sp.get("mp", 1e-5)
        for i in range(1, N):
            m = mp * rng.uniform(0.5, 2.0)
            if i >= N - testp:
                m = 0.0 if (sp.get("tpt", 0) == 0 or sp.get("var") == "2nd") else 1e-9
            sim.add(m=m, a=rng.uniform(1.0, 1.0 + 0.35 * N ** 0.5) + 0.3 * i / N,
                    e=rng.uniform(0, 0.08), inc=rng.uniform(0, 0.05), Omega=rng.uniform(0, 6.28),
                    omega=rng.uniform(0, 6.28), f=rng.uniform(0, 6.28))
        sim.move_to_com()
    if sp.get("rngp") and integ != "janus":
        # the per-simulation random generator (tools.c:54-95, rand_r on r->rand_seed) feeds one more massless particle
        clib = rebound.clibrebound
        clib.reb_random_uniform.restype = ctypes.c_double
        clib.reb_random_normal.restype = ctypes.c_double
        u = [clib.reb_random_uniform(ctypes.byref(sim), ctypes.c_double(0.0), ctypes.c_double(1.0)) for _ in range(6)]
        g = clib.reb_random_normal(ctypes.byref(sim), ctypes.c_double(1.0))
        sim.add(m=0.0, x=5.0 + u[0], y=u[1] - 0.5, z=0.05 * g, vx=0.1 * (u[2] - 0.5), vy=0.35 + 0.05 * u[3], vz=0.01 * u[4])
    role = sp.get("role")
    if role == "single-active" and integ != "sei" and not sp.get("coll"):
        # one active body, everything else test particles (massless, or with mass and testparticle_type=1)
        for i in range(1, sim.N):
            sim.particles[i].m = 0.0 if sp.get("tpt", 0) == 0 else 1e-9
        sim.N_active = 1
        sim.testparticle_type = sp.get("tpt", 0)
    elif role == "zero-mass-active" and integ != "sei" and sim.N > 2:
        sim.particles[2].m = 0.0                  # a massless body inside the active range
    if testp:
        sim.N_active = N - testp
        # testparticle_type=1 is not implemented for second order variational equations (the library raises)
        sim.testparticle_type = 0 if sp.get("var") == "2nd" else sp.get("tpt", 0)
    sim.integrator = integ
    sim.dt = sp["dt"]
    if integ == "whfast":
        sim.ri_whfast.safe_mode = sp.get("safe", 1)
        if sp.get("corrector"):
            sim.ri_whfast.corrector = sp["corrector"]
        if "coordinates" in opt:
            sim.ri_whfast.coordinates = opt["coordinates"]
        if "kernel" in opt:
            sim.ri_whfast.kernel = opt["kernel"]
        if "corrector" in opt:
            sim.ri_whfast.corrector = opt["corrector"]
        if "keep_unsynchronized" in opt:
            sim.ri_whfast.keep_unsynchronized = opt["keep_unsynchronized"]
    if integ == "ias15":
        if "epsilon" in opt:
            sim.ri_ias15.epsilon = opt["epsilon"]
        if "adaptive_mode" in opt:
            sim.ri_ias15.adaptive_mode = opt["adaptive_mode"]
        if "min_dt" in opt:
            sim.ri_ias15.min_dt = opt["min_dt"]
    if integ == "bs":
        if "eps" in opt:
            sim.ri_bs.eps_rel = opt["eps"]
            sim.ri_bs.eps_abs = opt["eps"]
        if "max_dt" in opt:
            sim.ri_bs.max_dt = opt["max_dt"]
    if integ == "mercurius" and "r_crit_hill" in opt:
        sim.ri_mercurius.r_crit_hill = opt["r_crit_hill"]
    if integ == "trace" and "r_crit_hill" in opt:
        sim.ri_trace.r_crit_hill = opt["r_crit_hill"]
    if "softening" in opt:
        sim.softening = opt["softening"]
    if integ == "saba":
        sim.ri_saba.safe_mode = sp.get("safe", 1)
    if integ == "eos":
        sim.ri_eos.safe_mode = sp.get("safe", 1)
    if integ == "mercurius":
        sim.ri_mercurius.safe_mode = sp.get("safe", 1)
    if integ == "janus":
        sim.ri_janus.scale_pos = opt.get("scale_pos", 1e-16)
        sim.ri_janus.scale_vel = opt.get("scale_vel", 1e-16)
    var = sp.get("var")
    if var == "1st":
        v = sim.add_variation()
        v.vary(1, "a")
    elif var == "2nd":
        v1 = sim.add_variation()
        v1.vary(1, "a")
        w1 = sim.add_variation()
        w1.vary(2, "e")
        v2 = sim.add_variation(order=2, first_order=v1)
        v2.vary(1, "a", "a")
        v3 = sim.add_variation(order=2, first_order=v1, first_order_2=w1)
        v3.vary(1, "a")
    elif var == "megno":
        sim.init_megno(seed=sp["seed"] & 0xFFFF)
    install_callbacks(sim, sp)
    return sim


def install_callbacks(sim, sp, heartbeat=False):
    """function pointers are not part of a serialisation: (re)install what the spec asks for — after make_sim, copy(), load"""
    keep = []
    if sp.get("coll"):
        sim.collision_resolve = "merge"
    if sp.get("force"):
        k = 1e-3

        def drag(simp):                      # velocity dependent additional force on the real particles (Python callable)
            s_ = simp.contents
            ps = s_.particles
            for i in range(1, s_.N - s_.N_var):
                ps[i].ax -= k * ps[i].vx
                ps[i].ay -= k * ps[i].vy
                ps[i].az -= k * ps[i].vz
        sim.additional_forces = drag
        sim.force_is_velocity_dependent = 1
        keep.append(drag)
    if sp.get("hbmod"):
        def hbmod(simp):
            """moves mass from particle 1 to particle 2 in two separate writes with a pause in between; does nothing in the
            heartbeat of the prologue (dt_last_done == 0 there), which runs outside the mutex on the unchanged tree as well"""
            s_ = simp.contents
            if s_.dt_last_done == 0.0 or s_.N - s_.N_var < 3:
                return
            ps = s_.particles
            dm = 1e-7 * ps[1].m
            ps[1].m -= dm
            time.sleep(0.0003)
            ps[2].m += dm
        sim.heartbeat = hbmod
        keep.append(hbmod)
        sim._c19_hbmod = hbmod
    if heartbeat:
        cnt = [0]

        def hb(simp):                        # read-only heartbeat: runs inside the integrator's critical section
            cnt[0] += 1
            _ = simp.contents.t
        sim.heartbeat = hb
        keep.append(hb)
        sim._c19_hbcount = cnt
    sim._c19_keep = keep


def dims_of(tag, sp, jp=None):
    """the cross-cutting dimensions (BUILDERS-deepen.md) a case exercises, derived from its spec"""
    jp = jp or {}
    opt = sp.get("opt", {})
    d = set()
    if sp.get("testp"):
        d.add("roles: N_active < N")
        d.add("roles: testparticle_type=%d" % (0 if sp.get("var") == "2nd" else sp.get("tpt", 0)))
    if sp.get("role") == "single-active":
        d.add("roles: single active body")
    if sp.get("role") == "zero-mass-active":
        d.add("roles: zero-mass active body")
    if sp.get("var"):
        d.add("variational: " + sp["var"])
        if sp.get("testp") or sp.get("role"):
            d.add("variational: with test particles")
    if sp.get("safe", 1) == 0:
        d.add("options: safe_mode=0")
    if opt.get("keep_unsynchronized"):
        d.add("options: keep_unsynchronized=1")
    for k_, nm in (("coordinates", "whfast coordinates"), ("kernel", "whfast kernel"), ("corrector", "whfast corrector"), ("G", "G != 1"),
                   ("softening", "softening != 0")):
        if k_ in opt:
            d.add("options: " + nm)
    if sp.get("corrector"):
        d.add("options: whfast corrector")
    if sp["integ"] == "ias15" and (set(opt) & {"epsilon", "adaptive_mode", "min_dt"}):
        d.add("options: ias15 adaptive options")
    if sp["integ"] == "bs" and (set(opt) & {"eps", "max_dt"}):
        d.add("options: bs options")
    if sp["integ"] in ("mercurius", "trace") and "r_crit_hill" in opt:
        d.add("options: mercurius/trace r_crit_hill")
    if sp["integ"] == "janus" and opt.get("scale_pos") != opt.get("scale_vel"):
        d.add("options: unequal JANUS scales")
    if sp.get("units"):
        d.add("options: units set")
    if sp["dt"] < 0:
        d.add("time: dt < 0")
    d.add("time: exact_finish_time=%d" % sp.get("eft", 1))
    if len(sp["tmax"]) >= 8:
        d.add("time: short bursts of integrate()")
    elif len(sp["tmax"]) > 1:
        d.add("time: integrate() split into several calls")
    else:
        d.add("time: one long integrate() call")
    if sp.get("force"):
        d.add("callbacks: additional_forces (velocity dependent)")
    if sp.get("hbmod"):
        d.add("callbacks: heartbeat that modifies the simulation")
    if any(e[1] == "remove" for e in sp.get("edits", [])):
        d.add("histories: particle removed between integrate() calls, requests / serialisation before the next step")
    if jp.get("hb"):
        d.add("callbacks: heartbeat together with the server")
    if sp.get("coll"):
        d.add("histories: collisions + merges (N changes)")
        if sp["coll"] != "direct":
            d.add("histories: tree code")
    if sp.get("enc"):
        d.add("histories: close encounters")
    if sp.get("sa"):
        d.add("histories: Simulationarchive auto-snapshots in the same run")
    if sp.get("edits"):
        d.add("histories: user edits between integrate() calls, requests on both sides")
        if any(e[0] == -1 for e in sp["edits"]):
            d.add("histories: user edit while paused before the first step, requests on both sides")
    if sp["N"] >= 1024:
        d.add("scale: N > 1024")
    st = jp.get("start")
    if st == "paused":
        d.add("server: started while paused, resumed by the space key")
    if st == "during":
        d.add("server: started from another thread while integrating")
    if jp.get("keyboard"):
        d.add("server: /keyboard pause/step/resume racing with requests")
        if "quit" in jp["keyboard"]:
            d.add("server: /keyboard quit, integrate() re-entered")
    if jp.get("restart"):
        d.add("server: start/stop cycles with requests in flight")
    if tag == "multi-server":
        d.add("server: several servers and simulations in one process")
    if tag == "no-requests":
        d.add("server: idle server, no request")
    return sorted(d)


def apply_edits(sim, sp, k):
    """user edits of the simulation between integrate() calls (k = index of the call that has just returned; -1 = before the
    first step).  All edits are absolute assignments, so applying one twice is harmless."""
    for kk, kind, idx, val in sp.get("edits", []):
        if kk != k:
            continue
        if kind == "m":
            sim.particles[idx].m = val
        elif kind == "vx":
            sim.particles[idx].vx = val
        elif kind == "dt":
            sim.dt = val
        elif kind == "softening":
            sim.softening = val
        elif kind == "corrector":
            sim.ri_whfast.corrector = int(val)
        elif kind == "epsilon":
            sim.ri_ias15.epsilon = val
        elif kind == "remove":
            # val = number of real particles after the removal: applying the edit again changes nothing
            if sim.N - sim.N_var > int(val):
                sim.remove(index=int(idx))


def integ_to(sim, sp, tmax):
    sim.integrate(tmax, exact_finish_time=sp.get("eft", 1))


def sim_bytes(rebound, sim):
    """serialisation of a simulation (reb_simulation_save_to_stream via ctypes)"""
    buf = ctypes.c_char_p(None)
    size = ctypes.c_size_t(0)
    clib = rebound.clibrebound
    clib.reb_simulation_save_to_stream(ctypes.byref(sim), ctypes.byref(buf), ctypes.byref(size))
    b = ctypes.string_at(buf, size.value)
    clib.reb_free.argtypes = [ctypes.c_void_p]
    clib.reb_free(buf)
    return b


_tmpn = [0]


def load_bytes(rebound, b, tmpdir):
    _tmpn[0] += 1
    fn = os.path.join(tmpdir, "ld%d_%d.bin" % (threading.get_ident(), _tmpn[0]))
    with open(fn, "wb") as f:
        f.write(b)
    try:
        return rebound.Simulation(fn)
    finally:
        os.remove(fn)


# ============================================================================ binary re-parser (independent of input.c)
class Fmt:
    """field ids / kinds taken from the library's descriptor table; the parsing is ours"""

    def __init__(self, rebound, blob=12):
        self.blob = blob
        from rebound.binary_field_descriptor import binary_field_descriptor_list
        self.names = {}
        self.particle_fields = set()
        psize = ctypes.sizeof(rebound.Particle)
        for fd in binary_field_descriptor_list():
            self.names[fd.type] = fd.name.decode()
            if fd.dtype in (8, 15) or (fd.dtype in (9, 10) and fd.element_size == psize):
                self.particle_fields.add(fd.type)
        self.names[87] = "functionpointers"
        # var_config: array of struct reb_variational_configuration, whose first member is the owning simulation's address
        from rebound.variation import Variation
        self.var_size = ctypes.sizeof(Variation)
        self.var_ptr = (Variation._sim.offset, Variation._sim.offset + Variation._sim.size)
        self.var_off = {n: getattr(Variation, n).offset for n, _ in Variation._fields_}
        self.psize = psize
        P = rebound.Particle
        self.ptr_ranges = [(getattr(P, n).offset, getattr(P, n).offset + getattr(P, n).size) for n in ("c", "ap", "_sim")]
        # struct padding (after the 32-bit hash): never written, holds whatever the allocator returned
        cov = sorted((getattr(P, n).offset, getattr(P, n).offset + getattr(P, n).size) for n, _ in P._fields_)
        pos = 0
        for a_, e_ in cov:
            if a_ > pos:
                self.ptr_ranges.append((pos, a_))
            pos = max(pos, e_)
        if pos < psize:
            self.ptr_ranges.append((pos, psize))
        self.end_type = [t for t, n in self.names.items() if n == "end"][0]
        self.walltime = {t for t, n in self.names.items() if "walltime" in n}
        self.id = {n: t for t, n in self.names.items()}

    def parse(self, b):
        """-> (header, [(type, payload)], complete: bool).  complete = 'end' field and the archive blob trailer present"""
        if len(b) < 64 or not b.startswith(b"REBOUND Binary File"):
            return None, [], False
        pos, out = 64, []
        while pos + 16 <= len(b):
            typ, = struct.unpack_from("<I", b, pos)
            size, = struct.unpack_from("<Q", b, pos + 8)
            pos += 16
            if typ == self.end_type:
                return b[:64], out, (size == 0 and len(b) - pos == self.blob)
            if pos + size > len(b):
                return b[:64], out, False
            out.append((typ, b[pos:pos + size]))
            pos += size
        return b[:64], out, False

    def canon(self, b, mask=()):
        """dict name -> payload with pointer members of particles zeroed and the `mask`ed fields dropped"""
        hdr, fields, complete = self.parse(b)
        if hdr is None or not complete:
            return None
        d = {}
        for typ, pay in fields:
            nm = self.names.get(typ, "type%d" % typ)
            if typ in self.walltime or nm in mask:
                continue
            if typ in self.particle_fields and len(pay) % self.psize == 0:
                ba = bytearray(pay)
                for k in range(0, len(ba), self.psize):
                    for a, e in self.ptr_ranges:
                        ba[k + a:k + e] = bytes(e - a)
                    if "p_jh" in nm:
                        # Jacobi work array: only x..vz and m are ever written (integrator_whfast.c), the rest is
                        # whatever malloc returned
                        ba[k + 48:k + 72] = bytes(24)
                        ba[k + 80:k + self.psize] = bytes(self.psize - 80)
                pay = bytes(ba)
            if nm == "var_config" and len(pay) % self.var_size == 0:
                ba = bytearray(pay)
                for k in range(0, len(ba), self.var_size):
                    ba[k + self.var_ptr[0]:k + self.var_ptr[1]] = bytes(self.var_ptr[1] - self.var_ptr[0])
                    order = struct.unpack_from("<i", ba, k + self.var_off["order"])[0]
                    if order == 1:
                        # index_1st_order_a/b are only assigned for second-order configurations (rebound.c add_variation):
                        # for first order they hold whatever realloc returned
                        a0 = self.var_off["index_1st_order_a"]
                        ba[k + a0:k + a0 + 8] = bytes(8)
                    pe = self.var_off["index_1st_order_b"] + 4          # struct padding before the double
                    ba[k + pe:k + self.var_off["_lrescale"]] = bytes(self.var_off["_lrescale"] - pe)
                pay = bytes(ba)
            if nm in d:
                nm = nm + "#dup"
            d[nm] = pay
        d["#header"] = hdr
        return d

    @staticmethod
    def diff(a, b):
        return sorted(k for k in set(a) | set(b) if a.get(k) != b.get(k))

    def scalar(self, d, name, fmt):
        return struct.unpack("<" + fmt, d[name])[0] if name in d else None


# ============================================================================ worker: server + client + integration in one process (under LD_PRELOAD)
def free_port():
    s = socket.socket()
    s.bind(("127.0.0.1", 0))
    p = s.getsockname()[1]
    s.close()
    return p


def http_get(port, path, timeout=10):
    """minimal HTTP/1.0 client: returns the body (bytes) or raises OSError"""
    s = socket.create_connection(("127.0.0.1", port), timeout=timeout)
    try:
        s.sendall(("GET %s HTTP/1.0\r\nHost: localhost\r\n\r\n" % path).encode())
        chunks = []
        while True:
            c = s.recv(1 << 16)
            if not c:
                break
            chunks.append(c)
    finally:
        s.close()
    raw = b"".join(chunks)
    # server.c:61-70: header lines end in "\n", the header block in "\r\n"
    i = raw.find(b"\n\r\n")
    if i < 0 or not raw.startswith(b"HTTP/1.1 200"):
        raise OSError("no 200 header in %d bytes" % len(raw))
    return raw[i + 3:]


_T0 = time.time()


def progress(*a):
    """one-line progress marker on stderr: the parent prints the last of them if this process has to be killed"""
    print("C19W %7.2f" % (time.time() - _T0), *a, file=sys.stderr, flush=True)


def attach_archive(sim, sp, path):
    """Simulationarchive auto-snapshots every sp['sa'] steps: reb_simulationarchive_heartbeat then serialises from inside the
    integration loop (rebound.c:856, under the mutex) and once more in the epilogue (outside it)"""
    if sp.get("sa"):
        sim.save_to_file(path, step=int(sp["sa"]), delete_file=True)


class Unit:
    """one simulation with its own server, client thread and integration (the worker runs one, `multi-server` several)"""

    def __init__(self, rebound, sp, jp, outdir, shim, offs):
        self.rebound, self.sp, self.jp, self.out, self.shim = rebound, sp, jp, outdir, shim
        os.makedirs(outdir, exist_ok=True)
        self.sim = make_sim(rebound, sp)
        if jp.get("hb"):
            install_callbacks(self.sim, sp, heartbeat=True)
        attach_archive(self.sim, sp, os.path.join(outdir, "archive.bin"))
        self.port = None
        self.ready = threading.Event()
        self.down = threading.Event()          # the server is being stopped / is stopped on purpose (restart scenario)
        self.done = threading.Event()
        self.stop = threading.Event()
        self.bodies, self.errors = [], []
        self.stops = []                        # (t_begin, t_end) of stop_server calls
        self.crng = SplitMix(jp["delay_seed"] * 7919 + 13)
        self.integrate_calls = 0
        self.ebadf = 0
        self.edit_probes = 0
        self.routes_done, self.route_replies, self.shots_posted, self.shots_ok = {}, {}, 0, 0
        if jp.get("shots"):
            # a heartbeat that takes screenshots (reb_simulation_output_screenshot releases and retakes the mutex inside it)
            at = set(jp["shots"])
            cnt = [0]
            me = self

            def hb(simp):
                cnt[0] += 1
                if cnt[0] in at and me.sim._server_data:
                    fn = os.path.join(me.out, "shot%03d.png" % cnt[0])
                    me.sim.output_screenshot(fn)
                    if os.path.exists(fn) and open(fn, "rb").read() == SHOT_PNG:
                        me.shots_ok += 1
            self.sim.heartbeat = hb
            self._hb = hb
        if shim:
            shim.c19_register(ctypes.addressof(self.sim) + offs["server_data"], offs["mutex"], offs["need_copy"])

    def start_server(self, retries):
        sim = self.sim
        for attempt in range(retries):
            self.port = free_port()             # bind(0): a port that is free right now
            progress("start_server attempt", attempt, "port", self.port)
            sim.start_server(port=self.port)
            # reb_simulation_start_server waits at most 1 s for `ready`; on a loaded machine the thread may need longer
            deadline = time.time() + 15
            while sim._server_data and sim._server_data.contents.ready == 0 and time.time() < deadline:
                time.sleep(0.005)
            if sim._server_data and sim._server_data.contents.ready == 1:
                if self.shim:
                    self.shim.c19_poll()
                self.down.clear()
                self.ready.set()
                return True
            progress("server not ready (ready=%s): stopping" % (sim._server_data.contents.ready if sim._server_data else None))
            try:
                sim.stop_server()
            except Exception:
                pass
        return False

    def stop_server(self):
        t0 = time.time()
        self.down.set()
        self.ready.clear()
        self.sim.stop_server()
        if self.shim:
            self.shim.c19_poll()               # log the stop now (the next start must not hide it)
        self.stops.append((t0, time.time()))

    def client(self):
        jp = self.jp
        while not self.stop.is_set() and len(self.bodies) < jp["max_bodies"]:
            port = self.port
            if port is None:
                time.sleep(0.0002)
                continue
            was_ready = self.ready.is_set() and not self.down.is_set()
            t0 = time.time()
            try:
                b = http_get(port, "/simulation")
            except OSError as e:
                if not was_ready or self.down.is_set() or not self.ready.is_set():
                    time.sleep(0.0003)        # nobody listens (yet / any more): expected in the late-start and restart scenarios
                    continue
                if getattr(e, "errno", None) == 9 and self.ebadf < 20:
                    # EBADF on OUR socket: the server thread's second close() of its connection descriptor (server.c:454-455,
                    # fclose then close) hit the descriptor number this thread had just been given (finding F20)
                    self.ebadf += 1
                    continue
                self.errors.append(repr(e))
                break
            self.bodies.append((self.done.is_set(), b, t0, time.time()))
            time.sleep(self.crng.uniform(0, jp["client_sleep_ms"]) / 1000.0)

    def edit_probe(self, k):
        """request -> user edit (no step) -> request: the second body must be the live state"""
        if not any(e[0] == k for e in self.sp.get("edits", [])) or self.port is None:
            return
        try:
            a = http_get(self.port, "/simulation")
            apply_edits(self.sim, self.sp, k)
            b = http_get(self.port, "/simulation")
        except OSError as e:
            self.errors.append("edit probe: " + repr(e))
            apply_edits(self.sim, self.sp, k)
            return
        live = sim_bytes(self.rebound, self.sim)
        for nm, x in (("A", a), ("B", b), ("L", live)):
            with open(os.path.join(self.out, "edit%02d_%s.bin" % (k + 1, nm)), "wb") as f:
                f.write(x)
        self.edit_probes += 1

    def integrate_all(self, between=None):
        sim, sp, shim = self.sim, self.sp, self.shim
        sign = 1 if sp["dt"] > 0 else -1
        if shim:
            shim.c19_set_integrator()
        for k, tmax in enumerate(sp["tmax"]):
            if between:
                between(k, "before")
            while True:
                progress("integrate call", k, "to", tmax)
                self.integrate_calls += 1
                if shim:
                    shim.c19_mark(0)
                integ_to(sim, sp, tmax)
                if shim:
                    shim.c19_mark(1)
                # /keyboard/81 ('Q') makes integrate() return early with status USER: enter it again, as a user would
                if sim._status == 5 and (tmax - sim.t) * sign > 1e-12 * abs(tmax) and self.integrate_calls < 200:
                    continue
                break
            if sp.get("edits"):
                self.edit_probe(k)
            if between:
                between(k, "after")
        self.done.set()

    def routes_client(self, routes):
        """every other route of the server (static pages, unknown URIs and keys, unsupported method, unexpected screenshot)"""
        done = {}
        i = 0
        while not self.stop.is_set() and (i < len(routes) or not self.done.is_set()) and i < 4 * len(routes):
            if self.port is None or not self.ready.is_set() or self.down.is_set() or self.sim._status == -3:
                # (while the simulation sits PAUSED the step keys 264/267 would advance it: that is the keyboard scenarios' business)
                time.sleep(0.001)
                continue
            name, method, path, body = routes[i % len(routes)]
            try:
                raw = http_req(self.port, method, path, body.encode("latin1") if body is not None else None)
                done[name] = done.get(name, 0) + 1
                self.route_replies[name] = raw[:40].decode("latin1")
            except OSError as e:
                if getattr(e, "errno", None) == 9:
                    self.ebadf += 1
                elif not (self.down.is_set() or not self.ready.is_set()):
                    self.errors.append("route %s: %r" % (name, e))
                    break
            i += 1
            time.sleep(self.crng.uniform(0, 3.0) / 1000.0)
        self.routes_done = done

    def browser(self):
        """plays the web page: whenever asked (status SCREENSHOT) it POSTs a data URL to /screenshot"""
        import base64
        body = ("data:image/png;base64," + base64.b64encode(SHOT_PNG).decode()).encode() + b"\0"
        while not self.stop.is_set() and not self.done.is_set():
            if self.port is not None and self.sim._status == -4:        # REB_STATUS_SCREENSHOT
                try:
                    http_req(self.port, "POST", "/screenshot", body)
                    self.shots_posted += 1
                except OSError as e:
                    if getattr(e, "errno", None) != 9:
                        self.errors.append("browser: " + repr(e))
                        break
            time.sleep(0.0005)

    def keyboard(self, plan):
        """pause / single steps / resume (and quit) through the server while the client keeps fetching"""
        sim = self.sim

        def key(k):
            for attempt in range(5):
                try:
                    http_get(self.port, "/keyboard/%d" % k)
                    return True
                except OSError as e:
                    if getattr(e, "errno", None) == 9:      # our socket closed by the server's second close() (F20): again
                        self.ebadf += 1
                        continue
                    self.errors.append("keyboard: " + repr(e))
                    return False
            return False
        try:
            time.sleep(self.crng.uniform(2, 15) / 1000.0)
            for rnd in range(plan.get("rounds", 2)):
                if self.done.is_set():
                    break
                key(32)                                   # space: RUNNING -> PAUSED (no effect in other states)
                time.sleep(self.crng.uniform(1, 6) / 1000.0)
                if sim._status == -3:
                    for j in range(self.crng.randint(1, 4)):
                        key(264)                          # arrow down: one step, then paused again
                        time.sleep(self.crng.uniform(1, 5) / 1000.0)
                    deadline = time.time() + 5
                    while sim._status != -3 and time.time() < deadline and not self.done.is_set():
                        time.sleep(0.001)
                    if sim._status == -3:
                        key(32)                           # resume
                time.sleep(self.crng.uniform(3, 20) / 1000.0)
                if plan.get("quit") and not self.done.is_set():
                    key(81)                               # 'Q': status USER, integrate() returns; integrate_all re-enters
                    time.sleep(self.crng.uniform(3, 20) / 1000.0)
        finally:
            # never leave the simulation paused
            for _ in range(200):
                if self.done.is_set():
                    break
                if sim._status == -3:
                    sim._status = -1
                time.sleep(0.005)

    def finish(self, res):
        rebound, sim, out = self.rebound, self.sim, self.out
        with open(os.path.join(out, "final.bin"), "wb") as f:
            f.write(sim_bytes(rebound, sim))
        flags = []
        for i, (after, b, t0, t1) in enumerate(self.bodies):
            with open(os.path.join(out, "body%04d.bin" % i), "wb") as f:
                f.write(b)
            flags.append(any(t0 <= e and s_ <= t1 + 0.002 for s_, e in self.stops))
        res.update(ok=True, nbodies=len(self.bodies), errors=self.errors, steps_done=int(sim.steps_done), t=sim.t,
                   near_stop=flags, edit_probes=self.edit_probes, routes_done=self.routes_done, route_replies=self.route_replies,
                   shots_posted=self.shots_posted, shots_ok=self.shots_ok, integrate_calls=self.integrate_calls, client_ebadf=self.ebadf, stop_cycles=len(self.stops),
                   heartbeat_calls=(sim._c19_hbcount[0] if hasattr(sim, "_c19_hbcount") else None),
                   bodies_during_integration=sum(1 for x in self.bodies if not x[0]))
        json.dump(res, open(os.path.join(out, "result.json"), "w"))


def http_req(port, method, path, body=None, timeout=10):
    """raw HTTP request; returns the raw response bytes (possibly empty: some routes of server.c answer nothing)"""
    s_ = socket.create_connection(("127.0.0.1", port), timeout=timeout)
    try:
        head = "%s %s HTTP/1.0\r\nHost: localhost\r\n" % (method, path)
        if body is not None:
            head += "Content-Length: %d\r\n" % len(body)
        s_.sendall(head.encode() + b"\r\n" + (body or b""))
        chunks = []
        while True:
            ch = s_.recv(1 << 16)
            if not ch:
                break
            chunks.append(ch)
    finally:
        s_.close()
    return b"".join(chunks)


SHOT_PNG = bytes(range(7, 71))          # what the "browser" sends as a screenshot (any bytes; the server base64-decodes them)


def worker(argv):
    """python c19.py --worker <job.json>: runs one scenario, writes <out>/result.json, bodies, final state, trace
    (multi-server: one sub-directory u<i>/ per simulation)"""
    job = json.load(open(argv[0]))
    specs = job.get("specs") or [job["spec"]]
    progress("worker start", job.get("start", "before"), [sp["integ"] for sp in specs], "N", [sp["N"] for sp in specs])
    sys.path.insert(0, job["scratch"])
    import warnings
    warnings.filterwarnings("ignore")
    import rebound
    assert os.path.abspath(rebound.__file__).startswith(job["scratch"])
    out = job["out"]
    os.chdir(out)
    open("rebound.html", "w").write("<html></html>")       # server.c:215: avoids `system(curl …)`
    devnull = os.open(os.devnull, os.O_WRONLY)               # the server printf()s
    os.dup2(devnull, 1)
    progress("rebound imported")
    mode = job.get("start", "before")       # before | paused | during : when reb_simulation_start_server is called
    use_server = job.get("server", True)
    multi = len(specs) > 1
    shim = ctypes.CDLL(job["shim"]) if (job.get("shim") and use_server and not multi) else None
    res = {"ok": False}

    def fail(msg):
        progress("FAIL", msg)
        res["infra"] = msg
        json.dump(res, open(os.path.join(out, "result.json"), "w"))
        sys.stdout.flush()
        os._exit(3)

    if shim:
        shim.c19_register.argtypes = [ctypes.c_void_p, ctypes.c_long, ctypes.c_long]
        shim.c19_delays.argtypes = [ctypes.c_uint64, ctypes.c_uint, ctypes.c_uint]
        shim.c19_count.restype = ctypes.c_long
        shim.c19_len.restype = ctypes.c_long
        shim.c19_delays(job["delay_seed"], job["delay_prob"], job["delay_max_us"])
    entry = {"reb_simulation_init", "reb_simulation_integrate"}
    if job.get("smokes"):
        # (a) the global interrupt flag (rebound.c:780-797): one SIGINT ends every running integration, the next integrate() resets it
        import signal
        sm = {}
        try:
            sims = [make_sim(rebound, dict(integ=i_, N=30, dt=0.01, seed=5 + n_, tmax=[1e9])) for n_, i_ in enumerate(("leapfrog", "whfast"))]
            rets = [None, None]

            def run_(j):
                try:
                    sims[j].integrate(1e9)
                    rets[j] = "returned"
                except KeyboardInterrupt:
                    rets[j] = "KeyboardInterrupt"
                except BaseException as e:
                    rets[j] = repr(e)
            ths_ = [threading.Thread(target=run_, args=(j,)) for j in range(2)]
            for t_ in ths_:
                t_.start()
            dl = time.time() + 10
            while time.time() < dl and not all(x.steps_done > 50 for x in sims):
                time.sleep(0.002)
            os.kill(os.getpid(), signal.SIGINT)
            for t_ in ths_:
                t_.join(10)
            sm["returns"] = rets
            sm["status"] = [int(x._status) for x in sims]
            t_before = sims[0].t
            sims[0].integrate(t_before + 0.5)                 # the flag is reset by the next call
            sm["resumed"] = bool(sims[0].t >= t_before + 0.5 - 1e-9)
            sm["ok"] = all(r_ == "KeyboardInterrupt" for r_ in rets) and sm["status"] == [6, 6] and sm["resumed"]
        except BaseException as e:
            sm["ok"] = False
            sm["error"] = repr(e)
        res["sigint_smoke"] = sm
        entry.add("reb_sigint")
        # (b) freeing a simulation whose server is running (reb_simulation_free_pointers -> reb_simulation_stop_server)
        fs = {}
        try:
            s2 = make_sim(rebound, dict(integ="leapfrog", N=5, dt=0.01, seed=9, tmax=[0.1]))
            p2 = free_port()
            s2.start_server(port=p2)
            dl = time.time() + 10
            while s2._server_data and s2._server_data.contents.ready == 0 and time.time() < dl:
                time.sleep(0.005)
            b2 = http_get(p2, "/simulation")
            # the plain C entry points: a copy must not inherit the server (server_data of the copy is NULL)
            clib = rebound.clibrebound
            clib.reb_simulation_copy.restype = ctypes.c_void_p
            clib.reb_simulation_create.restype = ctypes.c_void_p
            clib.reb_simulation_free.argtypes = [ctypes.c_void_p]
            cpy = clib.reb_simulation_copy(ctypes.byref(s2))
            fs["copy_server_data_is_null"] = ctypes.c_void_p.from_address(cpy + job["offs"]["server_data"]).value in (None, 0)
            clib.reb_simulation_free(cpy)
            fresh = clib.reb_simulation_create()
            fs["fresh_server_data_is_null"] = ctypes.c_void_p.from_address(fresh + job["offs"]["server_data"]).value in (None, 0)
            clib.reb_simulation_free(fresh)
            cp2 = s2.copy()
            fs["python_copy_has_no_server"] = not bool(cp2._server_data)
            del cp2
            del s2
            import gc
            gc.collect()
            try:
                http_get(p2, "/simulation", timeout=2)
                fs["ok"] = False
                fs["error"] = "the server still answers after the simulation was freed"
            except OSError:
                fs["ok"] = len(b2) > 64 and fs["copy_server_data_is_null"] and fs["fresh_server_data_is_null"] and fs["python_copy_has_no_server"]
        except BaseException as e:
            fs["ok"] = False
            fs["error"] = repr(e)
        res["free_smoke"] = fs
        entry |= {"reb_simulation_free_pointers", "reb_simulation_free", "reb_simulation_copy", "reb_simulation_copy_with_messages",
                  "reb_simulation_create"}
        progress("smokes done", sm.get("ok"), fs.get("ok"))
    units = [Unit(rebound, sp, dict(job, delay_seed=job["delay_seed"] + 17 * i), out if not multi else os.path.join(out, "u%d" % i),
                  shim, job["offs"]) for i, sp in enumerate(specs)]
    progress("simulations built")
    t0 = time.time()
    if multi:
        # several simulations, each with its own server (own port), client and integration thread, in one process
        for u in units:
            if not u.start_server(6):
                fail("could not start a server on a free port")
        cls = [threading.Thread(target=u.client) for u in units]
        its = [threading.Thread(target=u.integrate_all) for u in units]
        for t in cls + its:
            t.start()
        for t in its:
            t.join(60)
        if any(t.is_alive() for t in its):
            for u in units:
                u.sim._status = 1
            fail("integration did not finish")
        for u in units:
            u.stop.set()
        for t in cls:
            t.join(30)
        if any(t.is_alive() for t in cls):
            fail("client thread did not finish")
        for u in units:
            u.sim.stop_server()
            r_u = {"ok": False}
            u.finish(r_u)
        res.update(ok=True, units=len(units), errors=[e for u in units for e in u.errors], wall=time.time() - t0)
        json.dump(res, open(os.path.join(out, "result.json"), "w"))
        return 0
    u = units[0]
    sim, sp = u.sim, u.sp
    th = threading.Thread(target=u.client) if (use_server and job["max_bodies"] > 0) else None
    kb = None
    extra = []
    if use_server and job.get("routes"):
        extra.append(threading.Thread(target=u.routes_client, args=(job["routes"],)))
    if use_server and job.get("shots"):
        extra.append(threading.Thread(target=u.browser))
    for t_ in extra:
        t_.daemon = True
        t_.start()
    if not use_server:
        u.integrate_all()
    elif job.get("restart"):
        # the server is started before and stopped after every integrate() call, the client never stops knocking:
        # requests are in flight when reb_simulation_stop_server closes the socket and cancels the server thread
        if th:
            th.start()

        def between(k, when):
            if when == "before":
                if not u.start_server(3):
                    fail("could not start the server on a free port (restart cycle %d)" % k)
            else:
                time.sleep(u.crng.uniform(0, 6.0) / 1000.0)
                progress("stop_server, cycle", k)
                u.stop_server()
                time.sleep(u.crng.uniform(0, 3.0) / 1000.0)
        u.integrate_all(between)
    elif mode == "before":
        if not u.start_server(6):
            fail("could not start the server on a free port")
        if th:
            th.start()
        if job.get("keyboard"):
            it = threading.Thread(target=u.integrate_all)
            it.start()
            kb = threading.Thread(target=u.keyboard, args=(job["keyboard"],))
            kb.start()
            it.join(60)
            if it.is_alive():
                sim._status = 1
                fail("integration did not finish (keyboard scenario)")
            kb.join(10)
        else:
            u.integrate_all()
    else:
        if mode == "paused":
            sim._status = -3                      # REB_STATUS_PAUSED: integrate() idles inside reb_check_exit
        it = threading.Thread(target=u.integrate_all)
        it.start()
        if mode == "during" and th:
            th.start()                            # the client is already knocking when the server comes up
        time.sleep(job.get("start_delay_ms", 10.0) / 1000.0)
        res["integ_done_before_start"] = u.done.is_set()
        progress("late start of the server, mode", mode)
        if not u.start_server(1):
            sim._status = -1
            fail("could not start the server on a free port (late start)")
        if mode == "paused":
            if th:
                th.start()
            time.sleep(u.crng.uniform(0, 8.0) / 1000.0)
            if sp.get("edits"):
                u.edit_probe(-1)               # request, edit while paused (no step), request
            progress("resume with the space key")
            try:
                http_get(u.port, "/keyboard/32")    # space: resume (server.c:353-357)
            except OSError as e:
                sim._status = -1
                fail("resume request failed: %r" % (e,))
        it.join(50)
        if it.is_alive():
            sim._status = 1                        # let the loop leave at the next reb_check_exit
            fail("integration did not finish")
    wall = time.time() - t0
    progress("integration finished, bodies so far", len(u.bodies))
    if mode != "before" and th and job.get("linger_ms"):
        time.sleep(job["linger_ms"] / 1000.0)
    u.stop.set()
    if th:
        th.join(30)
        if th.is_alive():
            fail("client thread did not finish")
    for t_ in extra:
        t_.join(15)
    progress("client joined")
    if shim:
        shim.c19_stop()
        shim.c19_dump(os.path.join(out, "trace.txt").encode())
        res["counts"] = {n: shim.c19_count(i) for i, n in enumerate(
            ["iEnter", "iChkBegin", "iChkSync", "iChkEnd1", "iChkEnd0", "iSpin", "iLock", "iStepBegin", "iStepEnd",
             "iUnlock", "iEpiSync", "iLeave", "sLock", "sSerBegin", "sSerEnd", "sUnlock", "xStart", "xStop", "sSent", "sStatic", "iShotUnlock", "iShotLock", "iHbBegin", "iHbEnd"])}
        res["late_spins"] = shim.c19_count(-1)
        res["foreign_ser"] = shim.c19_count(-2)
        res["double_close"] = shim.c19_count(-3)
    if use_server and sim._server_data:
        progress("stop_server")
        sim.stop_server()
    progress("writing results")
    res["wall"] = wall
    if use_server:
        entry |= {"reb_simulation_start_server", "reb_simulation_stop_server"}
    if u.shots_ok or u.shots_posted:
        entry.add("reb_simulation_output_screenshot")
    res["entry"] = sorted(entry)
    u.finish(res)
    return 0


# ============================================================================ the check
def compile_shim(d):
    out = os.path.join(d, "c19_preload.so")
    p = subprocess.run(["gcc", "-O2", "-fPIC", "-shared", "-w", "-o", out, os.path.join(HARNESS, "c19_preload.c"),
                        "-ldl", "-lpthread"], capture_output=True, text=True)
    if p.returncode != 0:
        raise Infra("shim compile failed: " + p.stderr[:2000])
    return out


def measure_offsets(d):
    exe = compile_harness(d, os.path.join(HARNESS, "c19_offsets.c"), os.path.join(d, "c19_offsets"), extra=("-DSERVER",))
    p = subprocess.run([exe], capture_output=True, text=True)
    if p.returncode != 0:
        raise Infra("offset probe failed")
    return json.loads(p.stdout)


def check_interposable(d):
    """the calls the shim intercepts must go through the PLT of the library (else traces would be blind)"""
    p = subprocess.run(["objdump", "-dr", "--no-show-raw-insn", os.path.join(d, "src", "rebound.o")],
                       capture_output=True, text=True)
    need = {"reb_check_exit", "reb_simulation_step", "reb_simulation_synchronize", "reb_run_heartbeat", "pthread_mutex_lock",
            "pthread_mutex_unlock", "usleep"}
    q = subprocess.run(["objdump", "-dr", "--no-show-raw-insn", os.path.join(d, "src", "server.o")],
                       capture_output=True, text=True)
    seen = set()
    for l in (p.stdout + q.stdout).splitlines():
        if "R_X86_64_PLT32" in l:
            seen.add(l.split()[-1].split("-")[0].split("+")[0])
    return sorted(need - seen), "reb_simulation_save_to_stream" in seen


def run_phase(c, d, mode, job, shim=None, timeout=75, retries=1, what=""):
    """run one phase (`--worker` scenario / `--analyse` / `--parallel`) in a fresh process group with a deadline;
    on a time-out the group is killed, the last progress markers of the worker are printed, and the phase is retried
    once on a fresh process.  -> (status, result dict, stderr tail); status in ok | timeout | infra | died"""
    last = ("infra", {}, "")
    for attempt in range(retries + 1):
        out = tempfile.mkdtemp(prefix="job.", dir=d)
        j = dict(job, scratch=d, out=out, shim=shim, offs_blob=job.get("offs", {}).get("sizeof_blob", 12))
        jf = os.path.join(out, "job.json")
        json.dump(j, open(jf, "w"))
        env = dict(os.environ)
        if shim:
            env["LD_PRELOAD"] = shim
            env["C19_LIB"] = os.path.join(d, "librebound" + SUFFIX)
        env.pop("C19_DEBUG", None)
        p = subprocess.Popen([sys.executable, "-u", os.path.abspath(__file__), mode, jf], env=env, stdout=subprocess.DEVNULL,
                             stderr=subprocess.PIPE, text=True, start_new_session=True)
        try:
            _, err = p.communicate(timeout=timeout)
            timed_out = False
        except subprocess.TimeoutExpired:
            timed_out = True
            try:
                os.killpg(p.pid, 9)
            except OSError:
                pass
            try:
                _, err = p.communicate(timeout=10)
            except Exception:
                err = ""
        tail = "\n".join((err or "").splitlines()[-30:])
        res = {}
        rf = os.path.join(out, "result.json")
        if os.path.exists(rf):
            try:
                res = json.load(open(rf))
            except Exception:
                res = {}
        res["out"] = out
        res["rc"] = p.returncode
        if timed_out:
            print("[C19] phase %s %s: no result after %d s (attempt %d); process group killed; last lines of the worker:\n%s"
                  % (mode, what, timeout, attempt + 1, tail), file=sys.stderr, flush=True)
            last = ("timeout", res, tail)
            continue
        if res.get("ok"):
            return "ok", res, tail
        if p.returncode is not None and p.returncode < 0:
            last = ("died", res, tail)
            continue
        print("[C19] phase %s %s failed (rc=%s, %s); last lines of the worker:\n%s"
              % (mode, what, p.returncode, res.get("infra"), tail), file=sys.stderr, flush=True)
        last = ("infra", res, tail)
    return last


class Rec:
    """stand-in for the Check object inside the analysis / parallel processes: records the calls, the parent replays them"""

    def __init__(self):
        self.events = []
        self.cov = {}

    def violation(self, key, what, replay):
        self.events.append(["violation", key, what, replay])

    def count(self, key=None, nontrivial=True, n=1):
        self.events.append(["count", key, nontrivial, n])

    def sample(self, obj):
        self.events.append(["sample", obj])

    def log(self, *a):
        progress(*a)

    def replay_into(self, c):
        pass


def replay_events(c, events):
    for e in events:
        if e[0] == "violation":
            c.violation(e[1], e[2], e[3])
        elif e[0] == "count":
            k = e[1]
            c.count(tuple(k) if isinstance(k, list) else k, e[2], e[3])
        elif e[0] == "sample":
            c.sample(e[1])


def analyse_main(argv):
    """python c19.py --analyse <job.json>: search (ii) for one finished scenario, in its own process (a continuation that
    hangs must not hang the check)"""
    job = json.load(open(argv[0]))
    sys.path.insert(0, job["scratch"])
    import warnings
    warnings.filterwarnings("ignore")
    import rebound
    assert os.path.abspath(rebound.__file__).startswith(job["scratch"])
    progress("analysis start", job["tag"], job["spec"]["integ"])
    fmt = Fmt(rebound, job["offs_blob"])
    rec = Rec()
    stats = {k: 0 for k in STAT_KEYS}
    tmpdir = tempfile.mkdtemp(prefix="ld.", dir=job["out"])
    res = json.load(open(os.path.join(job["run_out"], "result.json")))
    res["out"] = job["run_out"]
    analyse_bodies(rec, rebound, fmt, job["spec"], res, tmpdir, stats, job["tag"], tuple(job["racy"]) if job.get("racy") else None)
    json.dump({"ok": True, "events": rec.events, "stats": stats, "cov": rec.cov}, open(os.path.join(job["out"], "result.json"), "w"),
              default=str)
    progress("analysis done")
    return 0


def parallel_main(argv):
    """python c19.py --parallel <job.json>: search (i) in its own process"""
    job = json.load(open(argv[0]))
    sys.path.insert(0, job["scratch"])
    import warnings
    warnings.filterwarnings("ignore")
    import rebound
    assert os.path.abspath(rebound.__file__).startswith(job["scratch"])
    fmt = Fmt(rebound, job["offs_blob"])
    rec = Rec()
    summary = parallel_run(rec, rebound, fmt, job["reps"], job["out"])
    json.dump({"ok": True, "events": rec.events, "summary": summary}, open(os.path.join(job["out"], "result.json"), "w"), default=str)
    progress("parallel done")
    return 0


APPLICABLE_DIMENSIONS = [
    "roles: N_active < N", "roles: testparticle_type=0", "roles: testparticle_type=1", "roles: single active body",
    "roles: zero-mass active body",
    "variational: 1st", "variational: 2nd", "variational: megno", "variational: with test particles",
    "options: safe_mode=0", "options: keep_unsynchronized=1", "options: whfast coordinates", "options: whfast kernel",
    "options: whfast corrector", "options: ias15 adaptive options", "options: bs options", "options: mercurius/trace r_crit_hill",
    "options: G != 1", "options: softening != 0", "options: unequal JANUS scales", "options: units set",
    "time: dt < 0", "time: exact_finish_time=0", "time: exact_finish_time=1", "time: short bursts of integrate()",
    "time: integrate() split into several calls", "time: one long integrate() call",
    "callbacks: additional_forces (velocity dependent)", "callbacks: heartbeat together with the server",
    "callbacks: heartbeat that modifies the simulation",
    "histories: particle removed between integrate() calls, requests / serialisation before the next step",
    "histories: collisions + merges (N changes)", "histories: tree code", "histories: close encounters",
    "histories: Simulationarchive auto-snapshots in the same run", "histories: copy / save / load mid-run",
    "histories: user edits between integrate() calls, requests on both sides",
    "histories: user edit while paused before the first step, requests on both sides",
    "histories: restore from an archive snapshot, in parallel threads",
    "scale: N > 1024",
    "server: started while paused, resumed by the space key", "server: started from another thread while integrating",
    "server: /keyboard pause/step/resume racing with requests", "server: /keyboard quit, integrate() re-entered",
    "server: start/stop cycles with requests in flight", "server: several servers and simulations in one process",
    "server: idle server, no request",
]

STAT_KEYS = ("bodies", "incomplete", "not_boundary", "boundary_exact", "boundary_prologue_variant", "load_fail",
             "continued_bitwise", "not_boundary_state", "F18a", "F18b", "F19", "not_continuable", "during_integration", "runaway",
             "exact_but_save_load_not_continuable(C05)")


def reference_run(rebound, fmt, sp, with_heartbeat, archive=None):
    """serverless run of the same spec; with_heartbeat: also the serialisation at every step boundary
    (heartbeat is called after each step) and after every integrate() call"""
    sim = make_sim(rebound, sp)
    if archive:
        attach_archive(sim, sp, archive)
    table = {}      # steps_done -> list of (kind, canon, call index)
    clib = rebound.clibrebound
    call = [0]
    if with_heartbeat:
        modfn = getattr(sim, "_c19_hbmod", None)

        def hb(simp):
            if modfn:
                modfn(simp)                    # the run's own state-modifying heartbeat first, then the record
            s = simp.contents
            table.setdefault(int(s.steps_done), []).append(("A", fmt.canon(sim_bytes(rebound, s)), call[0], s.t))
        sim.heartbeat = hb
    ends = []
    if with_heartbeat and sp.get("edits"):
        table.setdefault(0, []).append(("E", fmt.canon(sim_bytes(rebound, sim)), -1, sim.t))     # before the first edit
    apply_edits(sim, sp, -1)
    if with_heartbeat and sp.get("edits"):
        table.setdefault(0, []).append(("E", fmt.canon(sim_bytes(rebound, sim)), -1, sim.t))
    for k, tmax in enumerate(sp["tmax"]):
        call[0] = k
        integ_to(sim, sp, tmax)
        if with_heartbeat:
            table.setdefault(int(sim.steps_done), []).append(("E", fmt.canon(sim_bytes(rebound, sim)), k, sim.t))
        if sp.get("edits"):
            apply_edits(sim, sp, k)
            if with_heartbeat:          # the state after the user's edit is a state of the run, too
                table.setdefault(int(sim.steps_done), []).append(("E", fmt.canon(sim_bytes(rebound, sim)), k, sim.t))
        ends.append(int(sim.steps_done))
    return sim_bytes(rebound, sim), table, ends


class LoadError(Exception):
    pass


class Runaway(Exception):
    """a continuation that takes far longer than the whole reference run (e.g. a served dt of 1e-17)"""


def guarded_integrate(s, tmax, limit_s, eft=1):
    """sim.integrate(tmax) that cannot hang: run in a thread; after limit_s the loop is told to leave at its next
    reb_check_exit (status >= 0) and Runaway is raised"""
    err = []

    def go():
        try:
            s.integrate(tmax, exact_finish_time=eft)
        except BaseException as e:
            err.append(e)
    th = threading.Thread(target=go)
    th.daemon = True
    th.start()
    th.join(limit_s)
    if th.is_alive():
        s._status = 5           # REB_STATUS_USER: reb_check_exit returns it, the loop ends
        th.join(20)
        raise Runaway("integrate(%r) from t=%r with dt=%r still running after %.1f s" % (tmax, s.t, s.dt, limit_s))
    if err:
        raise err[0]


def continue_to_end(rebound, fmt, b, sp, tmpdir, restore_dt=None, limit_s=30.0):
    """load a served body and continue it through the remaining integrate() calls.
    restore_dt: replay what the uninterrupted run does at the end of the call the snapshot was taken in
    (epilogue rebound.c:880-884: synchronize, dt = last_full_dt) — used to decide whether a mismatch is F18 only"""
    try:
        s = load_bytes(rebound, b, tmpdir)
    except Exception as e:
        raise LoadError(repr(e))
    install_callbacks(s, sp)
    s._status = -1          # a snapshot served while PAUSED carries status PAUSED (it is serialised); status is not compared
    sign = 1 if sp["dt"] > 0 else -1
    first = True
    t_end = time.time() + limit_s
    if int(s.steps_done) == 0:
        apply_edits(s, sp, -1)
    for k_call, tmax in enumerate(sp["tmax"]):
        # reb_check_exit (rebound.c:684-688) regards a call as finished when |t - tmax| < 1e-12 |tmax|: t after the
        # shortened step can be one ulp off tmax
        reached = abs(tmax - s.t) < 1e-12 * abs(tmax)
        if (tmax - s.t) * sign > 0 and not reached:
            guarded_integrate(s, tmax, max(0.5, t_end - time.time()), sp.get("eft", 1))
            if restore_dt is not None and first:
                s.dt = restore_dt
            first = False
            apply_edits(s, sp, k_call)
        elif reached and restore_dt is not None and first:
            s.synchronize()
            s.dt = restore_dt
            first = False
            apply_edits(s, sp, k_call)
        elif reached:
            # the snapshot was taken idle after this call: the user's edit that follows it still has to happen (idempotent)
            apply_edits(s, sp, k_call)
    return sim_bytes(rebound, s)


MASK = ("status", "functionpointers")


def analyse_bodies(c, rebound, fmt, sp, res, tmpdir, stats, tag, racy=None):
    """search (ii): every served body against the reference run"""
    out = res["out"]
    tr0 = time.time()
    final0, _, _ = reference_run(rebound, fmt, sp, False, archive=os.path.join(tmpdir, "ref0.bin"))
    limit_s = 3.0 + 8.0 * (time.time() - tr0)      # a continuation is at most the whole run
    final1, table, ends = reference_run(rebound, fmt, sp, True, archive=os.path.join(tmpdir, "ref1.bin"))
    if sp.get("sa"):
        # two writers of serialisations in one run (archive heartbeat + server): the archive must be the serverless one
        try:
            A = rebound.Simulationarchive(os.path.join(out, "archive.bin"))
            R = rebound.Simulationarchive(os.path.join(tmpdir, "ref0.bin"))
            na, nr = len(A), len(R)
            bad = None
            if na != nr:
                bad = "number of snapshots %d vs %d" % (na, nr)
            else:
                for i in range(na):
                    x = fmt.canon(sim_bytes(rebound, A[i]), MASK)
                    y = fmt.canon(sim_bytes(rebound, R[i]), MASK)
                    if x is None or y is None or Fmt.diff(x, y):
                        bad = "snapshot %d differs in %s" % (i, (Fmt.diff(x, y)[:6] if x and y else "unparsable"))
                        break
            stats["archive_snapshots_compared"] = stats.get("archive_snapshots_compared", 0) + na
        except Exception as e:
            bad = "archive unreadable: %r" % (e,)
        if bad and res.get("double_close", 0) > 0 and ("number of snapshots" in bad or "unreadable" in bad):
            # the server thread's second close() of a connection descriptor closed the archive file another thread had just opened
            # (finding F20): the write of that snapshot is lost.  0 of 60 runs with fixes/C19-server-double-close.diff, 4 of 40 without.
            stats["archive_snapshots_lost_to_double_close"] = stats.get("archive_snapshots_lost_to_double_close", 0) + 1
            c.violation(F20, "Simulationarchive written while the server answered requests lost a snapshot (%s): the server closes each "
                        "connection descriptor twice and hit the archive's descriptor" % bad, dict(spec=sp, scenario=tag))
        elif bad:
            c.violation("archive-differs-when-serving", "Simulationarchive written while the server answered requests differs from the one "
                        "written without server (%s): %s" % (sp["integ"], bad), dict(spec=sp, scenario=tag))
    F0 = fmt.canon(final0, MASK)
    F1 = fmt.canon(final1, MASK)
    Fs = fmt.canon(open(os.path.join(out, "final.bin"), "rb").read(), MASK)
    rep = {"spec": sp, "scenario": tag}
    c.count(("neutral", sp["integ"], tag))
    if F0 is None or F1 is None or Fs is None:
        raise Infra("could not parse a reference serialisation")
    if Fmt.diff(F0, F1):
        c.violation("serialising-alters-trajectory", "calling reb_simulation_save_to_stream at every step changes the final state (%s): fields %s"
                    % (sp["integ"], Fmt.diff(F0, F1)[:6]), rep)
    if Fmt.diff(F0, Fs):
        c.violation("serving-alters-trajectory", "final state with the server answering requests differs from the run without server (%s): fields %s"
                    % (sp["integ"], Fmt.diff(F0, Fs)[:6]), dict(rep, nbodies=res["nbodies"]))
    # request -> user edit without a step -> request: the second body must be the live (edited) state, the first the state before
    import glob
    for fb in sorted(glob.glob(os.path.join(out, "edit*_B.bin"))):
        A_ = fmt.canon(open(fb.replace("_B.bin", "_A.bin"), "rb").read(), MASK)
        B_ = fmt.canon(open(fb, "rb").read(), MASK)
        L_ = fmt.canon(open(fb.replace("_B.bin", "_L.bin"), "rb").read(), MASK)
        stats["edit_probes"] = stats.get("edit_probes", 0) + 1
        c.count((tag, sp["integ"], "edit-probe", os.path.basename(fb)))
        if A_ is None or B_ is None or L_ is None:
            c.violation("served-body-incomplete", "body around a user edit is not a complete snapshot (%s)" % sp["integ"], dict(rep, probe=os.path.basename(fb)))
            continue
        dd_ = Fmt.diff(B_, L_)
        if dd_:
            stale = not Fmt.diff(A_, B_)
            c.violation("served-snapshot-is-not-the-current-state",
                        "after a user edit between integrate() calls (no step taken) the served snapshot differs from the live simulation in %s%s (%s)"
                        % (dd_[:6], ": it is the state BEFORE the edit" if stale else "", sp["integ"]),
                        dict(rep, probe=os.path.basename(fb), edits=sp.get("edits"), fields=dd_[:8]))
        elif not Fmt.diff(A_, B_):
            stats["edit_probes_vacuous"] = stats.get("edit_probes_vacuous", 0) + 1      # the random value equals the current one
    # window boundaries: steps_done values at which an unlocked adjustment of the integrator can be observed
    window = set()
    for e in ends:
        window.add(e)
        window.add(e - 1)
    unsync = sp.get("safe", 1) == 0

    def in_f19_window(n):
        # racy = (verdict, n0): the model accepted the trace only with the server started inside an iteration that had not
        # taken the mutex (step n0 -> n0+1); that step and the next one (after the bogus unlock) are unprotected
        return racy is not None and racy[0] != "clean" and n is not None and racy[1] <= n <= racy[1] + 2
    for i in range(res["nbodies"]):
        b = open(os.path.join(out, "body%04d.bin" % i), "rb").read()
        stats["bodies"] += 1
        c.count((tag, sp["integ"], "body", i % 4))
        brep = dict(rep, body_index=i, body_len=len(b), body_sha=hashlib.sha1(b).hexdigest())
        B = fmt.canon(b, MASK)
        if B is None and i < len(res.get("near_stop", [])) and res["near_stop"][i]:
            # reb_simulation_stop_server cancelled the server thread while it was writing this response
            stats["truncated_by_stop_server"] = stats.get("truncated_by_stop_server", 0) + 1
            continue
        if B is None:
            stats["incomplete"] += 1
            c.violation("served-body-incomplete", "HTTP /simulation body is not a complete snapshot (%d bytes, %s)" % (len(b), sp["integ"]), brep)
            continue
        n = fmt.scalar(B, "steps_done", "Q")
        t = fmt.scalar(B, "t", "d")
        dt = fmt.scalar(B, "dt", "d")
        brep.update(steps_done=n, t=t, dt=dt)
        cands = table.get(n, [])
        if n == 0 and not cands:
            cands = [("I", fmt.canon(sim_bytes(rebound, make_sim(rebound, sp)), MASK), 0, 0.0)]
        if not cands or not any(cd[3] == t for cd in cands):
            stats["not_boundary"] += 1
            key = "served-snapshot-not-at-step-boundary"
            if in_f19_window(n):
                key = F19
                stats["F19"] += 1
            elif unsync and n in window:
                key = F18B
            c.violation(key, "served snapshot (steps_done=%s, t=%r) is not a step boundary of the reference run (%s)"
                        % (n, t, sp["integ"]), brep)
            continue
        diffs = [Fmt.diff({k: v for k, v in cd[1].items() if k not in MASK}, B) for cd in cands]
        best = min(diffs, key=len)
        exact = any(len(x) == 0 for x in diffs)
        pro = any(set(x) <= {"dt_last_done", "exact_finish_time"} for x in diffs)
        if exact:
            stats["boundary_exact"] += 1
        elif pro:
            stats["boundary_prologue_variant"] += 1
        # fields that are functions of dt only: reb_integrator_init (called by the serialisation, output.c:484) refreshes
        # SEI's cached sin/tan of dt, so with the shrunk last-step dt (F18a) they differ as well
        dtlike = {"dt", "dt_last_done", "ri_sei.lastdt", "ri_sei.sindt", "ri_sei.tandt", "ri_sei.sindtz", "ri_sei.tandtz"}
        if not (exact or pro) and not set(best) <= dtlike:
            # not the state of any step boundary: do NOT try to continue it (a torn state can hang the Kepler solver, F14)
            if in_f19_window(n):
                stats["F19"] += 1
                c.violation(F19, "server started while step %d was in progress: the served snapshot is the live mid-step state (%s): %s differ"
                            % (racy[1], sp["integ"], best[:6]), dict(brep, vs_boundary=best[:8]))
            elif unsync and n in window:
                stats["F18b"] += 1
                c.violation(F18B, "served snapshot taken while reb_check_exit/epilogue synchronised outside the mutex is torn (%s safe_mode=0): differs from the boundary state in %s"
                            % (sp["integ"], best[:6]), dict(brep, vs_boundary=best[:8]))
            else:
                stats["not_boundary_state"] += 1
                c.violation("served-snapshot-differs-from-boundary-state",
                            "served snapshot (steps_done=%s of %s, %s) is not the simulation's state at that step boundary: fields %s differ"
                            % (n, ends, sp["integ"], best[:6]), dict(brep, vs_boundary=best[:8]))
            continue
        # continuation (bounded: a snapshot served with dt = 1e-17 would otherwise run for ever)
        c.log("continue body", i, "n", n, "t", t, "dt", dt, "exact", exact, "pro", pro, "best", best[:5], "ends", ends)
        dd = None
        try:
            fin = fmt.canon(continue_to_end(rebound, fmt, b, sp, tmpdir, limit_s=limit_s), MASK)
            dd = Fmt.diff(F0, fin) if fin is not None else ["#unparsable"]
            if sp.get("sa"):
                # the continued snapshot has no archive file attached, so its archive bookkeeping does not advance
                dd = [k for k in dd if not k.startswith("simulationarchive_")]
        except Runaway as e:
            stats["runaway"] += 1
            dd = ["#runaway: " + str(e)[:120]]
        except LoadError as e:
            stats["load_fail"] += 1
            c.violation("served-body-not-loadable", "served snapshot cannot be loaded: %r" % (e,), brep)
            continue
        except Exception as e:
            # e.g. "Integration is not making progress" when the served dt is one ulp (F18a in its extreme form)
            dd = ["#exception: " + repr(e)[:120]]
        if not dd:
            stats["continued_bitwise"] += 1
            continue
        # not continuable bit-for-bit: is it the known dt defect?  At the two boundaries around the shortened last
        # step of an integrate() call the served dt is the shrunk one (last_full_dt lives on the integrator's stack):
        # restore the dt the uninterrupted run has after that call and continue again.
        explained = False
        edt = [None]
        if n in window:
            k = min(kk for kk, e in enumerate(ends) if n in (e, e - 1))
            edt = [fmt.scalar(cd[1], "dt", "d") for cd in table.get(ends[k], []) if cd[0] == "E" and cd[2] == k] or [None]
            if edt[0] is not None:
                try:
                    fin2 = fmt.canon(continue_to_end(rebound, fmt, b, sp, tmpdir, restore_dt=edt[0], limit_s=limit_s), MASK)
                    d2 = Fmt.diff(F0, fin2) if fin2 is not None else ["#"]
                    if sp.get("sa"):
                        d2 = [k for k in d2 if not k.startswith("simulationarchive_")]
                    explained = (not d2) and dt != edt[0]
                except Exception:
                    explained = False
            if not explained and not exact and dt != edt[0] and edt[0] is not None and set(best) <= dtlike:
                # the snapshot IS the boundary state except for dt-like fields, at a last-step boundary, with a dt that is not the
                # one the run has after that call: F18a by its signature, whatever a continuation does (for collision/tree
                # configurations continuing a saved state is not bitwise anyway: C05/C13)
                explained = True
        if not explained and (exact or pro):
            # the body IS the reference run's boundary serialisation, bit for bit: that continuing a saved state does not
            # reproduce the run is then a defect of save/load (C05), not of the server protocol
            stats["exact_but_save_load_not_continuable(C05)"] += 1
            c.cov.setdefault("exact_boundary_snapshots_not_continuable", []).append(
                {"integrator": sp["integ"], "steps_done": n, "ends": ends, "final_fields_differing": dd[:6]})
            continue
        if explained:
            stats["F18a"] += 1
            c.violation(F18A, "served snapshot at a last-step boundary carries dt=%r instead of %r; continuing it does not reproduce the run (%s)"
                        % (dt, edt[0], sp["integ"]), dict(brep, differing_fields=dd[:8]))
        else:
            stats["not_continuable"] += 1
            c.violation("served-snapshot-not-continuable", "continuing the served snapshot (steps_done=%s of %s) does not reproduce the uninterrupted run (%s): %s; vs boundary state: %s"
                        % (n, ends, sp["integ"], dd[:6], best[:6]), dict(brep, differing_fields=dd[:8], vs_boundary=best[:8]))


def mutants(tokens, rng):
    """traces that must be rejected: (name, tokens)"""
    out = []
    idx = lambda name: [i for i, t in enumerate(tokens) if t.split(":")[0] == name]
    sl, il, sb, st = idx("sLock"), idx("iLock"), idx("sSerBegin"), idx("iStepBegin")
    if sl:
        i = rng.choice(sl)
        out.append(("drop-sLock", tokens[:i] + tokens[i + 1:]))
    if il:
        i = rng.choice(il)
        out.append(("drop-iLock", tokens[:i] + tokens[i + 1:]))
    if sb and st:
        # a serialisation begins inside a step
        i = rng.choice(st)
        out.append(("serialise-inside-step", tokens[:i + 1] + ["sSerBegin"] + tokens[i + 1:]))
    if sl:
        i = rng.choice(sl)
        out.append(("sLock-with-need_copy-0", tokens[:i] + ["sLock:0"] + tokens[i + 1:]))
    su = idx("sUnlock")
    if su:
        i = rng.choice(su)
        out.append(("sUnlock-with-need_copy-1", tokens[:i] + ["sUnlock:1"] + tokens[i + 1:]))
    iu = idx("iUnlock")
    if iu:
        i = rng.choice(iu)
        out.append(("drop-iUnlock", tokens[:i] + tokens[i + 1:]))
    return out


# option dimensions that can be folded onto an ordinary scenario: name -> (integrators it applies to, function(rng, sp))
def _fold_table():
    fixed = ("whfast", "saba", "eos", "mercurius", "leapfrog", "janus", "sei")

    def neg(rng, sp):
        sp["dt"] = -abs(sp["dt"])
        sp["tmax"] = [-abs(t) for t in sp["tmax"]]

    def opt(**kw):
        def f(rng, sp):
            o = sp.setdefault("opt", {})
            for k, v in kw.items():
                o[k] = rng.choice(v) if isinstance(v, list) else v
        return f

    def small_force(rng, sp):
        sp["force"] = 1
        sp["N"] = min(sp["N"], 9)

    def keep_unsync(rng, sp):
        sp["safe"] = 0
        sp.setdefault("opt", {})["keep_unsynchronized"] = 1

    def role(name):
        def f(rng, sp):
            sp["role"] = name
            sp["tpt"] = rng.choice([0, 1])
            sp.pop("testp", None)
        return f

    def units(rng, sp):
        sp["units"] = 1
        sp["dt"] = sp["dt"] / 6.283 if sp["dt"] > 0 else sp["dt"] / 6.283
        sp["tmax"] = [t / 6.283 for t in sp["tmax"]]
    return [
        ("dt<0", ("ias15", "whfast", "saba", "eos", "mercurius", "bs", "leapfrog", "janus", "sei"), neg),
        ("force", ("leapfrog", "ias15", "whfast"), small_force),
        ("coords", ("whfast",), opt(coordinates=["democraticheliocentric", "whds", "barycentric"])),
        ("kernel", ("whfast",), opt(kernel=["modifiedkick", "composition", "lazy"])),
        ("corrector", ("whfast",), opt(corrector=[3, 5, 7, 11, 17])),
        ("keep_unsync", ("whfast",), keep_unsync),
        ("ias15opt", ("ias15",), opt(epsilon=[1e-7, 1e-10], adaptive_mode=[0, 1, 2], min_dt=1e-4)),
        ("bsopt", ("bs",), opt(eps=[1e-6, 1e-10], max_dt=0.4)),
        ("rcrit", ("mercurius", "trace"), opt(r_crit_hill=[2.0, 4.0])),
        ("G", ("ias15", "whfast", "saba", "eos", "leapfrog", "bs"), opt(G=[0.7, 1.3])),
        ("softening", ("ias15", "whfast", "leapfrog", "eos", "saba"), opt(softening=[1e-3, 1e-2])),
        ("janus-scales", ("janus",), opt(scale_pos=1e-16, scale_vel=1e-15)),
        ("units", ("whfast", "ias15", "leapfrog"), units),
        ("single-active", ("ias15", "whfast", "leapfrog", "eos", "bs"), role("single-active")),
        ("zero-mass-active", ("ias15", "whfast", "leapfrog", "eos", "saba"), role("zero-mass-active")),
    ]


def fold_dims(rng, items, per_item=2):
    """distribute every foldable dimension over the given (tag, spec, jobparams) scenarios (at most `per_item` each, compatible
    integrator, no two that touch the same thing); returns the names that found no host"""
    table = _fold_table()
    rng.shuffle(table)
    load = [0] * len(items)
    left = []
    for name, integs, fn in table:
        hosts = [i for i, (tag, sp, jp) in enumerate(items) if sp["integ"] in integs and load[i] < per_item
                 and not sp.get("var") and not sp.get("enc") and not sp.get("coll")
                 and not (name in ("single-active", "zero-mass-active") and (sp.get("testp") or sp.get("role")))
                 and not (name == "units" and "G" in sp.get("opt", {})) and not (name == "G" and sp.get("units"))
                 and not (name in ("kernel", "corrector") and sp.get("opt", {}).get("coordinates"))
                 and not (name == "coords" and (set(sp.get("opt", {})) & {"kernel", "corrector"} or sp.get("corrector")))
                 and not (name == "keep_unsync" and len(sp["tmax"]) > 6)]
        if not hosts:
            left.append((name, integs, fn))
            continue
        i = min(hosts, key=lambda j: load[j])
        fn(rng, items[i][1])
        items[i][1].setdefault("folded", []).append(name)
        load[i] += 1
    return left


# ============================================================================ factors and pairwise covering arrays
S_FACTORS = {
    "integ": list(INTEGS),
    "calls": ["one", "several", "bursts"],
    "life": ["before", "paused", "during", "restart"],                 # when the server is started / stopped
    "req": ["sim", "sim+kbd", "sim+quit", "sim+routes", "sim+shot"],   # what the clients ask for besides /simulation
    "edit": ["none", "m", "vx", "dt", "opt", "remove"],                # user edit between integrate() calls (request on both sides)
    "config": ["plain", "tp0", "tp1", "single", "zmass", "var1", "var2", "megno", "enc", "coll", "tree"],
    "eft": [1, 0],
    "safe": [1, 0],
    "sign": ["+", "-"],
    "cb": ["none", "hb", "force", "hbmod"],          # hbmod: a heartbeat that MODIFIES the simulation in two parts (mass transfer)
    "sa": [0, 1],
    "opt": ["none", "G", "softening", "units", "specific"],
}
P_FACTORS = {
    "integ": list(INTEGS),
    "config": ["plain", "tp0", "tp1", "single", "zmass", "var1", "var2", "megno", "enc", "coll", "tree"],
    "eft": [1, 0],
    "safe": [1, 0],
    "sign": ["+", "-"],
    "sa": [0, 1],
    "opt": ["none", "G", "softening", "units", "specific"],
    "cb": ["none", "force", "hbmod"],
    "rng": ["none", "seeded-draws"],        # per-simulation generator feeds a particle (collisions shuffle with rand_r(&r->rand_seed) too)
    "edit": ["none", "m", "dt", "remove"],  # user edit between the two integrate() calls, BEFORE the copy / save
    "mix": ["mixed", "same-type"],          # what runs in the other threads
}
_VARK = {"var1": "1st", "var2": "2nd", "megno": "megno"}
_SPECIFIC = ("whfast", "ias15", "bs", "mercurius", "trace", "janus")


def excluded(f, a, g, b):
    """reason why the pair (f=a, g=b) cannot be generated (combinations the library rejects, or that make the oracle vacuous)"""
    v = {f: a, g: b}
    i, cfg = v.get("integ"), v.get("config")
    if i is not None and cfg is not None:
        if cfg in _VARK and _VARK[cfg] not in VAR_OK.get(i, []):
            return "the integrator rejects these variational particles"
        if cfg in ("single", "zmass") and i not in ("ias15", "whfast", "leapfrog", "eos", "bs", "saba"):
            return "role layouts generated for ias15/whfast/leapfrog/eos/bs/saba"
        if cfg in ("tp0", "tp1") and i not in TESTP_OK:
            return "N_active < N not supported / not meaningful for this integrator"
        if cfg == "enc" and i not in ("mercurius", "trace"):
            return "encounter branch exists only in MERCURIUS/TRACE"
        if cfg == "coll" and i not in ("ias15", "leapfrog", "mercurius"):
            return "collision scenario calibrated for ias15/leapfrog/mercurius"
        if cfg == "tree" and i not in ("ias15", "leapfrog"):
            return "tree gravity is rejected by the other integrators"
    if i is not None:
        if v.get("safe") == 0 and i not in ("whfast", "saba", "eos", "mercurius"):
            return "no safe_mode option"
        if v.get("sign") == "-" and i == "trace":
            return "TRACE with dt<0 (finding F10)"
        if v.get("req") == "sim+quit" and i not in ("whfast", "leapfrog", "saba", "eos"):
            return "re-entering integrate() reproduces the run only for fixed-step schemes"
        if v.get("edit") == "dt" and i in ("ias15", "bs"):
            return "dt is chosen by the adaptive scheme"
        if v.get("opt") == "specific" and i not in _SPECIFIC:
            return "no integrator-specific option in the generator"
        if v.get("cb") == "force" and i not in ("leapfrog", "ias15", "whfast"):
            return "Python additional_forces scenario calibrated for leapfrog/ias15/whfast"
        if v.get("opt") == "units" and i not in ("whfast", "ias15", "leapfrog"):
            return "units scenario calibrated for whfast/ias15/leapfrog"
        if v.get("opt") in ("G", "softening") and i in ("sei", "janus", "mercurius", "trace"):
            return "G / softening not folded onto this integrator"
    if cfg is not None:
        if cfg in _VARK and v.get("safe") == 0:
            return "variational particles need synchronised steps"
        if cfg in _VARK and v.get("cb") == "force":
            return "additional forces are not applied to variational particles"
        if cfg in ("coll", "tree", "single") and v.get("cb") == "hbmod":
            return "the mass-transfer heartbeat needs two massive, persistent particles"
        if cfg in _VARK and v.get("edit") == "remove":
            return "removing a real particle leaves its variational partners behind"
        if cfg in ("coll", "tree", "single", "enc") and v.get("edit") == "remove":
            return "removal scenario uses the plain / test-particle systems"
        if cfg in ("enc", "coll", "tree") and v.get("cb") == "force":
            return "force scenario uses the plain system"
        if cfg in ("enc", "coll", "tree") and v.get("opt") in ("units", "G", "softening"):
            return "encounter / collision systems are calibrated for G=1"
        if cfg == "tree" and v.get("safe") == 0:
            return "tree gravity only with integrators that have no safe_mode"
        if cfg in ("coll", "tree") and v.get("sign") == "-":
            return "collision system calibrated for dt>0"
        if cfg in ("coll", "tree") and v.get("rng") == "seeded-draws":
            return "the extra particle would leave the box / join the collisions"
        if cfg in ("coll", "tree") and v.get("edit") in ("m", "vx"):
            return "the edited particle may have been merged away"
        if cfg in ("coll", "tree", "enc") and v.get("req") == "sim+quit":
            return "re-entered integrate() on encounter/collision systems is not the reference's call sequence"
        if cfg in ("tp0", "tp1", "single", "zmass", "var1", "var2", "megno") and v.get("opt") == "units":
            return "units scenario uses the plain system"
    life, req = v.get("life"), v.get("req")
    if life is not None and req is not None and req in ("sim+kbd", "sim+quit", "sim+shot") and life != "before":
        return "keyboard / screenshot scenarios need the server from the start"
    if life == "during" and v.get("edit") not in (None, "none"):
        return "the probe around the edit needs the server to be up at that moment"
    if req == "sim+quit" and v.get("safe") == 0:
        return "re-entering integrate() synchronises an unsynchronised scheme: not the reference's trajectory by design"
    if v.get("edit") == "remove" and v.get("integ") in ("janus", "sei", "mercurius", "trace"):
        return "removal between calls generated for the integrators that re-index on a changed N"
    if v.get("edit") == "remove" and v.get("req") == "sim+quit":
        return "a re-entered integrate() would see the removal at a different call boundary"
    if req == "sim+shot" and v.get("cb") in ("hb", "force", "hbmod"):
        return "the screenshot scenario installs its own heartbeat"
    if req == "sim+shot" and v.get("calls") == "bursts":
        return "screenshot counts are planned per call"
    if v.get("opt") == "units" and v.get("sign") == "-":
        return "units scenario calibrated for dt>0"
    if v.get("sa") == 1 and v.get("req") == "sim+quit":
        return "archive bookkeeping differs when integrate() is re-entered"
    return None


def all_pairs(factors):
    tot, exc = [], []
    names = list(factors)
    for x, f in enumerate(names):
        for g in names[x + 1:]:
            for a in factors[f]:
                for b in factors[g]:
                    r = excluded(f, a, g, b)
                    (exc if r else tot).append((f, a, g, b))
    return tot, exc


def row_pairs(row):
    names = list(row)
    return {(f, row[f], g, row[g]) for x, f in enumerate(names) for g in names[x + 1:]}


def row_valid(row):
    names = list(row)
    return all(excluded(f, row[f], g, row[g]) is None for x, f in enumerate(names) for g in names[x + 1:])


def covering_array(factors, seed, ncand=60, triples=None):
    """greedy all-pairs: repeatedly take, from random valid candidates, the row covering most uncovered pairs"""
    rng = SplitMix(seed)
    need, _ = all_pairs(factors)
    need = set(need)
    rows = []

    names = list(factors)

    def rand_row(fixed=None):
        """constraint-guided: factor by factor, a random value compatible with what is already chosen"""
        for _ in range(30):
            row = dict(fixed or {})
            order = [f for f in names if f not in row]
            rng.shuffle(order)
            ok = True
            for f in order:
                vals = [a for a in factors[f] if all(excluded(f, a, g, b) is None and excluded(g, b, f, a) is None for g, b in row.items())]
                if not vals:
                    ok = False
                    break
                row[f] = rng.choice(vals)
            if ok:
                return {f: row[f] for f in names}
        return None
    guard = 0
    while need and guard < 400:
        guard += 1
        best, bestn = None, 0
        # seed the candidate with one still-uncovered pair so that rare pairs get in
        pf, pa, pg, pb = sorted(need)[rng.next() % len(need)]
        for _ in range(ncand):
            row = rand_row({pf: pa, pg: pb})
            if row is None or not row_valid(row):
                continue
            n = len(row_pairs(row) & need)
            if n > bestn:
                best, bestn = row, n
        if best is None:
            need.discard((pf, pa, pg, pb))       # no valid row contains it (a hidden 3-way conflict): reported as uncoverable
            rows.append({"_uncoverable": (pf, pa, pg, pb)})
            continue
        need -= row_pairs(best)
        rows.append(best)
    if triples:
        # 3-way for the factors closest to the mechanism
        f1, f2, f3 = triples
        have = {(r[f1], r[f2], r[f3]) for r in rows if "_uncoverable" not in r}
        for a in factors[f1]:
            for b in factors[f2]:
                for c_ in factors[f3]:
                    if (a, b, c_) in have:
                        continue
                    if excluded(f1, a, f2, b) or excluded(f1, a, f3, c_) or excluded(f2, b, f3, c_):
                        continue
                    row = rand_row({f1: a, f2: b, f3: c_})
                    if row is not None and row_valid(row):
                        rows.append(row)
                        have.add((a, b, c_))
    return rows


def cached_array(name, factors, seed, triples=None):
    """the arrays are deterministic: keep them in corpus/C19/ keyed by the factor definitions and the exclusion rules"""
    import inspect
    key = hashlib.sha1((json.dumps(factors, sort_keys=True) + inspect.getsource(excluded) + inspect.getsource(covering_array)
                        + repr((seed, triples))).encode()).hexdigest()[:16]
    fn = os.path.join(ROOT, "corpus", "C19", "array_%s_%s.json" % (name, key))
    if os.path.exists(fn):
        try:
            return json.load(open(fn))
        except Exception:
            pass
    rows = covering_array(factors, seed, triples=triples)
    rows = [r if "_uncoverable" not in r else {"_uncoverable": list(r["_uncoverable"])} for r in rows]
    os.makedirs(os.path.dirname(fn), exist_ok=True)
    tmp = fn + ".%d.tmp" % os.getpid()
    json.dump(rows, open(tmp, "w"))
    os.replace(tmp, fn)
    return rows


def build_spec(rng, row, parallel=False):
    """a covering-array row -> (spec, job parameters)"""
    tab = {"ias15": (40, 0.02, 7.8), "whfast": (160, 0.03, 3.3), "saba": (110, 0.03, 0.96), "eos": (110, 0.02, 3.0),
           "mercurius": (90, 0.03, 1.2), "trace": (70, 0.03, 3.0), "bs": (30, 0.05, 40.0), "janus": (140, 0.01, 0.32),
           "leapfrog": (170, 0.01, 1.5), "sei": (200, 0.01, 1.3)}
    integ = row["integ"]
    N, dt, span = tab[integ]
    cfg = row["config"]
    sp = dict(integ=integ, seed=rng.randint(1, 10 ** 6), eft=row["eft"], safe=row["safe"])
    if parallel:
        N = {"ias15": 8, "whfast": 40, "saba": 30, "eos": 30, "mercurius": 25, "trace": 20, "bs": 5, "janus": 30, "leapfrog": 40, "sei": 300}[integ] + rng.randint(0, 6)
        span = dt * rng.randint(20, 60)
    else:
        N = max(6, N // 2)
    if cfg in _VARK:
        sp["var"] = _VARK[cfg]
        N = min(N, {"ias15": 20, "whfast": 60, "bs": 12, "leapfrog": 60, "eos": 50}.get(integ, 20)) if not parallel else N
        if rng.chance(0.3) and integ in TESTP_OK:
            sp["testp"], sp["tpt"] = rng.randint(1, 2), rng.choice([0, 1])
    elif cfg in ("tp0", "tp1"):
        sp["testp"], sp["tpt"] = rng.randint(1, 3), 0 if cfg == "tp0" else 1
    elif cfg == "single":
        sp["role"], sp["tpt"] = "single-active", rng.choice([0, 1])
    elif cfg == "zmass":
        sp["role"] = "zero-mass-active"
    elif cfg == "enc":
        sp["enc"] = 1
        N, dt = 7 + rng.randint(0, 2), 0.03
        sp["testp"], sp["tpt"] = 2, 0
        span = 0.03 * (900 if not parallel else 150)
    elif cfg in ("coll", "tree"):
        sp["coll"] = "direct" if cfg == "coll" else rng.choice(["tree", "tree-gravity"])
        N, dt = 40 + rng.randint(0, 20), 0.01
        span = 0.01 * (120 if not parallel else 100)
    if row.get("cb") == "force":
        sp["force"] = 1
        N = min(N, 9)
    if row.get("cb") == "hbmod":
        sp["hbmod"] = 1
    opt = row.get("opt", "none")
    o = {}
    if opt == "G":
        o["G"] = rng.choice([0.7, 1.3])
    elif opt == "softening":
        o["softening"] = rng.choice([1e-3, 1e-2])
    elif opt == "units":
        sp["units"] = 1
        dt, span = dt / 6.283, span / 6.283
    elif opt == "specific":
        if integ == "whfast":
            k = rng.choice(["coordinates", "kernel", "corrector", "keep"])
            if k == "coordinates":
                o["coordinates"] = rng.choice(["democraticheliocentric", "whds", "barycentric"])
            elif k == "kernel" and not sp.get("var"):
                o["kernel"] = rng.choice(["modifiedkick", "composition", "lazy"])
            elif k == "keep" and row["safe"] == 0:
                o["keep_unsynchronized"] = 1
            else:
                o["corrector"] = rng.choice([3, 5, 7, 11, 17])
        elif integ == "ias15":
            o.update(epsilon=rng.choice([1e-7, 1e-10]), adaptive_mode=rng.choice([0, 1, 2]), min_dt=1e-4)
        elif integ == "bs":
            o.update(eps=rng.choice([1e-6, 1e-10]), max_dt=0.4)
        elif integ in ("mercurius", "trace"):
            o["r_crit_hill"] = rng.choice([2.0, 4.0])
        elif integ == "janus":
            o.update(scale_pos=1e-16, scale_vel=1e-15)
    if o:
        sp["opt"] = o
    if sp.get("var") and "coordinates" in o:
        del o["coordinates"]            # WHFast variational equations exist only in Jacobi coordinates
    sp["N"], sp["dt"] = N, dt
    # call pattern
    if parallel:
        n1, n2 = rng.randint(20, 60), rng.randint(20, 60)
        k_ = 3 if sp.get("enc") else (2 if sp.get("coll") else 1)
        sp["tmax"] = [dt * (n1 * k_ + 0.3), dt * ((n1 + n2) * k_ + 0.7)]
    else:
        calls = row["calls"]
        t, tms = 0.0, []
        if calls == "one":
            tms = [span * 3.1]
        elif calls == "several":
            for k in range(rng.randint(3, 5)):
                t += dt * (int(span / dt * rng.uniform(0.6, 1.4)) + rng.uniform(0.15, 0.85))
                tms.append(t)
        else:
            for k in range(rng.randint(20, 32)):
                t += (dt * (rng.randint(2, 5) + rng.uniform(0.1, 0.9))) if integ not in ("ias15", "bs") else span * rng.uniform(0.03, 0.09)
                tms.append(t)
        sp["tmax"] = tms
    if row["sign"] == "-":
        sp["dt"] = -abs(sp["dt"])
        sp["tmax"] = [-abs(t) for t in sp["tmax"]]
    if row.get("sa"):
        sp["sa"] = rng.randint(7, 23)
    # user edits
    ed = row.get("edit", "none")
    if ed != "none":
        ncalls = len(sp["tmax"])
        ks = list(range(ncalls if not parallel else 1))
        if not parallel and row.get("life") == "paused":
            ks = [-1] + ks
        ks = ks[:6]
        edits = []
        nreal = sp["N"] + (1 if (parallel and row.get("rng") == "seeded-draws" and integ != "janus") else 0)
        for k in ks:
            kind = ed
            if kind == "remove":
                if k == -1 or nreal <= 5:
                    kind = "m"
                else:
                    nreal -= 1
                    edits.append([k, "remove", rng.randint(1, 3), nreal])      # val = number of real particles afterwards
                    continue
            if kind == "opt":
                kind = "corrector" if (integ == "whfast" and not sp.get("opt", {}).get("coordinates") and not sp.get("opt", {}).get("kernel")) else ("epsilon" if integ == "ias15" else "softening")
            if kind == "dt" and k == -1:
                kind = "m"
            val = {"m": rng.uniform(1e-6, 5e-5), "vx": rng.uniform(-0.2, 0.2), "dt": sp["dt"] * rng.uniform(0.7, 1.3),
                   "softening": rng.uniform(1e-4, 1e-2), "corrector": rng.choice([3, 5, 7]), "epsilon": rng.choice([1e-8, 1e-10])}[kind]
            edits.append([k, kind, rng.randint(1, min(3, max(1, sp["N"] - sp.get("testp", 0) - 1))), val])
        sp["edits"] = edits
    jp = dict(max_bodies=12, client_sleep_ms=5.0, delay_prob=30, delay_max_us=1200)
    if parallel:
        sp["rngp"] = 1 if row.get("rng") == "seeded-draws" else 0
        return sp, jp
    if row.get("cb") == "hb":
        jp["hb"] = True
    life, req = row["life"], row["req"]
    if life == "paused":
        jp.update(start="paused", start_delay_ms=rng.uniform(3, 20), linger_ms=5)
    elif life == "during":
        jp.update(start="during", start_delay_ms=rng.uniform(2, 40), linger_ms=5)
    elif life == "restart":
        jp.update(restart=True, client_sleep_ms=1.0, max_bodies=16)
    if req == "sim+kbd":
        jp["keyboard"] = {"rounds": 3}
    elif req == "sim+quit":
        jp["keyboard"] = {"rounds": 3, "quit": True}
    elif req == "sim+routes":
        jp["routes"] = True          # filled in with the routes extracted from server.c
    elif req == "sim+shot":
        jp["shots"] = sorted({rng.randint(3, 25) for _ in range(3)})
    sp["row"] = {k: v for k, v in row.items()}
    return sp, jp


def extract_entry_points(src):
    """DLLEXPORT functions (rebound.h) whose bodies — or a static function they call — touch server_data / the interrupt flag /
    start or stop the server"""
    hdr = open(os.path.join(src, "rebound.h")).read()
    exported = set(re.findall(r"DLLEXPORT[^;(]*?\b(reb_\w+)\s*\(", hdr))
    bodies = {}
    for f in ("rebound.c", "output.c", "server.c"):
        txt = open(os.path.join(src, f)).read()
        for m in re.finditer(r"^(?:static\s+)?[A-Za-z_][\w\s\*]*?\b(reb_\w+)\s*\([^;{]*\)\s*\{", txt, flags=re.M):
            i = m.end()
            depth = 1
            while i < len(txt) and depth:
                depth += txt[i] == "{"
                depth -= txt[i] == "}"
                i += 1
            bodies[m.group(1)] = txt[m.end():i]
    toks = ("server_data", "reb_sigint", "reb_simulation_stop_server", "reb_simulation_start_server")
    touch = {f for f, b in bodies.items() if any(t in b for t in toks)}
    for _ in range(2):                       # callers of (static) functions that touch it
        touch |= {f for f, b in bodies.items() if any(re.search(r"\b%s\b" % g, b) for g in touch if g != f)}
    return sorted((touch & exported) - {"reb_simulation_integrate_raw"})


def extract_routes(src):
    """the routes and keys of the POSIX branch of reb_server_start, from the source: [(name, method, path, body)]"""
    txt = open(os.path.join(src, "server.c")).read()
    posix = txt[:txt.index("#else // _WIN32", txt.index("reb_server_start"))] if "#else // _WIN32" in txt[txt.index("reb_server_start"):] else txt
    uris = sorted(set(re.findall(r'str(?:n)?casecmp\(uri,\s*"([^"]+)"', posix)))
    keys = sorted(set(re.findall(r"case\s+('.'|\d+)\s*:", posix[posix.index("/keyboard/"):posix.index("/favicon.ico")])))
    methods = sorted(set(re.findall(r'strcasecmp\(method,\s*"([A-Z]+)"', posix)))
    routes = []
    for u_ in uris:
        if u_ == "/simulation":
            continue                                    # the client thread's business
        if u_ == "/keyboard/":
            for k in keys:
                if k in ("'Q'", "' '"):
                    continue                            # quit / pause: the keyboard scenarios (they change the run)
                code = ord(k[1]) if k.startswith("'") else int(k)
                routes.append(("key %s" % k, "GET", "/keyboard/%d" % code, None))
            routes.append(("key unknown", "GET", "/keyboard/77", None))
        elif u_ == "/screenshot":
            routes.append(("/screenshot unexpected", "POST", "/screenshot", "data:image/png;base64,AAAA\0"))
            routes.append(("/screenshot empty", "POST", "/screenshot", None))
        else:
            routes.append((u_, "GET", u_, None))
    routes.append(("unsupported uri", "GET", "/no/such/page", None))
    routes.append(("unsupported method", "PUT", "/simulation", None))
    if "POST" in methods:
        routes.append(("POST /simulation", "POST", "/simulation", None))
    table = {"uris": uris, "keys": keys, "methods": methods}
    return routes, table


def scenarios(c, nset=0):
    """server scenarios: (tag, spec, job parameters).  Covering-array rows (quick: the slice VERIF_SEED selects plus one row per
    factor value still missing; thorough: the whole array and all triples of life x req x edit) + the special scenarios"""
    rng = c.rng.fork()
    S = []
    rows = cached_array("server", S_FACTORS, 20260930 + nset, triples=("life", "req", "edit") if c.thorough else None)
    unc = [r["_uncoverable"] for r in rows if "_uncoverable" in r]
    rows = [r for r in rows if "_uncoverable" not in r]
    c.cov.setdefault("pairs_uncoverable", [])
    c.cov["pairs_uncoverable"] += [list(u) for u in unc if list(u) not in c.cov["pairs_uncoverable"]]
    if not c.thorough:
        nsl = 5
        sel = [r for i, r in enumerate(rows) if i % nsl == (c.seed + nset) % nsl]
        have = {(f, r[f]) for r in sel for f in r}
        for r in rows:                                   # every value of every factor at least once per run
            miss = [(f, r[f]) for f in r if (f, r[f]) not in have]
            if miss:
                sel.append(r)
                have |= {(f, r[f]) for f in r}
        rows = sel
    for r in rows:
        sp, jp = build_spec(rng, r)
        S.append(("array", sp, jp))
    # ---- special scenarios (sizes / timings the array does not vary)
    sp = dict(integ="whfast", N=1200 if not c.thorough else 2500, dt=0.01, seed=rng.randint(1, 10 ** 6), safe=0, mp=1e-9,
              tmax=[0.01 * (3 * (k + 1) + 0.5) for k in range(10)])
    S.append(("unsynchronised", sp, dict(max_bodies=16, client_sleep_ms=1.0, delay_prob=0, delay_max_us=0)))
    sp = dict(integ="whfast", N=2000, dt=0.01, seed=rng.randint(1, 10 ** 6), mp=1e-9, tmax=[0.045, 0.085])
    S.append(("late-start-mid-step", sp, dict(max_bodies=6, client_sleep_ms=2.0, delay_prob=0, delay_max_us=0, start="during",
                                              start_delay_ms=rng.uniform(40, 110), linger_ms=5)))
    ms = list(INTEGS)
    rng.shuffle(ms)
    specs = []
    for i in ms[:(5 if c.thorough else 3)]:
        row = dict(integ=i, calls="several", life="before", req="sim", edit="none", config="plain", eft=rng.choice([0, 1]), safe=1,
                   sign="+", cb="none", sa=0, opt="none")
        specs.append(build_spec(rng, row)[0])
    S.append(("multi-server", specs[0], dict(max_bodies=8, client_sleep_ms=5.0, delay_prob=30, delay_max_us=1200, specs=specs)))
    sp = dict(integ="leapfrog", N=50, dt=0.01, seed=rng.randint(1, 10 ** 6), tmax=[0.205, 0.417])
    S.append(("no-requests", sp, dict(max_bodies=0, client_sleep_ms=1.0, delay_prob=0, delay_max_us=0, smokes=True)))
    return S


ROUTES = {"list": [], "table": {}}


def one_scenario(d, exe, shim, offs, ptime, deadline, si, nS, tag, sp, jp, seed, mrng, log):
    """run + validate + analyse one server scenario; touches no shared state (several run concurrently).
    -> dict(rec=Rec with the violations/counts/samples, not_ex, stats, dims, evhist, overlap, verdict, meta, mutants, racy, cov)"""
    R = Rec()
    L = dict(rec=R, not_ex=[], stats={}, dims={}, evhist={}, overlap=0, verdict=None, meta=None, mutants=[], racy=False, cov={})
    what = "%d/%d %s %s N=%d%s" % (si + 1, nS, tag, sp["integ"], sp["N"], (" +" + ",".join(sp["folded"])) if sp.get("folded") else "")
    if time.time() > deadline:
        L["not_ex"].append({"phase": "server scenario " + what, "reason": "time budget of the tier used up"})
        return L
    log("scenario", what)
    jp = dict(jp)
    if jp.get("routes") is True:
        jp["routes"] = ROUTES["list"]
    job = dict(spec=sp, offs=offs, delay_seed=seed, server=True, **jp)
    st, res, tail = run_phase(None, d, "--worker", job, shim=shim, timeout=ptime, what=what)
    if st == "died":
        # the process was killed by a signal on both attempts: a reproducible crash is a failing input
        R.violation("crash-while-serving", "process died (rc=%s) twice while integrating %s with the server answering /simulation"
                    % (res.get("rc"), sp["integ"]), dict(spec=sp, scenario=tag, stderr=tail[-600:]))
        return L
    if st != "ok":
        L["not_ex"].append({"phase": "server scenario " + what, "reason": "%s: %s" % (st, res.get("infra") or tail[-300:])})
        return L
    if res.get("errors"):
        L["not_ex"].append({"phase": "server scenario " + what, "reason": "HTTP client error: %s" % res["errors"][:2]})
        return L

    def analyse(sp_u, run_out, racy, label):
        ajob = dict(spec=sp_u, tag=tag, racy=list(racy) if racy else None, run_out=run_out, offs=offs)
        st_, ares, tail_ = run_phase(None, d, "--analyse", ajob, timeout=ptime, what=label)
        if st_ != "ok":
            L["not_ex"].append({"phase": "analysis of the served bodies of " + label, "reason": "%s: %s" % (st_, tail_[-300:])})
            return
        R.events += ares.get("events", [])
        for k, v in ares.get("stats", {}).items():
            L["stats"][k] = L["stats"].get(k, 0) + v
        for dn in dims_of(tag, sp_u, jp):
            L["dims"][dn] = L["dims"].get(dn, 0) + 1
        for k, v in ares.get("cov", {}).items():
            L["cov"].setdefault(k, [])
            L["cov"][k] += v
    units = jp.get("specs")
    if units:
        # no trace (several simulations in one process: the shim follows one): search only
        for ui, sp_u in enumerate(units or [sp]):
            analyse(sp_u, os.path.join(res["out"], "u%d" % ui) if units else res["out"], None, what + " unit %d" % ui)
        R.count(("no-trace", tag, sp["integ"]))
        return L
    cnt = res.get("counts", {})
    if cnt.get("iStepBegin", 0) != res["steps_done"] or (cnt.get("sSerBegin", 0) == 0 and cnt.get("sSent", 0) == 0 and res["nbodies"] > 0) or \
            cnt.get("iChkBegin", 0) == 0 or (cnt.get("iLock", 0) == 0 and cnt.get("sLock", 0) == 0 and res["nbodies"] > 0):
        # the shim did not see the library's calls (PLT interposition ineffective): cannot validate
        raise Infra("shim blind in %s: counts %s steps_done %d bodies %d" % (what, cnt, res["steps_done"], res["nbodies"]))
    toks = open(os.path.join(res["out"], "trace.txt")).read().split()
    for t in toks:
        L["evhist"][t.split(":")[0]] = L["evhist"].get(t.split(":")[0], 0) + 1
    # how many serialisations overlapped an unlocked write of r (F18 window) in this trace?
    inser = inadj = hit = False
    for t in toks:
        t = t.split(":")[0]
        if t == "sSerBegin":
            inser, hit = True, inadj
        elif t == "sSerEnd":
            L["overlap"] += 1 if hit else 0
            inser = hit = False
        elif t in ("iChkSync", "iEpiSync", "iEnter"):
            inadj = True
            hit = hit or inser
        elif t in ("iChkBegin", "iChkEnd1", "iChkEnd0", "iLeave"):
            inadj = False
    verdict = run_driver(exe, ["A tr%d " % si + " ".join(toks)], timeout=60)
    if len(verdict) != 1:
        raise Infra("drv_c19 gave no verdict")
    f = verdict[0].split()
    racy = None
    if len(f) >= 10 and f[1] == "ACCEPT":
        n0 = 0
        for t in toks:
            if t == "xStart":
                break
            n0 += t == "iStepEnd"
        racy = (f[8], n0)
        L["racy"] = f[8] != "clean"
    L["verdict"] = verdict[0]
    L["meta"] = (tag, sp, res, len(toks))
    if res["nbodies"] > cnt.get("sSerEnd", 0):
        L["broken"] = ("the client received %d /simulation bodies but reb_simulation_save_to_stream ran only %d times on the server thread "
                       "(%s, %s): a response was sent without a serialisation under the mutex" % (res["nbodies"], cnt.get("sSerEnd", 0), tag, sp["integ"]))
    if res.get("double_close", 0) > 0 or res.get("client_ebadf", 0) > 0:
        L["stats"]["server_double_close_calls"] = res.get("double_close", 0)
        L["stats"]["client_requests_hit_by_EBADF"] = res.get("client_ebadf", 0)
        R.violation(F20, "reb_server_start closes every connection descriptor twice (fclose(stream); close(childfd)): %d times in this run; "
                    "the second close() closes whatever descriptor another thread opened in between (%d client sockets lost here)"
                    % (res.get("double_close", 0), res.get("client_ebadf", 0)), dict(spec=sp, scenario=tag))
    L["stats"]["during_integration"] = res.get("bodies_during_integration", 0)
    if res.get("heartbeat_calls") is not None:
        L["stats"]["heartbeat_callback_calls"] = res["heartbeat_calls"]
    if jp.get("keyboard"):
        L["stats"]["integrate_calls_in_keyboard_scenarios"] = res.get("integrate_calls", 0)
    if jp.get("restart"):
        L["stats"]["stop_server_cycles"] = res.get("stop_cycles", 0)
    R.count(("trace", tag, sp["integ"]), nontrivial=res["nbodies"] > 0)
    if racy is not None and racy[0] == "clean":
        for name, mt in mutants(toks, mrng):
            L["mutants"].append(("A mu%d_%s " % (si, name) + " ".join(mt), (si, name)))
    if si < 3:
        R.sample({"scenario": tag, "integrator": sp["integ"], "N": sp["N"], "events": len(toks), "bodies": res["nbodies"],
                  "steps": res["steps_done"], "trace_head": " ".join(toks[:40])})
    L["routes_done"] = res.get("routes_done", {})
    L["route_replies"] = res.get("route_replies", {})
    if jp.get("shots"):
        L["stats"]["screenshots_requested"] = len(jp["shots"])
        L["stats"]["screenshots_delivered_intact"] = res.get("shots_ok", 0)
        if res.get("shots_ok", 0) < 1 and cnt.get("iShotUnlock", 0) > 0:
            R.violation("screenshot-not-delivered", "reb_simulation_output_screenshot released the mutex %d times but no screenshot file with the "
                        "bytes the browser sent was written (%s)" % (cnt.get("iShotUnlock", 0), sp["integ"]), dict(spec=sp, scenario=tag))
    L["entry"] = res.get("entry", [])
    for nm_, key_ in (("sigint_smoke", "global-interrupt-flag"), ("free_smoke", "free-with-running-server")):
        if nm_ in res and not res[nm_].get("ok"):
            R.violation(key_, "%s failed: %s" % (nm_, json.dumps(res[nm_])[:300]), dict(scenario=tag, detail=res[nm_]))
        if nm_ in res:
            L["stats"][nm_ + "_runs"] = 1
    # search (ii) on the bodies of this scenario, in its own process
    n_before = len(L["not_ex"])
    analyse(sp, res["out"], racy, what)
    if len(L["not_ex"]) == n_before and sp.get("row"):
        L["row"] = sp["row"]
    return L


def server_part(c, d, exe, shim, offs, boost, deadline):
    stats = {k: 0 for k in STAT_KEYS}
    ROUTES["list"], ROUTES["table"] = extract_routes(os.path.join(d, "src"))
    c.cov["server_routes_extracted"] = ROUTES["table"]
    S = scenarios(c)
    for j in range((2 if boost else 0) + (7 if c.thorough else 0)):
        S = S + scenarios(c, nset=j + 1)
    verdicts, metas = [], []
    nracy = 0
    mutlines, mutmeta = [], []
    evhist = {}
    overlap = 0
    ntr = 0
    not_ex = c.cov.setdefault("not_exercised", [])
    ptime = 150 if c.thorough else 75
    planned = c.cov.setdefault("dimensions_planned", {})
    dims = c.cov.setdefault("dimensions", {})
    for tag, sp, jp in S:
        for sp_ in (jp.get("specs") or [sp]):
            for dn in dims_of(tag, sp_, jp):
                planned[dn] = planned.get(dn, 0) + 1
    # independent processes: a few scenarios at a time (results are merged in the order of the plan)
    seeds = [(c.rng.randint(1, 2 ** 31), c.rng.fork()) for _ in S]
    width = max(1, min(3, (os.cpu_count() or 2) // 2, len(os.sched_getaffinity(0))))
    c.cov["scenarios_run_concurrently"] = width
    with ThreadPoolExecutor(width) as ex:
        futs = [ex.submit(one_scenario, d, exe, shim, offs, ptime, deadline, si, len(S), tag, sp, jp, seeds[si][0], seeds[si][1], c.log)
                for si, (tag, sp, jp) in enumerate(S)]
        results = [f.result() for f in futs]
    rows_done = c.cov.setdefault("_rows_server", [])
    routes_done, route_replies, entry = {}, {}, set()
    for L in results:
        if L.get("row"):
            rows_done.append(L["row"])
        for k_, v_ in L.get("routes_done", {}).items():
            routes_done[k_] = routes_done.get(k_, 0) + v_
        route_replies.update(L.get("route_replies", {}))
        entry |= set(L.get("entry", []))
        not_ex += L["not_ex"]
        replay_events(c, L["rec"].events)
        for k, v in L["stats"].items():
            stats[k] = stats.get(k, 0) + v
        for k, v in L["dims"].items():
            dims[k] = dims.get(k, 0) + v
        for k, v in L["evhist"].items():
            evhist[k] = evhist.get(k, 0) + v
        for k, v in L["cov"].items():
            c.cov.setdefault(k, [])
            c.cov[k] += v
        overlap += L["overlap"]
        if L.get("broken"):
            c.corr_break(L["broken"])
        nracy += 1 if L["racy"] else 0
        if L["verdict"] is not None:
            verdicts.append(L["verdict"])
            metas.append(L["meta"])
            ntr += 1
        for line, mm in L["mutants"]:
            mutlines.append(line)
            mutmeta.append(mm)
    got = verdicts + (run_driver(exe, mutlines, timeout=120) if mutlines else [])
    lines = verdicts
    if len(got) != len(lines) + len(mutlines):
        raise Infra("drv_c19 returned %d lines for %d" % (len(got), len(lines) + len(mutlines)))
    accepted = 0
    rejected = []
    for g, (tag, sp, res, n) in zip(got, metas):
        f = g.split()
        if len(f) >= 5 and f[1] == "ACCEPT":
            accepted += 1
            if int(f[2]) != res["steps_done"] or int(f[4]) != res["counts"]["sSerEnd"]:
                c.corr_break("model accepted the trace of %s/%s but ends with steps=%s served=%s, the run did %d steps and %d serialisations"
                             % (tag, sp["integ"], f[2], f[4], res["steps_done"], res["counts"]["sSerEnd"]))
        else:
            rejected.append((g, tag, sp))
    mut_rej = sum(1 for g in got[len(lines):] if " REJECT " in g)
    c.cov["traces_validated_against_impl"] = accepted
    c.cov["traces_total"] = ntr
    c.cov["scenarios_planned"] = len(S)
    c.cov["trace_events_total"] = sum(m[3] for m in metas)
    c.cov["trace_event_histogram"] = evhist
    c.cov["trace_mutants_rejected"] = "%d/%d" % (mut_rej, len(mutlines))
    c.cov["serialisations_overlapping_unlocked_write_in_traces"] = overlap
    c.cov["traces_with_server_started_inside_an_unlocked_iteration"] = nracy
    c.cov["traces_by_scenario"] = {}
    for tag, sp, res, n in metas:
        c.cov["traces_by_scenario"][tag] = c.cov["traces_by_scenario"].get(tag, 0) + 1
    c.cov["served_bodies"] = stats
    c.cov["server_routes_exercised"] = routes_done
    c.cov["server_route_replies"] = route_replies
    c.cov["_entry_exercised"] = sorted(entry)
    missing_routes = [r_[0] for r_ in ROUTES["list"] if routes_done.get(r_[0], 0) == 0]
    if len(ROUTES["list"]) < 10:
        c.corr_break("route extraction from server.c found only %d routes" % len(ROUTES["list"]))
    planned_routes = any(jp.get("routes") for tag, sp, jp in S)
    if missing_routes and planned_routes and not any("routes" in str(x.get("phase", "")) for x in not_ex):
        if any(routes_done.values()):
            c.corr_break("routes of reb_server_start never requested in this run: %s" % missing_routes)
    for g, tag, sp in rejected[1:8]:
        c.log("also rejected:", g, tag, json.dumps(sp.get("row")), "edits" if sp.get("edits") else "")
    for g, tag, sp in rejected[:1]:
        c.corr_break("a lock/step/serialise trace logged from the real library (%s, %s) is not an execution of the protocol model: %s"
                     % (tag, sp["integ"], g), {"verdict": g, "spec": sp, "scenario": tag})
    if mut_rej != len(mutlines):
        bad = [m for g, m in zip(got[len(lines):], mutmeta) if " REJECT " not in g]
        c.corr_break("acceptor accepted %d corrupted traces (%s): it does not discriminate" % (len(bad), bad[:3]))
    return stats, rejected


# ---------------------------------------------------------------------------- search (i): parallel vs sequential
def par_reps(c, k, nreps):
    """the parallel task sets from the covering array of P_FACTORS: mixed repetitions take the `mixed` rows in turn, a
    same-type repetition takes the rows of one integrator (re-seeded to fill the k slots).  quick: the same-type repetitions
    rotate over the integrators with VERIF_SEED"""
    rng = c.rng.fork()
    rows = [r for r in cached_array("parallel", P_FACTORS, 777) if "_uncoverable" not in r]
    mixed = [r for r in rows if r["mix"] == "mixed"]
    same = {}
    for r in rows:
        if r["mix"] == "same-type":
            same.setdefault(r["integ"], []).append(r)
    reps = []
    nm = max(1, min(nreps // 2, (len(mixed) + k - 1) // k)) if not c.thorough else max(nreps // 2, (len(mixed) + k - 1) // k)
    for j in range(nm):
        chunk = [mixed[(j * k + i) % len(mixed)] for i in range(k)]
        reps.append((None, chunk))
    integs = sorted(same)
    ns = nreps - nm if not c.thorough else max(nreps - nm, len(integs))
    for j in range(ns):
        integ = integs[(c.seed + j) % len(integs)]
        chunk = [same[integ][i % len(same[integ])] for i in range(k)]
        reps.append((integ, chunk))
    out = []
    for same_, chunk in reps:
        specs = []
        for r in chunk:
            sp, _ = build_spec(rng, r, parallel=True)
            sp["row"] = dict(r)
            specs.append(sp)
        out.append((same_, specs))
    return out


def par_task(rebound, fmt, sp, tmpdir, ident):
    """create, advance, copy, save, load, advance all three + a twin that is never serialised:
    canonical final states of (loaded, copy, serialised original[, restored from an archive snapshot]) and the fields in which
    the serialised original differs from the never-serialised twin (must be none: serialising must not alter the trajectory)"""
    sim = make_sim(rebound, sp)
    afn = os.path.join(tmpdir, "arch_%s.bin" % ident)
    attach_archive(sim, sp, afn)
    integ_to(sim, sp, sp["tmax"][0])
    apply_edits(sim, sp, 0)                    # user edit (mass, dt, REMOVAL of a particle) between the calls, then the serialisations
    cp = sim.copy()
    install_callbacks(cp, sp)
    fn = os.path.join(tmpdir, "par_%s.bin" % ident)
    # (reb_simulation_save_to_file; Simulation.save_to_file would re-point the archive of an `sa` task to this file)
    buf = sim_bytes(rebound, sim)
    with open(fn, "wb") as f:
        f.write(buf)
    ld = rebound.Simulation(fn)
    install_callbacks(ld, sp)
    integ_to(sim, sp, sp["tmax"][1])
    integ_to(ld, sp, sp["tmax"][1])
    integ_to(cp, sp, sp["tmax"][1])
    extra = None
    if sp.get("sa"):
        # restore a snapshot from the archive written so far (another open file per thread) and continue it
        A = rebound.Simulationarchive(afn)
        k = (sp["seed"] % max(1, len(A) - 1)) if len(A) > 1 else 0
        rs = A[k]
        install_callbacks(rs, sp)
        integ_to(rs, sp, sp["tmax"][1])
        extra = fmt.canon(sim_bytes(rebound, rs), ("status",))
        del rs, A
    plain = make_sim(rebound, sp)
    attach_archive(plain, sp, afn + ".twin")
    integ_to(plain, sp, sp["tmax"][0])
    apply_edits(plain, sp, 0)
    integ_to(plain, sp, sp["tmax"][1])
    a = fmt.canon(sim_bytes(rebound, ld), ("status",))
    b = fmt.canon(sim_bytes(rebound, cp), ("status",))
    o = fmt.canon(sim_bytes(rebound, sim), ("status",))
    pl = fmt.canon(sim_bytes(rebound, plain), ("status",))
    for f_ in (fn, afn, afn + ".twin"):
        if os.path.exists(f_):
            os.remove(f_)
    del ld, cp, sim, plain
    return a, b, o, (Fmt.diff(o, pl) if o is not None and pl is not None else ["#unparsable"]), extra


def parallel_run(c, rebound, fmt, reps_specs, outdir):
    """runs in the --parallel process; c is a Rec"""
    tmpdir = tempfile.mkdtemp(prefix="par.", dir=outdir)
    k = len(reps_specs[0][1])
    reps = len(reps_specs)
    nmis = nneut = nvar = 0
    dims = {}
    rows_done = []
    overl = []
    for rep, (same, specs) in enumerate(reps_specs):
        progress("parallel repetition", rep, "of", reps, "same-type" if same else "mixed")
        seq = []
        for i, sp in enumerate(specs):
            seq.append(par_task(rebound, fmt, sp, tmpdir, "s%d_%d" % (rep, i)))
        par = [None] * k
        errs = []
        barrier = threading.Barrier(k)
        spans = [None] * k

        def runner(i):
            try:
                barrier.wait(30)
                t0 = time.time()
                par[i] = par_task(rebound, fmt, specs[i], tmpdir, "p%d_%d" % (rep, i))
                spans[i] = (t0, time.time())
            except Exception as e:
                errs.append((i, repr(e)))
        ths = [threading.Thread(target=runner, args=(i,)) for i in range(k)]
        for t in ths:
            t.start()
        for t in ths:
            t.join(120)
        if any(t.is_alive() for t in ths):
            raise Infra("parallel tasks did not finish")
        if errs:
            # an exception only in the concurrent run is itself interference
            c.violation("exception-only-when-concurrent", "task raised only when run concurrently: %s" % (errs[0][1],),
                        dict(spec=specs[errs[0][0]], rep=rep))
            continue
        # how concurrent was it: mean number of other tasks alive at a task's midpoint
        mids = [(s[0] + s[1]) / 2 for s in spans]
        overl.append(sum(sum(1 for s in spans if s[0] <= m <= s[1]) - 1 for m in mids) / float(k))
        for i, sp in enumerate(specs):
            c.count(("par", sp["integ"], rep % 2, sp.get("var"), bool(sp.get("testp")), bool(sp.get("enc")), sp.get("eft")))
            nvar += 1 if sp.get("var") else 0
            # serialising (copy + save between two integrate() calls) must not alter the serialised simulation itself
            for where, res_i in (("sequential", seq[i]), ("concurrent", par[i])):
                if res_i[3]:
                    nneut += 1
                    c.violation("serialising-alters-trajectory:" + sp["integ"],
                                "a simulation (%s%s) that was copied and saved between two integrate() calls ends in different bits than its "
                                "never-serialised twin (same calls and edits; N not changed after the serialisation): fields %s" % (sp["integ"], ", var " + sp["var"] if sp.get("var") else "", res_i[3][:6]),
                                dict(spec=sp, rep=rep, run=where, fields=res_i[3][:10]))
                    break
            if sp.get("row"):
                rows_done.append(sp["row"])
            for dn in dims_of("par", sp):
                dims[dn] = dims.get(dn, 0) + 1
            dims["histories: copy / save / load mid-run"] = dims.get("histories: copy / save / load mid-run", 0) + 1
            if sp.get("sa"):
                dims["histories: restore from an archive snapshot, in parallel threads"] = dims.get("histories: restore from an archive snapshot, in parallel threads", 0) + 1
            pairs = list(zip(seq[i][:3], par[i][:3])) + ([(seq[i][4], par[i][4])] if sp.get("sa") else [])
            for which, (x, y) in enumerate(pairs):
                if x is None or y is None:
                    raise Infra("unparsable serialisation in the parallel test")
                dd = Fmt.diff(x, y)
                if dd:
                    nmis += 1
                    c.violation("concurrent-run-differs-from-sequential:" + sp["integ"],
                                "simulation (%s) advanced concurrently with %d others ends in different bits than run alone: fields %s"
                                % (sp["integ"], k - 1, dd[:6]),
                                dict(spec=sp, rep=rep, same_type=same, which=["loaded", "copy", "serialised original", "restored from archive"][which], fields=dd[:10]))
        if rep == 0:
            c.sample({"parallel_rep": 0, "specs": [dict(integ=s["integ"], N=s["N"], dt=s["dt"]) for s in specs[:4]]})
    # default rand_seed: tools.c:48 takes gettimeofday().tv_usec + getpid() at creation — two simulations created in the same
    # microsecond get the same seed; measured, not a violation (the property is about simulations with given seeds)
    seeds = []
    clib = rebound.clibrebound
    clib.reb_simulation_create.restype = ctypes.c_void_p
    clib.reb_simulation_free.argtypes = [ctypes.c_void_p]
    off = rebound.Simulation.rand_seed.offset

    def mk():
        loc = []
        for _ in range(300):
            r_ = clib.reb_simulation_create()
            loc.append(ctypes.c_uint.from_address(r_ + off).value)
            clib.reb_simulation_free(r_)
        seeds.extend(loc)
    ths = [threading.Thread(target=mk) for _ in range(8)]
    for t in ths:
        t.start()
    for t in ths:
        t.join(30)
    return {"repetitions": reps, "simulations_per_repetition": k, "mismatches": nmis, "dimensions": dims, "rows": rows_done,
            "default_rand_seed": {"created_in_8_threads": len(seeds), "distinct": len(set(seeds))},
            "serialised_original_differs_from_never_serialised_twin": nneut, "tasks_with_variational_particles": nvar,
            "mean_overlapping_tasks": round(sum(overl) / max(1, len(overl)), 2)}


def parallel_part(c, d, offs, boost):
    k = 20
    reps = (80 if c.thorough else 6) * (4 if boost else 1)
    reps_specs = par_reps(c, k, reps)
    reps = len(reps_specs)
    c.log("parallel part: %d repetitions x %d simulations" % (reps, k))
    st, res, tail = run_phase(c, d, "--parallel", dict(reps=reps_specs, offs=offs), timeout=900 if c.thorough else 90, what="parallel")
    if st != "ok":
        # the differential runs are a mandatory part of the check
        raise Infra("parallel-vs-sequential runs did not complete (%s): %s" % (st, tail[-400:]))
    replay_events(c, res.get("events", []))
    summ = res["summary"]
    dims = c.cov.setdefault("dimensions", {})
    planned = c.cov.setdefault("dimensions_planned", {})
    c.cov.setdefault("_rows_parallel", [])
    c.cov["_rows_parallel"] += summ.pop("rows", [])
    for dn, n in summ.pop("dimensions", {}).items():
        dims[dn] = dims.get(dn, 0) + n
        planned[dn] = planned.get(dn, 0) + n
    c.cov["parallel_vs_sequential"] = summ


# ---------------------------------------------------------------------------- thorough: ThreadSanitizer
def tsan_part(c, d):
    """C harness (integration + server + client thread) against a clang -fsanitize=thread build of the library"""
    src = os.path.join(d, "src")
    td = tempfile.mkdtemp(prefix="tsan.", dir=d)
    cs = sorted(f for f in os.listdir(src) if f.endswith(".c") and f not in SKIP_C)
    flags = [f for f in CFLAGS if f != "-O3"] + ["-O1", "-g", "-fsanitize=thread", "-fno-omit-frame-pointer"]

    def comp(f):
        p = subprocess.run(["clang"] + flags + ["-c", os.path.join(src, f), "-o", os.path.join(td, f[:-2] + ".o")],
                           cwd=src, capture_output=True, text=True)
        return f, p.returncode, p.stderr
    with ThreadPoolExecutor(16) as ex:
        res = list(ex.map(comp, cs))
    bad = [r for r in res if r[1] != 0]
    if bad:
        c.cov["tsan"] = "not run: clang build failed (%s)" % bad[0][2][:200]
        return
    exe = os.path.join(td, "c19_server")
    p = subprocess.run(["clang", "-O1", "-g", "-fsanitize=thread", "-std=gnu99", "-w", "-DSERVER", "-I", src,
                        os.path.join(HARNESS, "c19_server.c")] + [os.path.join(td, f[:-2] + ".o") for f in cs] +
                       ["-lm", "-lpthread", "-o", exe], capture_output=True, text=True)
    if p.returncode != 0:
        c.cov["tsan"] = "not run: harness link failed (%s)" % p.stderr[:300]
        return
    open(os.path.join(td, "rebound.html"), "w").write("<html></html>")
    cats = {}
    unexpected = []
    allow = json.load(open(os.path.join(ROOT, "ref", "C19_globals_allow.json")))["writable_globals"]
    globals_seen = {}
    for mode in ("whfast", "whfast-unsafe", "ias15", "leapfrog", "whfast-late", "leapfrog-late", "ias15-late", "two"):
        port = free_port()
        env = dict(os.environ, TSAN_OPTIONS="halt_on_error=0 report_signal_unsafe=0 history_size=4 second_deadlock_stack=1 exitcode=0")
        try:
            q = subprocess.run([exe, mode, str(port), "40"], cwd=td, env=env, capture_output=True, text=True, timeout=150)
        except subprocess.TimeoutExpired:
            c.cov["tsan"] = "not completed: harness timed out in mode " + mode
            return
        if q.returncode != 0 and "ThreadSanitizer" not in q.stderr:
            c.cov["tsan"] = "not run: harness rc=%d %s" % (q.returncode, q.stderr[-300:])
            return
        reports = q.stderr.split("WARNING: ThreadSanitizer:")[1:]
        if "done steps=" not in q.stdout:
            raise Infra("tsan harness did not finish: %s" % q.stderr[-300:])
        for r in reports:
            # the two conflicting accesses: frames after "Write/Read of size … by …" and after "Previous …"
            stacks, cur = [], None
            for l in r.splitlines():
                ls = l.strip()
                if re.match(r"(Previous )?(atomic )?(write|read) of size", ls, flags=re.I):
                    cur = []
                    stacks.append(cur)
                elif ls.startswith("#") and cur is not None:
                    f = ls.split()
                    cur.append((f[1], f[2] if len(f) > 2 else ""))
                elif not ls:
                    cur = None
            stacks = (stacks + [[], []])[:2]
            fn = [[f for f, _ in st] for st in stacks]
            allf = fn[0] + fn[1]
            in_step = ["reb_simulation_step" in f for f in fn]
            in_ser = ["reb_simulation_save_to_stream" in f or "reb_server_start" in f for f in fn]
            in_int = ["reb_simulation_integrate_raw" in f for f in fn]
            mg = re.search(r"Location is global '([^']+)'", r)
            if mg:
                # obligation: no non-const global is written by two simulations' threads (except the allow-listed interrupt flag)
                gname = mg.group(1)
                globals_seen[gname] = globals_seen.get(gname, 0) + 1
                if gname in allow:
                    cat = "global `%s` (allow-listed): %s" % (gname, "reset by every reb_simulation_integrate / read in the force loops")
                elif gname.startswith("g_"):
                    cat = "harness variable"
                else:
                    cat = "GLOBAL `%s` shared between simulations" % gname
                    unexpected.append(r[:1500])
            elif "Location is file descriptor" in r and "client" in allf:
                cat = "F20: connection descriptor closed twice by the server thread (fclose + close), number reused by another thread"
            elif not r.lstrip().startswith("data race"):
                cat = "other: " + r.strip().splitlines()[0][:60]
                unexpected.append(r[:1500])
            elif "reb_simulation_start_server" in allf and "reb_server_start" in allf and not any(in_int):
                cat = "server start-up handshake through the plain int `ready` (server.c:280 vs 716)"
            elif "main" in [f[0] for f in fn if f] and ("reb_server_start" in allf) and not any(in_int) and not any(in_step):
                cat = "harness polling `ready` (c19_server.c) vs server.c:280"
            elif any(in_step) and any(in_ser):
                cat = "STEP vs SERIALISATION (mutual exclusion broken)"
                unexpected.append(r[:1500])
            elif "reb_simulation_start_server" in allf and any(in_int) and not any(in_step):
                cat = "r->server_data published by start_server without synchronisation, read by the running loop (rebound.c:842/868)"
            elif ("main" in [f[0] for f in fn if f]) and ("reb_check_exit" in allf or any(in_int)) and not any(in_ser) and not any(in_step):
                cat = "r->status resumed by a plain store from another thread (as the space key does, server.c:353-357)"
            elif any(in_step) and any(in_ser):
                cat = "STEP vs SERIALISATION (mutual exclusion broken)"
                unexpected.append(r[:1500])
            elif any(in_int) and any(in_ser):
                cat = "F18: unlocked write of r in reb_check_exit / prologue / epilogue vs serialisation"
            else:
                cat = "other data race"
                unexpected.append(r[:1500])
            cats[cat] = cats.get(cat, 0) + 1
        c.count(("tsan", mode))
    c.cov["tsan"] = {"reports_by_category": cats, "unexpected": len(unexpected), "races_on_globals": globals_seen}
    if unexpected:
        c.corr_break("ThreadSanitizer reports a data race outside the known categories (need_copy, F18): %s" % unexpected[0][:300],
                     {"report": unexpected[0]})


def asan_stop_part(c, d):
    """thorough: reb_simulation_stop_server while integrate() runs in another thread, under AddressSanitizer"""
    src = os.path.join(d, "src")
    td = tempfile.mkdtemp(prefix="asan.", dir=d)
    cs = sorted(f for f in os.listdir(src) if f.endswith(".c") and f not in SKIP_C)
    flags = [f for f in CFLAGS if f != "-O3"] + ["-O1", "-g", "-fsanitize=address", "-fno-omit-frame-pointer"]

    def comp(f):
        p = subprocess.run(["gcc"] + flags + ["-c", os.path.join(src, f), "-o", os.path.join(td, f[:-2] + ".o")],
                           cwd=src, capture_output=True, text=True)
        return f, p.returncode, p.stderr
    with ThreadPoolExecutor(16) as ex:
        res = list(ex.map(comp, cs))
    if [r for r in res if r[1] != 0]:
        c.cov["asan_stop"] = "not run: ASan build failed"
        return
    exe = os.path.join(td, "c19_stop")
    p = subprocess.run(["gcc", "-O1", "-g", "-fsanitize=address", "-std=gnu99", "-w", "-DSERVER", "-I", src,
                        os.path.join(HARNESS, "c19_stop.c")] + [os.path.join(td, f[:-2] + ".o") for f in cs] +
                       ["-lm", "-lpthread", "-o", exe], capture_output=True, text=True)
    if p.returncode != 0:
        c.cov["asan_stop"] = "not run: harness link failed (%s)" % p.stderr[:300]
        return
    open(os.path.join(td, "rebound.html"), "w").write("<html></html>")
    out = {"runs": 0, "use_after_free_in_integrate_loop": 0, "survived": 0, "other": 0}
    for k in range(3):
        env = dict(os.environ, ASAN_OPTIONS="use_sigaltstack=0:detect_leaks=0")
        try:
            q = subprocess.run([exe, str(free_port()), "400"], cwd=td, env=env, capture_output=True, text=True, timeout=150)
        except subprocess.TimeoutExpired:
            c.cov["asan_stop"] = "not completed: harness timed out"
            return
        out["runs"] += 1
        c.count(("asan-stop", k))
        err = q.stderr
        if "heap-use-after-free" in err and "reb_simulation_integrate_raw" in err and "reb_simulation_stop_server" in err:
            out["use_after_free_in_integrate_loop"] += 1
            line = [l for l in err.splitlines() if "SUMMARY" in l][:1]
            c.violation(F21, "AddressSanitizer: reb_simulation_stop_server freed server_data while the integration loop of another thread "
                        "still dereferenced it: %s" % (line[0][-120:] if line else ""), {"harness": "harness/c19_stop.c", "cycles": 400,
                                                                                      "report": err[:1500]})
        elif "done cycles=" in q.stdout:
            out["survived"] += 1
        else:
            out["other"] += 1
            c.corr_break("stop_server during integrate(): unexpected sanitizer report / crash: %s" % err[:400], {"report": err[:1500]})
    c.cov["asan_stop"] = out
    c.cov.setdefault("dimensions", {})["server: stop_server while integrate() runs (ASan harness)"] = out["runs"]


# ---------------------------------------------------------------------------- main
def run(c):
    # hard stop: the check never hangs.  Every phase below has its own deadline (run_phase); this is the last resort.
    # watchdog A covers the scratch build and the Lean phases (lake may have to wait for the project lock), watchdog B
    # (started after them) the runs on the real code: 205 s in the quick tier.
    where = ["start"]
    limits = {"A": 900 if c.thorough else 420, "B": 1700 if c.thorough else 205}

    def hung(which="A"):
        print("INFRA-FAILURE C19: watchdog %s: no result after %d s; last phase: %s" % (which, limits[which], where[0]), file=sys.stderr)
        sys.stderr.flush()
        _cleanup()
        os._exit(2)
    wd = threading.Timer(limits["A"], hung)
    wd.daemon = True
    wd.start()

    def phase(name):
        where[0] = name
        c.log("phase:", name)
    if os.environ.get("C19_DEBUG"):
        import faulthandler
        faulthandler.dump_traceback_later(int(os.environ["C19_DEBUG"]), exit=True)
    phase("scratch build")
    d = build()
    phase("globals tables")
    import extract_c19
    info = extract_c19.generate(d)
    c.log("globals table: %d objects, %d writable symbols, %d undefined refs, %d static mutable decls"
          % (info["objects"], len(info["writable_symbols"]), info["undefined_refs"], len(info["static_mutable"])))
    c.cov["globals_table"] = {k: info[k] for k in ("objects", "undefined_refs", "static_const", "static_mutable", "assigned",
                                                   "unallowed_globals", "unallowed_statics", "unallowed_libc")}
    c.cov["globals_table"]["writable_symbols"] = ["%s:%s" % (o, n) for o, t, n in info["writable_symbols"]]
    phase("lake build RV.Props.C19 + axiom audit")
    ok = c.prove(["RV.Props.C19"])
    table_bad = bool(info["unallowed_globals"] or info["unallowed_statics"] or info["unallowed_libc"] or info["assigned"] or info["unallowed_save_writes"])
    c.cov["serialisation_writes_to_live_simulation"] = {"assignments": info["save_writes"], "calls": info["save_calls"], "not_allowed": info["unallowed_save_writes"]}
    if table_bad:
        c.log("NEW PROCESS-GLOBAL STATE:", info["unallowed_globals"], info["unallowed_statics"], info["unallowed_libc"], info["assigned"])
    phase("lake build drv_c19")
    exe = lean_exe("drv_c19", timeout=200)
    wd.cancel()
    tB = time.time()
    wd = threading.Timer(limits["B"], hung, args=("B",))
    wd.daemon = True
    wd.start()
    phase("shim + offsets + PLT check")
    shim = compile_shim(d)
    offs = measure_offsets(d)
    missing, save_plt = check_interposable(d)
    c.cov["interposable_calls_missing"] = missing
    if missing or not save_plt:
        raise Infra("library no longer calls %s through the PLT: the shim cannot observe it" % (missing or "reb_simulation_save_to_stream"))
    c.cov["rule"] = ("server scenarios: random integrator/N/dt/number of integrate() calls, a client thread fetching /simulation at random "
                     "phases, random delays injected by the shim at every protocol point; one trace per scenario through the model acceptor "
                     "(plus corrupted copies that must be rejected); every served body re-parsed by an independent parser, located in the "
                     "reference run's table of step-boundary serialisations and continued to the end. parallel: 20 simulations (10 integrator "
                     "types, or 20 of one type) create/advance/copy/save/load/free/advance in 20 threads vs the same tasks sequentially, "
                     "bitwise. distinct_nontrivial = distinct (scenario, integrator, body slot) / (integrator, mode) with at least one request served")
    c.cov["trusted_base"] = ["Lean 4.33 kernel", "LD_PRELOAD interposition logs events in the order they took effect (log appended under one spin lock; lock after acquire, unlock before release)",
                             "abstraction of the simulation state to (steps, adjustments, phase)", "nm/readelf/gcc -E output for the globals tables",
                             "the scheduler/delays reach only some interleavings of the real code; the theorems cover all interleavings of the model",
                             "C memory model not modelled: need_copy is a plain int (sequential consistency assumed, as on x86 with the compiler's code)"]
    c.assumptions += ["only the /simulation request is modelled; /keyboard writes r->status outside the mutex (server.c:343-371), /screenshot is not exercised",
                      "`disjoint state` of the product theorem is the globals table, not a proof about the C code",
                      "served-snapshot comparisons ignore walltime*, status and the function-pointer flag"]
    boost = (not ok) or table_bad
    # mandatory part first: the differential runs of independent simulations
    phase("parallel vs sequential")
    parallel_part(c, d, offs, boost)
    c.log("parallel part:", c.cov["parallel_vs_sequential"])
    phase("server scenarios")
    stats, rejected = server_part(c, d, exe, shim, offs, boost, deadline=tB + (1250 if c.thorough else 150))
    c.log("server part: traces %s/%s accepted, bodies %s" % (c.cov["traces_validated_against_impl"], c.cov["traces_total"], stats))
    if c.thorough and time.time() - tB < 1400:
        phase("tsan")
        tsan_part(c, d)
        c.log("tsan:", c.cov.get("tsan"))
        phase("asan: stop_server during integrate")
        asan_stop_part(c, d)
        c.log("asan stop:", c.cov.get("asan_stop"))
    # ---- pairwise coverage of the scenario / task factors
    pairs = {}
    for name, factors, rows_key in (("server", S_FACTORS, "_rows_server"), ("parallel", P_FACTORS, "_rows_parallel")):
        tot, exc = all_pairs(factors)
        seen = set()
        for r in c.cov.pop(rows_key, []):
            seen |= row_pairs({f: r[f] for f in factors if f in r})
        seen &= set(tot)
        pairs[name] = {"covered": len(seen), "total": len(tot), "excluded": len(exc)}
        miss = sorted(set(tot) - seen)
        pairs[name]["uncovered_examples"] = [list(m) for m in miss[:12]]
        if c.thorough and miss and not c.cov.get("not_exercised"):
            c.broken.append("pairwise coverage (%s factors): %d of %d applicable pairs never generated, e.g. %s" % (name, len(miss), len(tot), miss[:4]))
    pairs["covered"] = pairs["server"]["covered"] + pairs["parallel"]["covered"]
    pairs["total"] = pairs["server"]["total"] + pairs["parallel"]["total"]
    pairs["excluded"] = pairs["server"]["excluded"] + pairs["parallel"]["excluded"]
    pairs["exclusion_reasons"] = sorted({excluded(*p_) for f_ in (S_FACTORS, P_FACTORS) for p_ in all_pairs(f_)[1]})
    c.cov["pairs"] = pairs
    if c.cov.get("pairs_uncoverable"):
        c.broken.append("pairs that no valid scenario contains (declare them excluded with a reason): %s" % c.cov["pairs_uncoverable"][:5])
    c.log("pairs: server %d/%d, parallel %d/%d, excluded %d" % (pairs["server"]["covered"], pairs["server"]["total"],
                                                               pairs["parallel"]["covered"], pairs["parallel"]["total"], pairs["excluded"]))
    # ---- public entry points that reach the mechanism (extracted from the header and the sources)
    ep = extract_entry_points(os.path.join(d, "src"))
    exercised = set(c.cov.pop("_entry_exercised", []))
    c.cov["entry_points"] = {"extracted": ep, "exercised": sorted(exercised & set(ep) | ({"reb_sigint"} & exercised))}
    if len(ep) < 5:
        c.broken.append("entry-point extraction found only %s" % ep)
    miss_ep = [e for e in ep if e not in exercised]
    if miss_ep and not c.cov.get("not_exercised"):
        c.broken.append("public entry points reaching server_data / the interrupt flag not exercised in this run: %s" % miss_ep)
    # cross-cutting dimensions: every applicable one must have been PLANNED by the generators (else: broken obligation);
    # planned but not evaluated can only be environmental (recorded as not exercised)
    planned = c.cov.get("dimensions_planned", {})
    dims = c.cov.get("dimensions", {})
    for dn in APPLICABLE_DIMENSIONS:
        dims.setdefault(dn, 0)
        if planned.get(dn, 0) == 0 and c.thorough:
            c.broken.append("dimension not covered: " + dn)
        elif planned.get(dn, 0) > 0 and dims[dn] == 0:
            c.cov["not_exercised"].append({"phase": "dimension " + dn, "reason": "planned %d cases, none completed" % planned[dn]})
    c.cov["dimensions"] = dict(sorted(dims.items()))
    ne = c.cov.get("not_exercised", [])
    if ne:
        # environmental: recorded, not fatal (the proofs, the tables and the differential runs above did run)
        print("[C19] NOT EXERCISED (%d): %s" % (len(ne), json.dumps(ne)[:1500]), file=sys.stderr, flush=True)
    c.cov["server_scenarios_exercised"] = c.cov.get("traces_total", 0)
    wd.cancel()


if __name__ == "__main__":
    if len(sys.argv) > 2 and sys.argv[1] in ("--worker", "--analyse", "--parallel"):
        fn = {"--worker": worker, "--analyse": analyse_main, "--parallel": parallel_main}[sys.argv[1]]
        try:
            rc = fn(sys.argv[2:])
        except BaseException as e:
            import traceback
            traceback.print_exc()
            progress("EXCEPTION", repr(e))
            rc = 4
        sys.stdout.flush()
        sys.stderr.flush()
        os._exit(rc)
    main("C19", run)
