"""C12 — coordinate transformations are mutual inverses, slot 0 is the COM.

proof:   lean/RV/Props/C12.lean (8 theorems over an arbitrary field, all N / N_active)
tie:     lean/RV/Model/Transform.lean run on IEEE doubles (drv_c12) vs every exported
         reb_particles_transform_* routine, per component, bit for bit
search:  round trip / COM / variant-agreement asserted on the real code (fsum oracle)
"""
import ctypes, json, math, os, subprocess, sys
sys.path.insert(0, os.path.dirname(os.path.abspath(__file__)))
from common import *

COMPS_POS = ["x", "y", "z"]
COMPS_VEL = ["vx", "vy", "vz"]
COMPS_ACC = ["ax", "ay", "az"]


def gen_system(rng, big=False):
    n = rng.choice([1, 1, 2, 2, 3, 3, 4, 5, 6, 8, 12, 20]) if not big else rng.randint(50, 2000)
    na = rng.randint(1, n)
    if rng.chance(0.3):
        na = n
    m0 = rng.loguniform(1e-3, 1e3)
    kind = rng.randint(0, 4)
    ms = [m0]
    for i in range(1, n):
        if kind == 0:
            m = m0 * 10 ** (-rng.uniform(0, 12))
        elif kind == 1:
            m = m0 * rng.uniform(0.1, 2.0)
        elif kind == 2:
            m = 0.0 if rng.chance(0.4) else m0 * 10 ** (-rng.uniform(0, 6))
        elif kind == 3:
            m = m0
        else:
            m = m0 * rng.choice([1e-12, 1e-6, 1e-3, 1.0, 10.0])
        ms.append(m)
    scale = rng.loguniform(1e-3, 1e3)
    comps = {}
    for c in COMPS_POS + COMPS_VEL + COMPS_ACC:
        off = rng.normal() * scale * rng.choice([0, 1, 10])
        comps[c] = [off + rng.normal() * scale for _ in range(n)]
    return n, na, ms, comps


def line(op, na, ms, xs):
    n = len(ms)
    toks = [op, str(na - 1), str(n - na), d2h(ms[0]), d2h(xs[0])]
    for i in range(1, na):
        toks += [d2h(ms[i]), d2h(xs[i])]
    for i in range(na, n):
        toks.append(d2h(xs[i]))
    return " ".join(toks)


def run(c):
    d = build()
    rebound = use_scratch_rebound(d)
    P = rebound.Particle
    clib = rebound.clibrebound
    ok = c.prove(["RV.Props.C12", "RV.Props.C12Frame"])
    exe = lean_exe("drv_c12")
    ncases = 4000 if c.thorough else 400
    c.cov["rule"] = ("random particle sets (N 1..20, a tenth N 50..2000; N_active 1..N; 5 mass families incl. zero masses and "
                     "ratios to 1e-12; offsets up to 10x the scale); every exported reb_particles_transform_* routine and the in-place DH maps of MERCURIUS and TRACE are run and each "
                     "component it writes is compared bitwise with the Lean Float model; distinct_nontrivial = distinct (routine, N, N_active, mass family) "
                     "with N_active>=2")
    c.cov["trusted_base"] = ["Lean 4.33 kernel", "Mathlib field_simp/ring (kernel-checked)",
                             "correspondence drv_c12 vs compiled transformations.c on generated inputs (differential test)",
                             "ctypes Particle layout (checked by C18)"]
    c.assumptions += ["theorems are exact-arithmetic (any field); IEEE rounding of the round trip is only measured by the search",
                      "hypotheses of the theorems are exactly the divisors of the C code being non-zero"]

    def arr(n):
        return (P * n)()

    def setp(a, ms, comps, which):
        for i in range(len(ms)):
            a[i].m = ms[i]
            for k in which:
                setattr(a[i], k, comps[k][i])

    fn = lambda name: getattr(clib, "reb_particles_transform_" + name)
    lines, expect, meta = [], [], []
    worst = {}
    hist = {}

    def add(op, na, ms, xs, got, tag):
        lines.append(line(op, na, ms, xs))
        expect.append(" ".join(d2h(v) for v in got))
        meta.append(tag)

    searchfail = []
    zero_mass_cases = 0

    def fsum_com(ms, xs, na):
        M = math.fsum(ms[:na])
        return math.fsum(ms[i] * xs[i] for i in range(na)) / M, M

    for case in range(ncases):
        rng = c.rng.fork()
        n, na, ms, comps = gen_system(rng, big=(case % 10 == 9))
        zero_mass_cases += any(m == 0.0 for m in ms[1:na])
        allc = COMPS_POS + COMPS_VEL + COMPS_ACC
        src = arr(n); setp(src, ms, comps, allc)
        N, NA = ctypes.c_uint(n), ctypes.c_uint(na)
        key = (n, na)
        hist[min(n, 50)] = hist.get(min(n, 50), 0) + 1
        scale = max(1e-300, max(abs(v) for k in allc for v in comps[k]))

        def relerr(a, b):
            return abs(a - b) / scale

        # ------------------------------------------------ Jacobi forward variants
        for name, cs in (("inertial_to_jacobi_posvel", COMPS_POS + COMPS_VEL),
                         ("inertial_to_jacobi_posvelacc", allc),
                         ("inertial_to_jacobi_acc", COMPS_ACC)):
            out = arr(n)
            fn(name)(src, out, src, N, NA)
            for k in cs:
                got = [out[0].m, getattr(out[0], k)] + [getattr(out[i], k) for i in range(1, n)]
                if name == "inertial_to_jacobi_acc":
                    # the acc variant does not write the mass slot: compare coordinates only (mass token replaced)
                    lines.append(line("jacFwd", na, ms, comps[k]))
                    expect.append("* " + " ".join(d2h(v) for v in got[1:]))
                    meta.append((name, k, n, na, case))
                else:
                    add("jacFwd", na, ms, comps[k], got, (name, k, n, na, case))
            if na >= 2:
                c.count((name, n, na, case % 5))
            else:
                c.count(None, nontrivial=False)
            if name == "inertial_to_jacobi_posvel":
                jac = out
            if name == "inertial_to_jacobi_posvelacc":
                jpva = out
            if name == "inertial_to_jacobi_acc":
                for k in COMPS_ACC:      # the acc-only variant must agree with the posvelacc variant (real code vs real code)
                    e = max(abs(getattr(out[i], k) - getattr(jpva[i], k)) for i in range(n)) / scale
                    if not e <= 64 * n * 2.3e-16:
                        searchfail.append(("inertial_to_jacobi_acc disagrees with inertial_to_jacobi_posvelacc (variants disagree)", dict(n=n, na=na, ms=ms, comp=k, xs=comps[k], err=e)))
        # search: slot0 = COM (fsum oracle), round trip on the real code
        for k in COMPS_POS + COMPS_VEL:
            com, M = fsum_com(ms, comps[k], na)
            e = relerr(getattr(jac[0], k), com)
            worst["jac_com"] = max(worst.get("jac_com", 0), e)
            if not e <= 1e-9 or not abs(jac[0].m - M) <= 1e-12 * abs(M):
                searchfail.append(("jacobi slot0 is not the centre of mass", dict(n=n, na=na, ms=ms, comp=k, xs=comps[k], got=getattr(jac[0], k), want=com)))
        back = arr(n); setp(back, ms, comps, [])
        fn("jacobi_to_inertial_posvel")(back, jac, src, N, NA)
        for k in COMPS_POS + COMPS_VEL:
            e = max(relerr(getattr(back[i], k), comps[k][i]) for i in range(n))
            worst["jac_rt"] = max(worst.get("jac_rt", 0), e)
            if not e <= 1e-7:
                searchfail.append(("jacobi round trip does not return the input", dict(n=n, na=na, ms=ms, comp=k, xs=comps[k], err=e)))
        for inv, cs, srcattr in (("jacobi_to_inertial_pos", COMPS_POS, COMPS_POS), ("jacobi_to_inertial_acc", COMPS_ACC, COMPS_POS)):
            fw = arr(n)
            for i in range(n):
                fw[i].m = jac[i].m
                for kd, ks in zip(cs, srcattr):
                    setattr(fw[i], kd, getattr(jac[i], ks))
            b2 = arr(n)
            fn(inv)(b2, fw, src, N, NA)
            for kd, ks in zip(cs, srcattr):
                e = max(relerr(getattr(b2[i], kd), comps[ks][i]) for i in range(n))
                if not e <= 1e-7:
                    searchfail.append((inv + " does not invert inertial_to_jacobi (variants disagree)", dict(n=n, na=na, ms=ms, comp=ks, xs=comps[ks], err=e)))
        # ------------------------------------------------ Jacobi inverse variants (input: arbitrary jacobi set)
        pj = arr(n); setp(pj, ms, comps, allc)
        Mtot = math.fsum(ms[:na]) * (1.0 if rng.chance(0.8) else rng.uniform(0.5, 2))
        pj[0].m = Mtot
        msj = [Mtot] + ms[1:]
        for name, cs in (("jacobi_to_inertial_posvel", COMPS_POS + COMPS_VEL),
                         ("jacobi_to_inertial_pos", COMPS_POS),
                         ("jacobi_to_inertial_acc", COMPS_ACC)):
            out = arr(n)
            fn(name)(out, pj, src, N, NA)
            for k in cs:
                got = [getattr(out[i], k) for i in range(n)]
                lines.append(line("jacInv", na, msj, comps[k]))
                expect.append("* " + " ".join(d2h(v) for v in got))
                meta.append((name, k, n, na, case))
            c.count((name, n, na, case % 5), nontrivial=na >= 2)
        # ------------------------------------------------ DH / WHDS forward
        for name, velop in (("inertial_to_democraticheliocentric_posvel", "dhFwdVel"),
                            ("inertial_to_whds_posvel", "whdsFwdVel")):
            out = arr(n)
            fn(name)(src, out, N, NA)
            for k in COMPS_POS:
                add("dhFwdPos", na, ms, comps[k], [out[0].m] + [getattr(out[i], k) for i in range(n)], (name, k, n, na, case))
            for k in COMPS_VEL:
                add(velop, na, ms, comps[k], [out[0].m] + [getattr(out[i], k) for i in range(n)], (name, k, n, na, case))
            c.count((name, n, na, case % 5), nontrivial=na >= 2)
            # search: slot 0 and round trip
            for k in COMPS_POS + COMPS_VEL:
                com, M = fsum_com(ms, comps[k], na)
                e = relerr(getattr(out[0], k), com)
                worst[name[12:16] + "_com"] = max(worst.get(name[12:16] + "_com", 0), e)
                if not e <= 1e-9:
                    searchfail.append((name + ": slot0 is not the centre of mass", dict(n=n, na=na, ms=ms, comp=k, xs=comps[k], got=getattr(out[0], k), want=com)))
            back = arr(n); setp(back, ms, comps, [])
            inv = "democraticheliocentric_to_inertial_posvel" if "demo" in name else "whds_to_inertial_posvel"
            fn(inv)(back, out, N, NA)
            # heliocentric round trips are ill-conditioned when m0 << total mass; scale tolerance
            cond = max(1.0, math.fsum(abs(m) for m in ms[:na]) / abs(ms[0]))
            b2 = arr(n); setp(b2, ms, comps, [])
            fn(inv[:-3])(b2, out, N, NA)      # the position-only inverse
            for k in COMPS_POS:
                e = max(relerr(getattr(b2[i], k), comps[k][i]) for i in range(n))
                if not e <= 1e-9 * cond:
                    searchfail.append((inv[:-3] + " does not invert the forward map (variants disagree)", dict(n=n, na=na, ms=ms, comp=k, xs=comps[k], err=e)))
            for k in COMPS_POS + COMPS_VEL:
                e = max(relerr(getattr(back[i], k), comps[k][i]) for i in range(n))
                worst[inv[:4] + "_rt"] = max(worst.get(inv[:4] + "_rt", 0), e / cond)
                if not e <= 1e-9 * cond:
                    searchfail.append((inv + " round trip does not return the input", dict(n=n, na=na, ms=ms, comp=k, xs=comps[k], err=e)))
        # ------------------------------------------------ DH / WHDS inverse on arbitrary input
        ph = arr(n); setp(ph, ms, comps, allc)
        ph[0].m = Mtot
        m0in = ms[0]
        for name in ("democraticheliocentric_to_inertial_pos", "democraticheliocentric_to_inertial_posvel",
                     "whds_to_inertial_pos", "whds_to_inertial_posvel"):
            out = arr(n); setp(out, ms, comps, [])
            fn(name)(out, ph, N, NA)
            for k in COMPS_POS:
                lines.append(line("dhInvPos", na, msj, comps[k]))
                expect.append("* " + " ".join(d2h(getattr(out[i], k)) for i in range(n)))
                meta.append((name, k, n, na, case))
            if name.endswith("posvel"):
                op = "dhInvVel" if "demo" in name else "whdsInvVel"
                for k in COMPS_VEL:
                    lines.append(line(op, na, ms, comps[k]))
                    expect.append("* " + " ".join(d2h(getattr(out[i], k)) for i in range(n)))
                    meta.append((name, k, n, na, case))
            c.count((name, n, na, case % 5), nontrivial=na >= 2)
        # ------------------------------------------------ barycentric
        out = arr(n)
        fn("inertial_to_barycentric_posvel")(src, out, N, NA)
        for k in COMPS_POS + COMPS_VEL:
            add("baryFwd", na, ms, comps[k], [out[0].m] + [getattr(out[i], k) for i in range(n)], ("inertial_to_barycentric_posvel", k, n, na, case))
            com, M = fsum_com(ms, comps[k], na)
            e = relerr(getattr(out[0], k), com)
            worst["bary_com"] = max(worst.get("bary_com", 0), e)
            if not e <= 1e-9:
                searchfail.append(("barycentric slot0 is not the centre of mass", dict(n=n, na=na, ms=ms, comp=k, xs=comps[k], got=getattr(out[0], k), want=com)))
        c.count(("bary_fwd", n, na, case % 5), nontrivial=na >= 2)
        back = arr(n)
        fn("barycentric_to_inertial_posvel")(back, out, N, NA)
        cond = max(1.0, math.fsum(abs(m) for m in ms[:na]) / abs(ms[0]))
        for k in COMPS_POS + COMPS_VEL:
            e = max(relerr(getattr(back[i], k), comps[k][i]) for i in range(n))
            worst["bary_rt"] = max(worst.get("bary_rt", 0), e / cond)
            if not e <= 1e-9 * cond:
                searchfail.append(("barycentric round trip does not return the input", dict(n=n, na=na, ms=ms, comp=k, xs=comps[k], err=e)))
        # every inverse variant must invert the forward map and agree with the others
        for inv, cs, srcattr in (("barycentric_to_inertial_pos", COMPS_POS, COMPS_POS), ("barycentric_to_inertial_acc", COMPS_ACC, COMPS_POS)):
            fw = arr(n)
            for i in range(n):
                fw[i].m = out[i].m
                for kd, ks in zip(cs, srcattr):
                    setattr(fw[i], kd, getattr(out[i], ks))
            b2 = arr(n)
            fn(inv)(b2, fw, N, NA)
            for kd, ks in zip(cs, srcattr):
                e = max(relerr(getattr(b2[i], kd), comps[ks][i]) for i in range(n))
                if not e <= 1e-9 * cond:
                    searchfail.append((inv + " does not invert inertial_to_barycentric (variants disagree)", dict(n=n, na=na, ms=ms, comp=ks, xs=comps[ks], err=e)))
        if na >= 1 and not abs(back[0].m - ms[0]) <= 1e-9 * abs(Mtot):
            searchfail.append(("barycentric round trip does not return m0", dict(n=n, na=na, ms=ms, got=back[0].m)))
        pb = arr(n); setp(pb, ms, comps, allc)
        pb[0].m = Mtot if Mtot > math.fsum(ms[1:na]) else math.fsum(ms[:na])
        msb = [pb[0].m] + ms[1:]
        for name, cs in (("barycentric_to_inertial_posvel", COMPS_POS + COMPS_VEL),
                         ("barycentric_to_inertial_pos", COMPS_POS),
                         ("barycentric_to_inertial_acc", COMPS_ACC)):
            o2 = arr(n)
            fn(name)(o2, pb, N, NA)
            for k in cs:
                add("baryInv", na, msb, comps[k], [o2[0].m] + [getattr(o2[i], k) for i in range(n)], (name, k, n, na, case))
            c.count((name, n, na, case % 5), nontrivial=na >= 2)
        # ------------------------------------------------ in-place DH maps of MERCURIUS / TRACE
        if n <= 40:
            for integ in ("mercurius", "trace"):
                tpt = 1 if rng.chance(0.25) else 0
                sim = rebound.Simulation()
                for i in range(n):
                    sim.add(m=ms[i], x=comps["x"][i], y=comps["y"][i], z=comps["z"][i],
                            vx=comps["vx"][i], vy=comps["vy"][i], vz=comps["vz"][i])
                sim.integrator = integ
                sim.N_active = na if not (na == n and rng.chance(0.5)) else -1
                sim.testparticle_type = tpt
                nae = n if (tpt == 1 or sim.N_active == -1) else na
                ri = sim.ri_mercurius if integ == "mercurius" else sim.ri_trace
                getattr(clib, "reb_integrator_%s_inertial_to_dh" % integ)(ctypes.byref(sim))
                ps = sim.particles
                for k in COMPS_POS:
                    add("hybFwdPos", nae, ms, comps[k], [getattr(ri._com_pos, k)] + [getattr(ps[i], k) for i in range(n)], (integ + "_inertial_to_dh", k, n, nae, case))
                for k, kk in zip(COMPS_VEL, COMPS_POS):
                    add("hybFwdVel", nae, ms, comps[k], [getattr(ri._com_vel, kk)] + [getattr(ps[i], k) for i in range(n)], (integ + "_inertial_to_dh", k, n, nae, case))
                for k, kk in zip(COMPS_POS + COMPS_VEL, COMPS_POS + COMPS_POS):
                    com, M = fsum_com(ms, comps[k], nae)
                    got_com = getattr(ri._com_pos if k in COMPS_POS else ri._com_vel, kk)
                    if not relerr(got_com, com) <= 1e-9:
                        searchfail.append((integ + " stored centre of mass is wrong", dict(n=n, na=nae, ms=ms, comp=k, xs=comps[k], got=got_com, want=com)))
                dh = {k: [getattr(ps[i], k) for i in range(n)] for k in COMPS_POS + COMPS_VEL}
                cpv = {k: getattr(ri._com_pos if k in COMPS_POS else ri._com_vel, kk) for k, kk in zip(COMPS_POS + COMPS_VEL, COMPS_POS + COMPS_POS)}
                getattr(clib, "reb_integrator_%s_dh_to_inertial" % integ)(ctypes.byref(sim))
                ps = sim.particles
                cond = max(1.0, math.fsum(abs(m) for m in ms[:nae]) / abs(ms[0]))
                for k in COMPS_POS + COMPS_VEL:
                    op = "hybInvPos" if k in COMPS_POS else "hybInvVel"
                    add(op, nae, ms, [cpv[k]] + dh[k][1:], [cpv[k]] + [getattr(ps[i], k) for i in range(n)], (integ + "_dh_to_inertial", k, n, nae, case))
                    e = max(relerr(getattr(ps[i], k), comps[k][i]) for i in range(n))
                    worst[integ[:4] + "_rt"] = max(worst.get(integ[:4] + "_rt", 0), e / cond)
                    if not e <= 1e-9 * cond:
                        searchfail.append((integ + " inertial_to_dh/dh_to_inertial round trip does not return the input", dict(n=n, na=nae, tpt=tpt, ms=ms, comp=k, xs=comps[k], err=e)))
                c.count((integ + "_dh", n, nae, tpt, case % 5), nontrivial=nae >= 2)
                del sim
        # ------------------------------------------------ public frame changes (tools.c): move_to_hel / move_to_com
        if n <= 40:
            withvar = rng.chance(0.4)
            def mk():
                sim = rebound.Simulation()
                for i in range(n):
                    sim.add(m=ms[i], x=comps["x"][i], y=comps["y"][i], z=comps["z"][i],
                            vx=comps["vx"][i], vy=comps["vy"][i], vz=comps["vz"][i])
                sim.N_active = na if not (na == n and rng.chance(0.5)) else -1
                if withvar:   # variational particles behind the real ones must not enter N_real loops
                    v = sim.add_variation()
                    for i in range(n):
                        v.particles[i].x = 1.0 + i; v.particles[i].vy = -2.0 - i; v.particles[i].m = 0.25 * ms[i]
                return sim
            pv = COMPS_POS + COMPS_VEL
            sim = mk()
            cm = sim.com()
            for k in pv:
                add("com", n, ms, comps[k], [cm.m, getattr(cm, k)], ("reb_simulation_com", k, n, n, case))
            clib.reb_simulation_move_to_hel(ctypes.byref(sim))
            ps = sim.particles
            for k in pv:
                got = [getattr(ps[i], k) for i in range(n)]
                add("moveToHel", n, ms, comps[k], got, ("reb_simulation_move_to_hel", k, n, n, case))
                tolk = 64 * 2.3e-16 * scale
                if got[0] != 0.0:
                    searchfail.append(("move_to_hel does not put particle 0 at the origin at rest", dict(n=n, ms=ms, comp=k, xs=comps[k], got=got[0])))
                e = max([abs(got[i] - (comps[k][i] - comps[k][0])) for i in range(1, n)] + [0.0])
                e2 = max([abs((got[i] + comps[k][0]) - comps[k][i]) for i in range(n)])
                worst["hel_rt"] = max(worst.get("hel_rt", 0), e2 / scale)
                if not e <= tolk:
                    searchfail.append(("move_to_hel does not leave coordinates relative to particle 0 unchanged", dict(n=n, ms=ms, comp=k, xs=comps[k], got=got, err=e)))
                elif not e2 <= 4 * tolk:
                    searchfail.append(("move_to_hel followed by adding particle 0 back does not return the input", dict(n=n, ms=ms, comp=k, xs=comps[k], got=got, err=e2)))
            c.count(("move_to_hel", n, na, withvar, case % 5), nontrivial=n >= 2)
            del sim
            sim = mk()
            clib.reb_simulation_move_to_com(ctypes.byref(sim))
            ps = sim.particles
            Mall = math.fsum(ms)
            for k in pv:
                got = [getattr(ps[i], k) for i in range(n)]
                add("moveToCom", n, ms, comps[k], got, ("reb_simulation_move_to_com", k, n, n, case))
                comall = math.fsum(ms[i] * comps[k][i] for i in range(n)) / Mall
                res = math.fsum(ms[i] * got[i] for i in range(n)) / Mall
                worst["com_residual"] = max(worst.get("com_residual", 0), abs(res) / scale)
                if not abs(res) <= 1e-9 * scale:
                    searchfail.append(("after move_to_com the centre of mass of all real particles is not at the origin / at rest", dict(n=n, ms=ms, comp=k, xs=comps[k], residual=res)))
                e = max(abs(got[i] - (comps[k][i] - comall)) for i in range(n))
                if not e <= 1e-9 * scale:
                    searchfail.append(("move_to_com is not the uniform shift by the centre of mass (relative coordinates changed)", dict(n=n, ms=ms, comp=k, xs=comps[k], got=got, err=e)))
                if not abs(getattr(cm, k) - comall) <= 1e-9 * scale or not abs(cm.m - Mall) <= 1e-12 * Mall:
                    searchfail.append(("reb_simulation_com is not the mass-weighted mean of all real particles", dict(n=n, ms=ms, comp=k, xs=comps[k], got=getattr(cm, k), want=comall)))
            c.count(("move_to_com", n, na, withvar, case % 5), nontrivial=n >= 2)
            del sim
        if case < 2:
            c.sample({"N": n, "N_active": na, "masses": ms[:6], "x": comps["x"][:6], "line": lines[-1][:200]})

    # ------------------------------------------------ call sites: same split for a map and its inverse
    shim = os.path.join(d, "c12_trace.so")
    p = subprocess.run(["gcc", "-shared", "-fPIC", "-O1", "-w", os.path.join(ROOT, "harness", "c12_trace.c"), "-ldl", "-o", shim],
                       capture_output=True, text=True)
    if p.returncode != 0:
        raise Infra("c12_trace shim: " + p.stderr[-1000:])
    env = dict(os.environ, LD_PRELOAD=shim, RBV_LIB=os.path.join(d, "librebound" + SUFFIX), VERIF_TIER="thorough" if c.thorough else "quick")
    q = subprocess.run(["/venv/bin/python", os.path.join(ROOT, "rv", "c12_worker.py"), d, shim, str(c.seed)],
                       capture_output=True, text=True, env=env, timeout=2400)
    res = [l for l in q.stdout.splitlines() if l.startswith("RESULT ")]
    if q.returncode != 0 or not res:
        raise Infra("c12 worker failed: " + (q.stdout + q.stderr)[-1500:])
    wres = json.loads(res[0][7:])
    sites = wres["sites"]
    ncalls = 0
    seen_routines = set()
    for r in sites:
        if "error" in r:
            continue
        ncalls += r["ncalls"]
        seen_routines |= set(r["routines"])
        c.count(("callsite", r["integ"], json.dumps(r["opts"], sort_keys=True), r["safe"], r["split"], r.get("pattern"), r.get("keep")), nontrivial=r["split"] != "all")
        # a call that also covers the variational particles behind the real ones (N > N_real) acts on the real
        # particles exactly like (N_real, N_active); the variational sets are re-transformed by their own calls
        r["pairs"] = sorted({(min(pr[0], r["N"]), pr[1]) for pr in r["pairs"]})
        if len(r["pairs"]) > 1:
            searchfail.append(("integrator call sites hand different (N, N_active) splits to a transformation and its inverse",
                               dict(config=r, note="within one run of a fixed particle set every reb_particles_transform_* call must use the same split, otherwise forward and inverse maps are not mutual inverses")))
    # integrator-level frame covariance (shifted + boosted twin vs original)
    covw = {}
    for r in wres["cov"]:
        name = "%s/%s/%s/%s/%s/%s" % (r["integ"], json.dumps(r["opts"], sort_keys=True), r["kind"], r.get("role", "plain"), r.get("call", "steps"), r.get("flag", "none"))
        if "error" in r:
            covw[name] = "error: " + r["error"]
            continue
        c.count(("cov", name), nontrivial=True)
        covw[name] = float("%.3g" % r["worst"])
        # chaotic amplification of rounding is possible in the encounter families: 1e-7; regular: 1e-9 (offsets are O(10))
        tol = 1e-9 if r["kind"] == "regular" else 1e-7
        if not r["worst"] <= tol:
            searchfail.append(("integrator run is not covariant under a shift + boost of the whole system (the heliocentric/Jacobi maps inside the integrator lose the centre of mass)",
                               dict(cov=r, shift=[10.0, -7.0, 3.0], boost=[0.3, -0.2, 0.1], tolerance=tol)))
    c.cov["frame_covariance_worst_abs_error"] = covw
    dims = {"N_active<N (type 0)": 0, "N_active<N (type 1)": 0, "variational particles present": 0, "dt<0": 0, "safe_mode=0": 0,
            "correctors/kernels": 0, "COM offset + boost": 0, "close encounter / rejected step": 0, "zero-mass active body": 0, "N>=50": 0}
    for r in sites:
        if "error" in r:
            continue
        dims["N_active<N (type 0)"] += r["split"] == "tp0"
        dims["N_active<N (type 1)"] += r["split"] == "tp1"
        dims["variational particles present"] += r["split"] == "var"
        dims["dt<0"] += r["split"] == "negdt"
        dims["safe_mode=0"] += r["safe"] == 0
        dims["correctors/kernels"] += bool(r["opts"].get("corrector")) or r["opts"].get("kernel", "default") != "default"
    for r in wres["cov"]:
        if "error" in r:
            continue
        dims["COM offset + boost"] += 1
        dims["dt<0"] += bool(r["opts"].get("_negdt"))
        dims["close encounter / rejected step"] += r["kind"] in ("encounter", "approach", "eccentric", "first-step-scan")
    for r in sites:
        if "error" in r:
            continue
        for k in ("keep_unsynchronized=1", "integrate() with shortened last step", "direction reversal between calls", "user edit + recalculation flag"):
            dims.setdefault(k, 0)
        dims["keep_unsynchronized=1"] += r.get("keep") == 1
        dims["integrate() with shortened last step"] += r.get("pattern") == "integrate-exact"
        dims["direction reversal between calls"] += r.get("pattern") == "integrate-reversal"
        dims["user edit + recalculation flag"] += r.get("pattern") == "edit-recalc"
    for r in wres["cov"]:
        if "error" in r:
            continue
        for k in ("covariance with test particles (type 0)", "covariance with test particles (type 1)", "covariance through integrate() output calls"):
            dims.setdefault(k, 0)
        dims["covariance with test particles (type 0)"] += r.get("role") == "tp0"
        dims["covariance with test particles (type 1)"] += r.get("role") == "tp1"
        dims["covariance through integrate() output calls"] += r.get("call") == "integrate"
        if r.get("flag", "none") != "none":
            k = "user sets %s.%s while unsynchronised" % (r["integ"], r["flag"].split(":")[-1])
            dims[k] = dims.get(k, 0) + 1
    # every user-settable recalculation flag of the integrators that carry a transformation state must have been set mid-run
    for integ_, cls_ in (("whfast", rebound.integrators.whfast.IntegratorWHFast), ("mercurius", rebound.integrators.mercurius.IntegratorMercurius),
                         ("trace", rebound.integrators.trace.IntegratorTRACE)):
        for f_ in cls_._fields_:
            if f_[0].startswith("recalculate_"):
                dims.setdefault("user sets %s.%s while unsynchronised" % (integ_, f_[0]), 0)
    dims["zero-mass active body"] = zero_mass_cases
    dims["N>=50"] = hist.get(50, 0)
    c.cov["dimensions"] = dims
    for k, v in dims.items():
        if v == 0:
            c.corr_break("dimension not covered: " + k)
    # ---- pairwise coverage of the call-site factors (full factorial in thorough; rotated slice in quick)
    facs = ("cfg", "safe", "split", "pattern", "keep")
    seenp = set(); vals = {f: set() for f in facs}
    for r in sites:
        if "error" in r:
            continue
        v = dict(cfg=r["integ"] + json.dumps(r["opts"], sort_keys=True), safe=r["safe"], split=r["split"], pattern=r.get("pattern"), keep=r.get("keep"))
        for f in facs:
            vals[f].add(v[f])
        for i, f in enumerate(facs):
            for g in facs[i + 1:]:
                seenp.add((f, v[f], g, v[g]))
    total = 0; excluded = 0; missingp = []
    for i, f in enumerate(facs):
        for g in facs[i + 1:]:
            for a in vals[f]:
                for b in vals[g]:
                    # variations exist only for WHFast / Jacobi / default kernel (the code rejects the others)
                    if "split" in (f, g) and "var" in (a, b) and "cfg" in (f, g):
                        cfgv = a if f == "cfg" else b
                        if not (cfgv.startswith("whfast") and '"coordinates": "jacobi"' in cfgv and '"kernel": "default"' in cfgv):
                            excluded += 1
                            continue
                    if (f, a, g, b) == ("safe", 1, "keep", 1):   # rejected by the code ("keep_unsynchronized == 1 is not compatible with safe_mode")
                        excluded += 1
                        continue
                    total += 1
                    if (f, a, g, b) not in seenp:
                        missingp.append([f, a, g, b])
    c.cov["pairs"] = {"covered": len(seenp), "total": total, "excluded": excluded,
                      "factors": {f: len(vals[f]) for f in facs}, "missing": missingp[:20],
                      "errors": [dict(cfg=r["integ"] + json.dumps(r["opts"], sort_keys=True), split=r["split"], pattern=r.get("pattern"), keep=r.get("keep"), error=r["error"][:200]) for r in sites if "error" in r][:10]}
    if c.thorough and len(seenp) < total:
        c.corr_break("pairwise coverage of the call-site factors incomplete: %d of %d pairs" % (len(seenp), total))
    # ---- entry points: every routine of transformations.c, the in-place maps of the hybrid integrators and the public
    #      frame changes named in the anchors must be inside the tie of this run (extracted from the source, not a constant)
    import re as _re
    src_t = open(os.path.join(REPO, "src", "transformations.c")).read()
    entry = set(_re.findall(r"^void\s+reb_particles_transform_(\w+)\s*\(", src_t, flags=_re.M))
    for f_, pat in (("integrator_mercurius.c", r"^void\s+reb_integrator_(mercurius_(?:inertial_to_dh|dh_to_inertial))\s*\("),
                    ("integrator_trace.c", r"^void\s+reb_integrator_(trace_(?:inertial_to_dh|dh_to_inertial))\s*\(")):
        entry |= set(_re.findall(pat, open(os.path.join(REPO, "src", f_)).read(), flags=_re.M))
    entry |= set(_re.findall(r"^(?:void|struct reb_particle)\s+(reb_simulation_(?:move_to_hel|move_to_com|com))\s*\(", open(os.path.join(REPO, "src", "tools.c")).read(), flags=_re.M))
    tied = {mt[0] for mt in meta}
    missing = sorted(e for e in entry if e not in tied)
    c.cov["entry_points_extracted"] = len(entry)
    c.cov["entry_points_tied"] = len(entry) - len(missing)
    if len(entry) < 23:
        c.corr_break("entry-point extraction found only %d routines (expected the 16 of transformations.c, 4 hybrid maps, 3 frame routines)" % len(entry))
    if missing:
        c.corr_break("routines of the anchored files that are not inside the model tie: " + ", ".join(missing))
    c.cov["callsite_configs_traced"] = len(sites)
    c.cov["callsite_transform_calls_traced"] = ncalls
    c.cov["callsite_routines_seen"] = sorted(seen_routines)
    c.log("running %d model lines through drv_c12" % len(lines))
    got = run_driver(exe, lines)
    ndis = 0
    nbit = 0
    first = None
    if len(got) != len(lines):
        c.corr_break("driver returned %d lines for %d ops" % (len(got), len(lines)))
    else:
        for g, e, mt, l in zip(got, expect, meta, lines):
            gt, et = g.split(), e.split()
            if et[0] == "*":   # routine does not write the mass slot: compare coordinates only
                gt, et = gt[1:], et[1:]
            if gt != et:
                nbit += 1
                # tolerance policy for a "to rounding error" property: a harmless re-association must not
                # fire, a wrong bound / index / constant must (64 N ulp of the largest coordinate involved)
                try:
                    gv, ev = [h2d(t) for t in gt], [h2d(t) for t in et]
                    scale = max([abs(v) for v in ev + gv if v == v] + [abs(h2d(t)) for t in l.split()[4:5]]) or 1.0
                    bad = len(gv) != len(ev) or any(ta != tb and not (abs(a - b) <= 64 * mt[2] * 2.3e-16 * scale) for a, b, ta, tb in zip(gv, ev, gt, et))
                except Exception:
                    bad = True
                if bad:
                    ndis += 1
                    if first is None:
                        first = {"routine": mt[0], "component": mt[1], "N": mt[2], "N_active": mt[3], "op_line": l, "model": g, "impl": e}
    c.cov["bitwise_mismatches_within_tolerance"] = nbit - ndis
    c.cov["model_lines_compared"] = len(lines)
    c.cov["disagreements"] = ndis
    c.cov["worst_relative_errors_measured"] = {k: float("%.3g" % v) for k, v in worst.items()}
    c.cov["N_histogram"] = {str(k): v for k, v in sorted(hist.items())}
    if ndis:
        c.corr_break("%d of %d model/implementation lines differ; first: %s" % (ndis, len(lines), first["routine"]), first)
    reported = 0
    for what, rep in searchfail:
        if "cov" in rep:
            key = "frame-covariance:" + rep["cov"]["integ"] + ":" + rep["cov"]["kind"]
        elif "config" in rep:      # call-site finding: keyed by integrator, so another integrator's call sites still alarm
            key = "callsite-split:" + rep["config"]["integ"]
        else:
            key = what.split(":")[0]
        if c.violation(key, what, rep):
            reported += 1
            if reported >= 3:
                break


if __name__ == "__main__":
    main("C12", run)
