"""C14 — particle bookkeeping stays consistent under any add/remove/hash history.

proof:   lean/RV/Props/C14.lean about lean/RV/Model/Particles.lean (refinement of a plain list,
         invariants, lookup soundness/completeness for any stale table, removal shapes,
         invalid requests; F4 shapes: full statement for the repaired variant, `_partial`
         + concrete counter-example for the current one)
tie:     the same model, run natively (drv_c14), against (a) the C functions through ctypes
         and (b) the Python container API, op by op, on generated histories: return code /
         message kind, N, N_active, N_allocated, N_var, tree_root, (id, hash, flag) of every
         live particle in order, the whole lookup table, a digest of the unused slots.
         reb_hash: model vs C vs rebound.hash, bitwise.  Index/slice rules: model vs container.
search:  a plain Python list implementing the documented behaviour, asserted on the real
         code after every operation; thorough tier replays the histories under ASan+UBSan.
"""
import ctypes, json, math, os, struct, subprocess, sys, tempfile, time
sys.path.insert(0, os.path.dirname(os.path.abspath(__file__)))
from common import *

DIGEST_MOD = 2305843009213693951
RESET_TREE = False   # set from the probes: does remove_all delete the tree?
DCRIT_BOUNDED = False  # set from the probes: does the MERCURIUS dcrit shift stay inside its allocation?
PROGRESS = None      # file the child appends its current history to (read by the parent after a crash/hang)


def progress(obj):
    if PROGRESS is not None:
        PROGRESS.write(json.dumps(obj) + "\n")
        PROGRESS.flush()
BOX = 16.0

MSG_KINDS = [
    ("Particle outside of box boundaries", "errOutsideBoundary"),
    ("root_size is -1", "errNoBox"),
    ("Cannot add particle outside of simulation box", "errOutsideTreeBox"),
    ("Cannot add two particles with the same coordinates", "errSameCoords"),
    ("Last particle removed", "lastRemoved"),
    ("was out of range", "errRange"),
    ("not supported when calculating MEGNO", "errMegno"),
    ("cannot remove a particle a tree and keep the particles sorted", "errTreeSorted"),
    ("Particle to be removed not found", "errNotFound"),
]


def msg_kind(m):
    for pat, k in MSG_KINDS:
        if pat in m:
            return k
    return "msg?:" + m[:60]


def pos_of(ident, scale=0.45):
    """distinct reproducible position inside the box for a particle identity"""
    s = SplitMix(ident * 7919 + 13)
    return tuple((s.uniform() - 0.5) * 2 * scale * BOX for _ in range(3))


# ----------------------------------------------------------------------------- reference list (search oracle)
class Ref:
    """the documented behaviour on a plain Python list; shares nothing with particle.c"""

    def __init__(self, cfg):
        self.ps = []           # [id, hash, flagged]
        self.active = -1
        self.nvar = 0
        self.tree_cfg = cfg["tree"] != "none"
        self.box_cfg = cfg["box"]
        self.tree_root = False
        self.forced = cfg["integrator"] in ("mercurius", "trace")
        self.mercurius = cfg["integrator"] == "mercurius"
        self.dc = []           # critical radii of the first len(dc) particles (MERCURIUS): they travel with their particles

    def snapshot(self):
        return (len(self.ps), self.active, self.nvar, self.tree_root, [tuple(p) for p in self.ps])

    def tree_update(self):
        """second phase of removals in tree mode: the flagged particles are gone (order: up to the walk)"""
        self.ps = [p for p in self.ps if not p[2]]
        self.tree_root = True
        if self.active > len(self.ps):
            self.active = len(self.ps)
        return "done"

    def integrator_step(self, dcrit):
        self.dc = list(dcrit[:len(self.ps)])
        return "done"

    def add(self, ident, h, geo):
        if geo == 1:
            return "errOutsideBoundary"
        if self.tree_cfg:
            if not self.box_cfg:
                return "errNoBox"
            if geo == 2:
                return "errOutsideTreeBox"
            self.tree_root = True
        self.ps.append([ident, h, 0])
        return "ok"

    def remove(self, idx, ks):
        self.freed = []
        out = self.remove0(idx, ks)
        if out in ("removed", "lastRemoved") and 0 <= idx < len(self._before):
            self.freed = [self._before[idx][0]]      # exactly the removed particle, exactly when it is removed
        return out

    def remove0(self, idx, ks):
        self._before = [list(p) for p in self.ps]
        ks = ks or self.forced
        n = len(self.ps)
        if idx < 0 or idx >= n:
            return "errRange"
        if n == 1:
            self.ps = []
            self.dc = []
            if self.active > 0:
                self.active = 0
            self.tree_root = False
            return "lastRemoved"
        if self.nvar:
            return "errMegno"
        if ks:
            if self.tree_root:
                return "errTreeSorted"
            del self.ps[idx]
            if idx < len(self.dc):
                del self.dc[idx]
            if idx < self.active:
                self.active -= 1
            return "removed"
        if self.tree_root:
            self.ps[idx][2] = 1
            return "removed"
        last = self.ps.pop()
        self.dc = self.dc[:len(self.ps)]           # (unsorted removal never happens under MERCURIUS)
        if idx < len(self.ps):
            self.ps[idx] = last
        if self.active > len(self.ps):
            self.active = len(self.ps)
        return "removed"

    def with_hash(self, h):
        return [i for i, p in enumerate(self.ps) if p[1] == h]

    def remove_all(self):
        self.ps = []
        self.dc = []
        self.active = -1
        self.nvar = 0
        self.tree_root = False
        return "done"

    def set_hash(self, idx, h):
        if 0 <= idx < len(self.ps):
            self.ps[idx][1] = h
            return "done"
        return "errIndex"

    def set_active(self, k):
        if -1 <= k <= len(self.ps):
            self.active = k
            return "done"
        return "errIndex"


# ----------------------------------------------------------------------------- real code, C level
class CSim:
    def __init__(self, rebound, cfg):
        self.rb = rebound
        self.clib = rebound.clibrebound
        self.P = rebound.Particle
        self.cfg = cfg
        sim = rebound.Simulation()
        if cfg["box"]:
            sim.configure_box(BOX)
        if cfg["boundary"] != "none":
            sim.boundary = cfg["boundary"]
        if cfg["tree"] == "gravity":
            sim.gravity = "tree"
        elif cfg["tree"] == "collision":
            sim.collision = "tree"
        elif cfg["tree"] == "linetree":
            sim.collision = "linetree"
        if cfg["integrator"] != "ias15":
            sim.integrator = cfg["integrator"]
        self.drain(sim)
        self.sim = sim
        # the hook REBOUNDx uses to release a particle's additional parameters: which particles is it called for?
        self.freed = []
        def _free_ap(pp, _log=self.freed):
            m = pp.contents.m
            _log.append(int(m) if m == m and abs(m) < 1e15 else -1)
        sim.free_particle_ap = _free_ap
        c = self.clib
        c.reb_simulation_remove_particle.restype = ctypes.c_int
        c.reb_simulation_remove_particle_by_hash.restype = ctypes.c_int
        c.reb_simulation_particle_by_hash.restype = ctypes.c_void_p
        c.reb_simulation_add.restype = None
        c.reb_simulation_get_next_message.restype = ctypes.c_int
        self.sz = ctypes.sizeof(self.P)
        self.off_m, self.off_y, self.off_h = self.P.m.offset, self.P.y.offset, self.P._hash.offset
        self.off_ap = self.P.ap.offset
        self.expect_ap = type(self) is CSim        # particles built by mk() carry ap = 16*id

    def drain(self, sim=None):
        sim = sim or self.sim
        buf = ctypes.create_string_buffer(4096)
        out = []
        while self.clib.reb_simulation_get_next_message(ctypes.byref(sim), buf):
            out.append(buf.value.decode("ascii", "replace"))
        return out

    def base(self):
        return ctypes.cast(self.sim._particles, ctypes.c_void_p).value or 0

    def state(self):
        s = self.sim
        n, nalloc = s.N, s.N_allocated
        ps, tail, stale, ap_bad = [], 0, [], []
        if nalloc and self.base():
            buf = ctypes.string_at(self.base(), nalloc * self.sz)
            for i in range(nalloc):
                o = i * self.sz
                m = struct.unpack_from("<d", buf, o + self.off_m)[0]
                y = struct.unpack_from("<d", buf, o + self.off_y)[0]
                h = struct.unpack_from("<I", buf, o + self.off_h)[0]
                ident = int(m) if m == m and abs(m) < 1e15 else 999999999
                fl = 1 if y != y else 0
                if i < n:
                    ps.append((ident, h, fl))
                    ap = struct.unpack_from("<Q", buf, o + self.off_ap)[0]
                    if ident and self.expect_ap and ap != ident * 16:
                        ap_bad.append((i, ident, ap))
                else:
                    tail = (tail + (ident * 1000003 + h * 7 + fl + 1) * (i + 1)) % DIGEST_MOD
                    if len(stale) < 8:
                        stale.append((ident, h, fl))
        tbl = []
        nl = s.N_lookup
        if nl > 0 and s._particle_lookup_table:
            for i in range(nl):
                e = s._particle_lookup_table[i]
                tbl.append((e.hash, e.index))
        dcrit, rc = [], "00"
        if self.cfg["integrator"] == "mercurius":
            rim = s.ri_mercurius
            nd = rim._N_allocated_dcrit
            if nd > 0 and rim._dcrit:
                raw = ctypes.string_at(ctypes.cast(rim._dcrit, ctypes.c_void_p).value, 8 * nd)
                dcrit = list(struct.unpack("<%dQ" % nd, raw))
            rc = "%d%d" % (1 if rim.recalculate_r_crit_this_timestep else 0, 1 if rim.recalculate_coordinates_this_timestep else 0)
        return dict(N=n, nact=s.N_active, nalloc=nalloc, nvar=s.N_var, troot=1 if s._tree_root else 0,
                    ps=ps, tbl=tbl, tail=tail, dcrit=dcrit, rc=rc, stale=stale, ap_bad=ap_bad, nal=s.N_allocated_lookup)

    def mk(self, ident, h, geo):
        p = self.P()
        if geo == 0:
            p.x, p.y, p.z = pos_of(ident)
        else:
            p.x, p.y, p.z = BOX * 0.75, 0.1 * (ident % 7), 0.0
        p.m = float(ident)
        p._hash = h
        p.ap = ident * 16 if ident else None      # the user's `ap` pointer: must travel with its particle
        return p

    def apply(self, op):
        """returns (out, messages)"""
        s, c = self.sim, self.clib
        k = op[0]
        EXERCISED.update({"add": ["reb_simulation_add"], "rm": ["reb_simulation_remove_particle"], "rmh": ["reb_simulation_remove_particle_by_hash"],
                          "get": ["reb_simulation_particle_by_hash"], "rmall": ["reb_simulation_remove_all_particles"],
                          "tupd": ["reb_simulation_update_tree"], "addvar": ["reb_simulation_add_variation_1st_order"]}.get(k, []))
        rc = None
        if k == "add":
            c.reb_simulation_add(ctypes.byref(s), self.mk(op[1], op[2], op[3]))
        elif k == "rm":
            rc = c.reb_simulation_remove_particle(ctypes.byref(s), ctypes.c_int(op[1]), ctypes.c_int(op[2]))
        elif k == "rmh":
            rc = c.reb_simulation_remove_particle_by_hash(ctypes.byref(s), ctypes.c_uint32(op[1]), ctypes.c_int(op[2]))
        elif k == "get":
            ptr = c.reb_simulation_particle_by_hash(ctypes.byref(s), ctypes.c_uint32(op[1]))
            msgs = self.drain()
            if not ptr:
                return "notFound", msgs
            off = ptr - self.base()
            if off % self.sz or off < 0:
                return "badptr:%d" % off, msgs
            return "found:%d" % (off // self.sz), msgs
        elif k == "sethash":
            if 0 <= op[1] < s.N:
                s._particles[op[1]]._hash = op[2]
                return "done", []
            return "errIndex", []
        elif k == "setactive":
            if -1 <= op[1] <= s.N:
                s.N_active = op[1]
                return "done", []
            return "errIndex", []
        elif k == "setnvar":
            s.N_var = op[1]
            return "done", []
        elif k == "rmall":
            c.reb_simulation_remove_all_particles(ctypes.byref(s))
        elif k == "addvar":
            c.reb_simulation_add_variation_1st_order.restype = ctypes.c_int
            c.reb_simulation_add_variation_1st_order(ctypes.byref(s), ctypes.c_int(-1))
        elif k == "tupd":
            c.reb_simulation_update_tree(ctypes.byref(s))
        elif k == "istep":
            s.dt = 1e-6
            c.reb_simulation_step(ctypes.byref(s))
        msgs = self.drain()
        kinds = [msg_kind(m) for m in msgs]
        if k == "add":
            out = kinds[0] if kinds else "ok"
        elif k in ("rm", "rmh"):
            if rc == 1:
                out = "lastRemoved" if kinds == ["lastRemoved"] else ("removed" if not kinds else "removed+" + "+".join(kinds))
            elif rc == 0:
                out = kinds[0] if len(kinds) == 1 else "rc0:" + "+".join(kinds)
            else:
                out = "rc=%r" % rc
        else:
            out = "done" if not kinds else "done+" + "+".join(kinds)
        return out, msgs


# ----------------------------------------------------------------------------- real code, Python container API
class PySim(CSim):
    """same observations, operations through sim.add / sim.remove / sim.particles[...]"""

    NAMES = ["star", "planet1", "planet2", "earth", "Sun", "a", "ab", "abc", "abcd", "abcde", "x" * 40,
             "Jupiter barycenter", "p~!@#", " ", "0", "-1"] + ["tp%d" % i for i in range(24)]

    def __init__(self, rebound, cfg):
        CSim.__init__(self, rebound, cfg)
        self.names = {rebound.hash(nm).value: nm for nm in self.NAMES}
        self.flip = 0

    def key(self, h):
        """the three key types the container accepts: name, int, c_uint32"""
        if h in self.names:
            return self.names[h]
        self.flip += 1
        return h if self.flip % 2 else ctypes.c_uint32(h)

    def apply(self, op):
        import warnings
        if op[0] in ("tupd", "istep"):
            return CSim.apply(self, op)          # no container-level API for these
        EXERCISED.update({"add": ["Simulation.add", "reb_simulation_add"], "rm": ["Simulation.remove", "reb_simulation_remove_particle"],
                          "rmh": ["Simulation.remove", "reb_simulation_remove_particle_by_hash"],
                          "get": ["Particles.__getitem__", "reb_simulation_particle_by_hash"], "rmall": ["Simulation.particles", "reb_simulation_remove_all_particles"],
                          "sethash": ["Particles.__getitem__"], "addvar": ["Simulation.add_variation"]}.get(op[0], []))
        if op[0] == "addvar":
            import warnings as _w
            with _w.catch_warnings():
                _w.simplefilter("ignore")
                self.sim.add_variation()
            return "done", self.drain()
        s = self.sim
        k = op[0]
        out = None
        with warnings.catch_warnings(record=True) as w:
            warnings.simplefilter("always")
            try:
                if k == "add":
                    x, y, z = pos_of(op[1]) if op[3] == 0 else (BOX * 0.75, 0.1 * (op[1] % 7), 0.0)
                    hv = self.key(op[2])
                    hv = hv.value if isinstance(hv, ctypes.c_uint32) and self.flip % 4 == 0 else hv
                    s.add(m=float(op[1]), x=x, y=y, z=z, hash=hv)
                    out = "ok"
                elif k == "rm":
                    s.remove(index=op[1], keep_sorted=bool(op[2]))
                    out = "removed"
                elif k == "rmh":
                    s.remove(hash=self.key(op[1]), keep_sorted=bool(op[2]))
                    out = "removed"
                elif k == "get":
                    key = self.key(op[1])
                    key = ctypes.c_uint32(key) if isinstance(key, int) else key
                    try:
                        p = s.particles[key]
                        off = ctypes.addressof(p) - self.base()
                        out = "found:%d" % (off // self.sz) if off % self.sz == 0 else "badptr"
                    except self.rb.ParticleNotFound:
                        out = "notFound"
                elif k == "sethash":
                    try:
                        s.particles[op[1]].hash = self.key(op[2])
                        out = "done"
                    except AttributeError:
                        out = "errIndex"
                elif k == "setactive":
                    if -1 <= op[1] <= s.N:
                        s.N_active = op[1]
                        out = "done"
                    else:
                        out = "errIndex"
                elif k == "rmall":
                    del s.particles
                    out = "done"
                elif k == "setnvar":
                    s.N_var = op[1]
                    out = "done"
            except RuntimeError as e:
                out = msg_kind(str(e))
        extra = self.drain()
        kinds = [msg_kind(str(x.message)) for x in w if issubclass(x.category, RuntimeWarning)]
        if kinds == ["lastRemoved"] and out == "removed":
            out = "lastRemoved"
        elif kinds:
            out = str(out) + "+" + "+".join(kinds)
        return out, extra


# ----------------------------------------------------------------------------- lines for the model
def fmt_state(out, st):
    ps = ",".join("%d.%d.%d" % p for p in st["ps"]) or "-"
    tb = ",".join("%d.%d" % e for e in st["tbl"]) or "-"
    dc = ",".join(str(x) for x in st["dcrit"]) or "-"
    return "%s %d %d %d %d %d ps=%s tbl=%s tail=%d dcrit=%s rc=%s cap=%d" % (out, st["N"], st["nact"], st["nalloc"], st["nvar"],
                                                                            st["troot"], ps, tb, st["tail"], dc, st["rc"], st["nal"])


def model_line(op, st_after):
    k = op[0]
    hint = ",".join("%d.%d" % e for e in st_after["tbl"]) or "-"
    if k == "add":
        return "add %d %d %d" % (op[1], op[2], op[3])
    if k == "rm":
        return "rm %d %d" % (op[1], op[2])
    if k == "rmh":
        return "rmh %d %d %s" % (op[1], op[2], hint)
    if k == "get":
        return "get %d %s" % (op[1], hint)
    if k == "sethash":
        return "sethash %d %d" % (op[1], op[2])
    if k == "setactive":
        return "setactive %d" % op[1]
    if k == "setnvar":
        return "setnvar %d" % op[1]
    if k == "rmall":
        return "rmall"
    if k == "tupd":
        return "tupd " + (",".join(str(q) for q in op[1]) or "-")
    if k == "istep":
        return "istep " + (",".join(str(x) for x in st_after["dcrit"]) or "-")
    raise ValueError(op)


# ----------------------------------------------------------------------------- F4 shapes
def shape_of(op, st):
    """classify the call shape (state *before* the call) for the known-finding keys"""
    k = op[0]
    if k == "add" and st["troot"] and st["N"] == 0:
        return "F18b:last-particle-removal-keeps-tree"
    if k == "rmall" and st["troot"]:
        return "F18a:remove_all-keeps-tree"
    if k not in ("rm", "rmh"):
        return None
    n, nact = st["N"], st["nact"]
    forced = st["forced"]
    ks = bool(op[2]) or forced
    if k == "rm":
        idx = op[1]
        valid = 0 <= idx < n
    else:
        valid = any(p[1] == op[1] for p in st["ps"])
        if not valid:
            return None
    if n == 1 and not valid:
        return "F4a:remove-oob-index-N1"
    if not valid:
        return None
    if n == 1:
        if nact >= 1:
            return "F4c:last-particle-removal-leaves-N_active-above-N"
        return "F18b:last-particle-removal-keeps-tree" if st["troot"] else None
    if st["nvar"]:
        return None
    if ks and st["troot"]:
        return "F4b:sorted-remove-with-tree-returns-0-after-mutating"
    if not ks and not st["troot"] and nact >= n:
        return "F4d:unsorted-removal-leaves-N_active-above-N"
    return None


# ----------------------------------------------------------------------------- variant probes (the model's counter-examples replayed)
def probe_variant(rebound, c):
    """replays the four concrete witnesses of RV/Props/C14.lean (c14_*_fails_current) on the
    real code and reports, per F4 shape, whether the current behaviour is present."""
    res = {}
    base = dict(box=False, boundary="none", tree="none", integrator="ias15")
    # F4a: N==1, remove(index=5)
    s = CSim(rebound, base); s.apply(("add", 1, 11, 0))
    out, _ = s.apply(("rm", 5, 1)); st = s.state()
    res["rangeFirst"] = (out == "errRange" and st["N"] == 1)
    res["F4a"] = dict(out=out, N=st["N"])
    # F4b: tree, 3 particles, sorted removal of index 0
    s = CSim(rebound, dict(base, box=True, tree="collision"))
    for i in (1, 2, 3):
        s.apply(("add", i, 10 + i, 0))
    out, _ = s.apply(("rm", 0, 1)); st = s.state()
    res["treeFirst"] = (out == "errTreeSorted" and st["N"] == 3)
    res["F4b"] = dict(out=out, N=st["N"], ids=[p[0] for p in st["ps"]])
    # F4c: N==1, N_active==1, remove(0)
    s = CSim(rebound, base); s.apply(("add", 1, 11, 0)); s.apply(("setactive", 1))
    out, _ = s.apply(("rm", 0, 1)); st = s.state()
    res["lastClamp"] = (st["nact"] <= st["N"])
    res["F4c"] = dict(out=out, N=st["N"], N_active=st["nact"])
    # F4d: N==3, N_active==3, unsorted remove(0)
    s = CSim(rebound, base)
    for i in (1, 2, 3):
        s.apply(("add", i, 10 + i, 0))
    s.apply(("setactive", 3))
    out, _ = s.apply(("rm", 0, 0)); st = s.state()
    res["unsortedClamp"] = (st["nact"] <= st["N"])
    res["F4d"] = dict(out=out, N=st["N"], N_active=st["nact"])
    # F18: tree simulation, remove the only particle / remove all: is the tree deleted?
    s = CSim(rebound, dict(base, box=True, tree="collision")); s.apply(("add", 1, 11, 0))
    out, _ = s.apply(("rm", 0, 0)); t1 = s.state()["troot"]
    s = CSim(rebound, dict(base, box=True, tree="collision")); s.apply(("add", 1, 11, 0)); s.apply(("add", 2, 12, 0))
    s.apply(("rmall",)); t2 = s.state()["troot"]
    res["resetTree"] = (t1 == 0 and t2 == 0)
    # F4g (second half): MERCURIUS, dcrit allocated by a step, a removal that is refused (N_var set): dcrit untouched?
    s = CSim(rebound, dict(base, integrator="mercurius"))
    for i in (1, 2, 3):
        s.apply(("add", i, 10 + i, 0))
    s.apply(("istep",))
    d0 = s.state()["dcrit"]
    s.apply(("setnvar", 1))
    out, _ = s.apply(("rm", 0, 1)); d1 = s.state()["dcrit"]
    s.apply(("setnvar", 0))
    res["dcritWithParticles"] = (out == "errMegno" and d1 == d0)
    res["F4g_refused"] = dict(out=out, dcrit_before=d0, dcrit_after=d1)
    # F4h: tree, N_active == N == 3, unsorted removal (flag), tree update: N_active <= N afterwards?
    s = CSim(rebound, dict(base, box=True, tree="collision"))
    for i in (1, 2, 3):
        s.apply(("add", i, 10 + i, 0))
    s.apply(("setactive", 3)); s.apply(("rm", 0, 0)); s.apply(("tupd", None)); st = s.state()
    res["evictClamp"] = (st["nact"] <= st["N"])
    res["F4h"] = dict(N=st["N"], N_active=st["nact"], ids=[p[0] for p in st["ps"]])
    res["F18"] = dict(tree_root_after_last_removal=t1, tree_root_after_remove_all=t2)
    return res


# ----------------------------------------------------------------------------- MERCURIUS private state (outside the Lean model: search only)
def mercurius_probe(c, rebound):
    """an invalid removal must leave the integrator's per-particle arrays alone as well"""
    import warnings
    sim = rebound.Simulation()
    sim.add(m=1.); sim.add(m=1e-3, a=1.); sim.add(m=2e-3, a=2.); sim.add(m=3e-3, a=3.5)
    sim.integrator = "mercurius"
    sim.dt = 0.01
    sim.integrate(0.05)
    rim = sim.ri_mercurius
    n = sim.N
    if rim._N_allocated_dcrit < n:
        return
    before = [rim._dcrit[i] for i in range(n)]
    for idx in (n + 3, -1):
        with warnings.catch_warnings():
            warnings.simplefilter("ignore")
            try:
                sim.remove(index=idx)
                out = "removed"
            except RuntimeError as e:
                out = msg_kind(str(e))
        after = [rim._dcrit[i] for i in range(sim.N)]
        c.count(("mercurius-invalid-remove", idx < 0))
        if out != "errRange" or sim.N != n or after != before:
            c.violation("F4e:invalid-remove-under-mercurius-shifts-dcrit",
                        "MERCURIUS after integrate(0.05), sim.remove(index=%d) with N=%d: answered %s, N=%d, dcrit %s -> %s" % (
                            idx, n, out, sim.N, ["%.3g" % x for x in before], ["%.3g" % x for x in after]),
                        {"index": idx, "dcrit_before": before, "dcrit_after": after})
            before = after


# ----------------------------------------------------------------------------- history generator
def cfg_case(cfg, python_api):
    b = cfg["bulk"]
    bc = "0" if b == 0 else "lt128" if b < 128 else "gt128" if b < 256 else "gt256" if b < 512 else "gt512" if b < 1024 else "gt1024"
    return dict(api="python" if python_api else "C", tree=cfg["tree"], box=int(bool(cfg["box"])), boundary=cfg["boundary"],
                integrator=cfg["integrator"] if cfg["integrator"] in ("ias15", "whfast", "leapfrog", "mercurius", "trace") else "ias15",
                hashes=cfg["hashes"], malformed=int(bool(cfg["malformed"])), use_active=int(bool(cfg["use_active"])), bulk=bc)


def case_cfg(case, rng):
    return dict(tree=case["tree"], box=bool(case["box"]), boundary=case["boundary"], integrator=case["integrator"], hashes=case["hashes"],
                malformed=bool(case["malformed"]), use_active=bool(case["use_active"]), bulk=rng.choice(BULK_CLASS[case["bulk"]]))


def gen_cfg(rng, python_api=False):
    tree = rng.choice(["none", "none", "none", "gravity", "collision", "linetree"])
    box = True if tree != "none" else rng.chance(0.3)
    if tree != "none" and not python_api and rng.chance(0.12):
        box = False                                   # errNoBox path
    boundary = "open" if (box and rng.chance(0.3)) else "none"
    integrator = rng.choice(["ias15", "ias15", "whfast", "mercurius", "trace", "leapfrog"])
    return dict(tree=tree, box=box, boundary=boundary, integrator=integrator,
                hashes=rng.choice(["unique", "dups", "zeros", "mixed"]),
                malformed=rng.chance(0.25), use_active=rng.chance(0.5),
                bulk=rng.choice([0, 0, 0, 0, 126, 127, 130, 254, 258, 520]) if not python_api else rng.choice([0, 0, 0, 126, 130, 258]))


class Gen:
    def __init__(self, rng, cfg, names=None):
        self.rng, self.cfg = rng, cfg
        self.next_id = 1
        self.names = names          # list of strings for the Python API (hash by name)
        self.pool = [rng.randint(1, 0xFFFFFFFF) for _ in range(4)] + [1, 0xFFFFFFFF]
        if names:
            self.pool = [rng.choice(names) for _ in range(3)] + self.pool[:3]

    def new_hash(self):
        r, m = self.rng, self.cfg["hashes"]
        if m == "unique":
            if self.names and r.chance(0.5):
                return r.choice(self.names)
            return r.randint(1, 0xFFFFFFFF)
        if m == "dups":
            return r.choice(self.pool)
        if m == "zeros":
            return 0 if r.chance(0.6) else r.randint(1, 0xFFFFFFFF)
        x = r.uniform()
        return 0 if x < 0.25 else (r.choice(self.pool) if x < 0.6 else r.randint(1, 0xFFFFFFFF))

    def add_op(self, st):
        geo = 0
        if self.cfg["boundary"] != "none" and self.rng.chance(0.1):
            geo = 1
        elif self.cfg["tree"] != "none" and self.cfg["boundary"] == "none" and self.cfg["box"] and self.rng.chance(0.1):
            geo = 2
        ident = self.next_id
        self.next_id += 1
        return ("add", ident, self.new_hash(), geo)

    def some_hash(self, st, present):
        r = self.rng
        if present and st["ps"]:
            return r.choice(st["ps"])[1]
        return r.choice([0, 1, 12345, 0xFFFFFFFF, r.randint(0, 0xFFFFFFFF)] + self.pool[:2])

    def next_op(self, st):
        op = self.next_op0(st)
        merc = self.cfg["integrator"] == "mercurius"
        can_step = merc and self.cfg["tree"] == "none" and st["N"] >= 2 and st["nvar"] == 0 and st["nact"] != 0 \
            and not getattr(self, "had_var", False)
        if merc and op[0] in ("rm", "rmh") and 0 < len(st["dcrit"]) < st["N"] and not DCRIT_BOUNDED:
            # F4g: the dcrit shift loop would run past the allocation (heap overflow in this process): never executed here,
            # the witness runs in the harness under valgrind/ASan
            return ("istep",) if can_step else self.add_op(st)
        if can_step and self.rng.chance(0.08):
            return ("istep",)
        if self.cfg["tree"] == "none" and st["nvar"] == 0 and 1 <= st["N"] <= 40 and self.rng.chance(0.03):
            self.had_var = True                  # (MERCURIUS refuses to step once a variational configuration exists)
            return ("addvar",)
        if self.cfg["tree"] != "none" and self.cfg["box"] and (st["troot"] or self.rng.chance(0.3)) and self.rng.chance(0.07) \
                and sum(1 for p in st["ps"] if p[2]) <= 6:
            return ("tupd", None)
        return op

    def next_op0(self, st):
        r, n = self.rng, st["N"]
        bad = self.cfg["malformed"] and r.chance(0.3)
        x = r.uniform()
        small = n < 3
        if x < (0.35 if small else 0.25):
            return self.add_op(st)
        if x < 0.45:
            if bad or n == 0:
                idx = r.choice([-1, -2, n, n + 1, n + 4, 5, 1 << 20, -(1 << 31), (1 << 31) - 1])
            else:
                idx = r.choice([0, n - 1, r.randint(0, n - 1), r.randint(0, n - 1)])
            return ("rm", idx, r.randint(0, 1))
        if x < 0.60:
            return ("rmh", self.some_hash(st, not bad), r.randint(0, 1))
        if x < 0.80:
            return ("get", self.some_hash(st, not bad and r.chance(0.8)))
        if x < 0.90:
            if n == 0 or bad:
                return ("sethash", r.choice([n, n + 3]), self.new_hash())
            return ("sethash", r.randint(0, n - 1), self.new_hash())
        if x < 0.97:
            if self.cfg["use_active"]:
                return ("setactive", r.choice([-1, 0, n, r.randint(0, n), r.randint(0, n)]) if not bad else r.choice([n + 1, -2]))
            return self.add_op(st)
        if x < 0.985:
            if st["troot"] and not RESET_TREE:
                return self.add_op(st)       # remove_all keeps the tree (F18a): continuing would be undefined behaviour; see mem_replay
            return ("rmall",)
        if self.cfg["tree"] == "none":
            return ("setnvar", 0 if st["nvar"] else r.choice([1, 2]))
        return self.add_op(st)


def infer_visit(before, after):
    """the order in which the tree walk evicted the flagged particles, as array positions at the time of each
    eviction (swap-with-last), reconstructed from the particle array before and after the update"""
    import itertools
    flagged = [p for p in before if p[2]]
    if len(flagged) > 7:
        return None
    for order in itertools.permutations(flagged):
        cur, visit, n = list(before), [], len(before)
        for p in order:
            q = cur.index(p, 0, n) if p in cur[:n] else -1
            if q < 0:
                break
            visit.append(q)
            n -= 1
            cur[q] = cur[n]                       # the slot n keeps its content (it is stale from now on)
        if cur == list(after):
            return visit
    return None


def call_shape_ops(case):
    """the operations of one cell of the call-shape factorial: build the state, issue the request, then add + look up"""
    n = case["N"]
    ops = [("add", i + 1, 1000 + i, 0) for i in range(n)]
    if case["nact"] == "lt":
        ops.append(("setactive", n - 1))
    elif case["nact"] == "eq":
        ops.append(("setactive", n))
    if case["nvar"]:
        ops.append(("setnvar", 1))
    o = case["op"]
    ops.append({"add": ("add", 50, 1050, 0), "rm_valid_sorted": ("rm", n // 2, 1), "rm_valid_unsorted": ("rm", n // 2, 0),
                "rm_neg": ("rm", -1, 1), "rm_big": ("rm", n + 2, 0), "rmh_present_sorted": ("rmh", 1000 + n - 1, 1),
                "rmh_present_unsorted": ("rmh", 1000, 0), "rmh_absent": ("rmh", 77, 1), "get_present": ("get", 1000),
                "get_absent": ("get", 77), "sethash": ("sethash", n - 1, 4242), "rmall": ("rmall",), "tupd": ("tupd", None)}[o])
    if case["nvar"]:
        ops.append(("setnvar", 0))
    ops += [("add", 900, 1900, 0), ("get", 1900)]
    if case["tree"]:
        ops.append(("tupd", None))
    ops.append(("get", 1000))
    return ops


def run_call_shapes(c, rebound, stats, lines, expect, meta):
    """full factorial of the factors closest to the mechanism (API x tree x hybrid integrator x N_active x N x N_var x request):
    every admissible cell in the thorough tier, a seed-rotated quarter in the quick tier"""
    G = PAIRS.groups["call_shape"]
    names = list(G["factors"])
    cells = [{}]
    for f in names:
        cells = [dict(k, **{f: v}) for k in cells for v in G["factors"][f]]
    cells = [k for k in cells if PAIRS.admissible("call_shape", k)]
    total = len(cells)
    if not c.thorough:
        cells = [k for i, k in enumerate(cells) if i % 4 == c.seed % 4]
    n = 0
    for i, case in enumerate(cells):
        if case["op"] == "rmall" and case["tree"] and not RESET_TREE:
            continue
        cfg = dict(tree="collision" if case["tree"] else "none", box=bool(case["tree"]), boundary="none",
                   integrator=case["forced"] if case["forced"] != "none" else "ias15", hashes="unique", malformed=False,
                   use_active=True, bulk=0)
        ops = call_shape_ops(case)
        run_history(c, rebound, cfg, len(ops), case["api"] == "python", stats, lines, expect, meta, 300000 + i, fixed_ops=ops, note_cfg=False)
        PAIRS.note("call_shape", case)
        n += 1
    c.cov["call_shape_cells"] = {"admissible": total, "run": n}


# ----------------------------------------------------------------------------- one history on the real code + oracle
def run_history(c, rebound, cfg, nops, python_api, stats, lines, expect, meta, hid, fixed_ops=None, note_cfg=True):
    rng = c.rng.fork()
    sim = (PySim if python_api else CSim)(rebound, cfg)
    ref = Ref(cfg)
    gen = Gen(rng, cfg, names=(sorted(sim.names) if python_api else None))
    lines.append("new %d %d %d %d" % (cfg["tree"] != "none", cfg["box"], cfg["integrator"] in ("mercurius", "trace"),
                                      cfg["integrator"] == "mercurius"))
    st = sim.state()
    st["forced"] = ref.forced
    expect.append(fmt_state("done", st))
    meta.append((hid, -1, ("new",), cfg))
    history = []
    prev_kind = None
    if note_cfg:
        PAIRS.note("tie_config", cfg_case(cfg, python_api))
    python_api_skip_cb = False
    sim.freed[:] = []
    progress({"history": hid, "python_api": python_api, "cfg": cfg})
    ops_planned = [None] * cfg["bulk"] + [None] * nops
    for step_i in range(len(ops_planned)):
        if fixed_ops is not None:
            op = fixed_ops[step_i]
        else:
            op = gen.add_op(st) if step_i < cfg["bulk"] else gen.next_op(st)
        if python_api and op[0] == "setnvar" and fixed_ops is None:
            op = gen.add_op(st)
        history.append(op)
        progress({"op": op})
        if prev_kind is not None:
            PAIRS.note("event_adjacency", {"op_at_s": prev_kind, "op_at_s_plus_1": op[0]})
        prev_kind = op[0]
        if fixed_ops is None and step_i < cfg["bulk"] - 1 and cfg["bulk"] > 300:
            # long bulk starts: the adds are executed and fed to the model, the full observation is taken at the end of the bulk
            sim.apply(op); ref.add(op[1], op[2], op[3]); sim.freed[:] = []
            lines.append(model_line(op, st)); expect.append("*"); meta.append((hid, step_i, op, None))
            stats["ops"][op[0]] = stats["ops"].get(op[0], 0) + 1
            c.count(None, nontrivial=False)
            if step_i == cfg["bulk"] - 2:
                st = sim.state(); st["forced"] = ref.forced
                ref.tree_root = bool(st["troot"])
                ref.ps = [list(q_) for q_ in st["ps"]]
            continue
        shape = shape_of(op, st)
        before = st
        out, msgs = sim.apply(op)
        st = sim.state()
        st["forced"] = ref.forced
        if op[0] == "tupd":
            visit = infer_visit(before["ps"], st["ps"] + st["stale"][:before["N"] - st["N"]])
            if visit is None:
                stats["tupd_unexplained"] += 1
                visit = []
            op = ("tupd", visit)
            history[-1] = op
        if op[0] == "addvar":
            nreal = before["N"] - before["nvar"]
            for _ in range(nreal):
                lines.append("add 0 0 0"); expect.append("*"); meta.append((hid, step_i, op, None))
            lines.append("setnvar %d" % (before["nvar"] + nreal))
        else:
            lines.append(model_line(op, st))
        expect.append(fmt_state(out, st))
        meta.append((hid, step_i, op, None))
        stats["ops"][op[0]] = stats["ops"].get(op[0], 0) + 1
        stats["outs"][out.split(":")[0]] = stats["outs"].get(out.split(":")[0], 0) + 1
        stats["maxN"] = max(stats["maxN"], st["N"])
        if st["nalloc"] != before["nalloc"]:
            stats["growth"][str(st["nalloc"])] = stats["growth"].get(str(st["nalloc"]), 0) + 1
        nontriv = before["N"] >= 2 or op[0] == "add"
        c.count((op[0], out.split(":")[0], min(before["N"], 4), cfg["tree"] != "none", ref.forced,
                 before["nact"] >= 0, cfg["hashes"], python_api), nontrivial=nontriv)
        # ---------------- search: documented behaviour on a plain list
        want = None
        k = op[0]
        ref.freed = []
        freed_now, sim.freed[:] = list(sim.freed), []
        if k == "add":
            want = ref.add(op[1], op[2], op[3])
        elif k == "rm":
            want = ref.remove(op[1], op[2])
        elif k == "rmh":
            cands = ref.with_hash(op[1])
            if not cands:
                want = "errNotFound"
            else:
                # the implementation may pick any particle carrying the hash: accept the candidate that
                # reproduces the observed array, else the first one
                pick = cands[0]
                for i in cands:
                    r2 = Ref.__new__(Ref); r2.__dict__ = json.loads(json.dumps(ref.__dict__))
                    r2.remove(i, op[2])
                    if [tuple(p) for p in r2.ps] == st["ps"]:
                        if r2.active == st["nact"] and (not freed_now or freed_now == [ref.ps[i][0]]):
                            pick = i              # identical particles (e.g. variational zero particles) can differ in being active
                            break
                        if pick == cands[0]:
                            pick = i
                if len(cands) > 1:
                    stats["dup_removals"] += 1
                want = ref.remove(pick, op[2])
        elif k == "get":
            cands = ref.with_hash(op[1])
            if out.startswith("found:"):
                i = int(out[6:])
                want = out if i in cands else ("found-one-of:%s" % cands[:5] if cands else "notFound")
                if len(cands) > 1:
                    stats["dup_lookups"] += 1
                if op[1] == 0:
                    stats["zero_lookups"] += 1
            else:
                want = "notFound" if not cands else "found-one-of:%s" % cands[:5]
        elif k == "sethash":
            want = ref.set_hash(op[1], op[2])
        elif k == "setactive":
            want = ref.set_active(op[1])
        elif k == "setnvar":
            ref.nvar = op[1]
            want = "done"
        elif k == "rmall":
            want = ref.remove_all()
        elif k == "tupd":
            want = ref.tree_update()
            if sorted(tuple(p) for p in ref.ps) == sorted(st["ps"]):
                ref.ps = [list(p) for p in st["ps"]]       # the order is the tree walk's business
        elif k == "istep":
            want = ref.integrator_step(st["dcrit"])
        elif k == "addvar":
            # reb_simulation_add_variation_1st_order(r, -1): one zero particle per real particle, all counted in N_var
            nreal = len(ref.ps) - ref.nvar
            ref.ps += [[0, 0, 0] for _ in range(nreal)]
            ref.nvar += nreal
            want = "done"
        got_snap = (st["N"], st["nact"], st["nvar"], bool(st["troot"]), st["ps"])
        ok = (want == out and ref.snapshot() == got_snap)
        if ok and k in ("rm", "rmh") and sorted(freed_now) != sorted(getattr(ref, "freed", [])) and not python_api_skip_cb:
            ok = False
            want = "%s with free_particle_ap called for %s (was called for %s)" % (want, getattr(ref, "freed", []), freed_now)
        elif ok and k not in ("rm", "rmh") and freed_now:
            ok = False
            want = "%s without any free_particle_ap call (was called for %s)" % (want, freed_now)
        dc_ok = (not ref.mercurius) or st["dcrit"][:len(ref.dc)] == ref.dc
        sig = None
        if ok and not dc_ok:
            ok = False
            # signature of F4g (second half): a refused removal, everything as before except dcrit, shifted at the index
            if k in ("rm", "rmh") and out in ("errMegno", "errTreeSorted") and before["dcrit"]:
                sig = "F4g:refused-removal-under-mercurius-shifts-dcrit"
        if not ok and k == "tupd" and want == out and st["nact"] == before["nact"] and st["nact"] > st["N"] \
                and (st["N"], st["nvar"], bool(st["troot"]), st["ps"]) == (len(ref.ps), ref.nvar, ref.tree_root, [tuple(p) for p in ref.ps]):
            sig = "F4h:tree-update-eviction-leaves-N_active-above-N"
        if st["ap_bad"] and not python_api:
            c.violation("C14:ap-does-not-travel-with-particle", "%s: after %s the ap pointer of the particle at index %d (id %d) is %d" % (
                "C API", op, st["ap_bad"][0][0], st["ap_bad"][0][1], st["ap_bad"][0][2]), dict(cfg=cfg, history=history))
        if not python_api:
            stats["ap_checked"] += sum(1 for q_ in st["ps"] if q_[0])
        inv = lambda q: q["N"] <= q["nalloc"] and (q["nact"] == -1 or 0 <= q["nact"] <= q["N"])
        inv_ok = inv(st) or not inv(before)      # an operation must not *break* the invariants
        if not ok or not inv_ok:
            what = "%s: %s with N=%d N_active=%d tree_root=%d: implementation answered %s and holds N=%d N_active=%d ids=%s; documented behaviour: %s N=%d N_active=%d ids=%s" % (
                "python API" if python_api else "C API", op, before["N"], before["nact"], before["troot"], out, st["N"], st["nact"],
                [p[0] for p in st["ps"]][:8], want, len(ref.ps), ref.active, [p[0] for p in ref.ps][:8])
            key = sig or shape or ("C14:%s:%s-vs-%s%s" % (k, out.split(":")[0], str(want).split(":")[0], "" if dc_ok else ":dcrit"))
            stats["deviations"][key] = stats["deviations"].get(key, 0) + 1
            c.violation(key, what, dict(cfg=cfg, python_api=python_api, history=history, seed=c.seed))
            # resynchronise the oracle with the implementation and go on
            ref.ps = [list(p) for p in st["ps"]]
            ref.active, ref.nvar, ref.tree_root = st["nact"], st["nvar"], bool(st["troot"])
            ref.dc = list(st["dcrit"][:min(len(ref.dc), st["N"])])
            if shape and shape.startswith("F4b"):
                break       # the tree now refers to shifted indices; continuing would test tree.c, not C14
        elif shape:
            stats["shapes_clean"][shape] = stats["shapes_clean"].get(shape, 0) + 1
        if out.startswith("msg?") or "+" in out or out.startswith("rc"):
            stats["odd_outs"].append((out, op, before["N"]))
    return history


# ----------------------------------------------------------------------------- reb_hash
def murmur3_ref(data, seed=1983):
    """MurmurHash3_x86_32 as published (Appleby, public domain), written from the specification; the
    oracle for `reb_hash` values, which are persisted in archives and therefore must not drift"""
    M = 0xFFFFFFFF
    h = seed
    n = len(data) // 4
    for i in range(n):
        k = int.from_bytes(data[4 * i:4 * i + 4], "little")
        k = (k * 0xcc9e2d51) & M
        k = ((k << 15) | (k >> 17)) & M
        k = (k * 0x1b873593) & M
        h ^= k
        h = ((h << 13) | (h >> 19)) & M
        h = (h * 5 + 0xe6546b64) & M
    t = data[4 * n:]
    k = 0
    if len(t) == 3:
        k ^= t[2] << 16
    if len(t) >= 2:
        k ^= t[1] << 8
    if len(t) >= 1:
        k ^= t[0]
        k = (k * 0xcc9e2d51) & M
        k = ((k << 15) | (k >> 17)) & M
        k = (k * 0x1b873593) & M
        h ^= k
    h ^= len(data)
    h ^= h >> 16
    h = (h * 0x85ebca6b) & M
    h ^= h >> 13
    h = (h * 0xc2b2ae35) & M
    h ^= h >> 16
    return h


def hash_cases(rng, n):
    fixed = [b"", b"a", b"ab", b"abc", b"abcd", b"abcde", b"planet1", b"earth", b"Sun", b"hello",
             b"\x80", b"\xff\xff\xff\xff", b"\xff\xfe\xfd", b"\x7f" * 7, b"a" * 255, b"a" * 256, b"a" * 1023,
             b"abc\x00def", b"\x00", b"\x00abc", bytes(range(1, 256))]
    out = list(fixed)
    for _ in range(n):
        ln = rng.choice([1, 2, 3, 4, 5, 6, 7, 8, 9, 12, 13, 15, 16, 17, 31, 33, 64, 100])
        kind = rng.randint(0, 3)
        if kind == 0:
            b = bytes(rng.randint(32, 126) for _ in range(ln))
        elif kind == 1:
            b = bytes(rng.randint(1, 255) for _ in range(ln))
        elif kind == 2:
            b = bytes(rng.choice([0x80, 0xff, 0x7f, 0x01, 0xfe]) for _ in range(ln))
        else:
            b = bytes(rng.randint(0, 255) for _ in range(ln))    # may contain NUL: strlen cuts
        out.append(b)
    return out


# ----------------------------------------------------------------------------- ASan replay (thorough)
HARNESS = os.path.join(ROOT, "harness", "c14_ops.c")


def replay_text(histories):
    text = []
    for cfg, hist in histories:
        tree = {"none": 0, "gravity": 1, "collision": 2, "linetree": 3}[cfg["tree"]]
        integ = {"ias15": 0, "whfast": 1, "mercurius": 9, "trace": 25, "leapfrog": 4}[cfg["integrator"]]
        text.append("new %d %d %d %d" % (tree, cfg["box"], cfg["boundary"] != "none", integ))
        for op in hist:
            if op[0] == "add":
                x, y, z = pos_of(op[1]) if op[3] == 0 else (BOX * 0.75, 0.1 * (op[1] % 7), 0.0)
                text.append("add %d %d %s %s %s" % (op[1], op[2], d2h(x), d2h(y), d2h(z)))
            elif op[0] == "tupd":
                text.append("tupd")
            elif op[0] == "addvar":
                text.append("addvar")
            elif op[0] == "istep":
                text.append("integrate 1")
            else:
                text.append(" ".join(str(t) for t in op))
    return text


class MemReplay:
    """histories through harness/c14_ops.c: under valgrind memcheck against the normal scratch build
    (quick tier) or natively against an ASan+UBSan build of the scratch tree (thorough tier)."""

    def __init__(self, d_plain, sanitize):
        self.sanitize = sanitize
        if sanitize:
            d = build(python_pkg=False, sanitize=True)
            so = os.path.join(d, "librebound" + SUFFIX)
            self.exe = os.path.join(d, "c14_ops_asan")
            p = subprocess.run(["clang", "-O1", "-g", "-fsanitize=address,undefined", "-fno-omit-frame-pointer", "-w",
                                "-I", os.path.join(d, "src"), HARNESS, so, "-Wl,-rpath," + d, "-lm", "-lpthread", "-o", self.exe],
                               capture_output=True, text=True)
            if p.returncode != 0:
                raise Infra("asan harness compile failed: " + p.stderr[:2000])
            self.cmd = [self.exe]
        else:
            self.exe = compile_harness(d_plain, HARNESS, os.path.join(d_plain, "c14_ops"))
            self.cmd = ["valgrind", "-q", "--error-exitcode=97", "--errors-for-leak-kinds=none", "--leak-check=no", self.exe]

    def run(self, histories, timeout=1500):
        return self.run_text(replay_text(histories), timeout)

    def run_text(self, text, timeout=1500):
        # qsort(NULL, 0, ..) in reb_update_particle_lookup_table (lookup in a simulation that never had a table) is flagged by
        # UBSan through glibc's nonnull attribute; it touches no memory and is reported in the notes, not as a violation
        supp = os.path.join(os.path.dirname(self.exe), "ubsan.supp")
        with open(supp, "w") as f:
            f.write("nonnull-attribute:reb_update_particle_lookup_table\n")
        env = dict(os.environ, ASAN_OPTIONS="detect_leaks=0:halt_on_error=1",
                   UBSAN_OPTIONS="print_stacktrace=1:halt_on_error=1:suppressions=" + supp)
        try:
            q = subprocess.run(self.cmd, input="\n".join(text) + "\nend\n", capture_output=True, text=True, env=env, timeout=timeout)
        except subprocess.TimeoutExpired:
            return dict(bad=True, report="timeout", ops=len(text), answers=0, rc=None)
        rep = q.stderr
        bad = (q.returncode != 0 or "ERROR: AddressSanitizer" in rep or "runtime error" in rep
               or "Invalid read" in rep or "Invalid write" in rep or "uninitialised" in rep)
        return dict(bad=bad, report=rep[-2500:], ops=len(text), answers=len(q.stdout.splitlines()), rc=q.returncode,
                    out=q.stdout.splitlines())


# ----------------------------------------------------------------------------- pairwise coverage of explicit factors
class PairCov:
    """explicit factors with finite value sets per generator group; which pairs of values were generated"""

    def __init__(self):
        self.groups = {}

    def declare(self, group, factors, excluded=None, why=None):
        """factors: {name: [values]}; excluded(f, a, g, b) -> reason string or None (symmetric use: called with f < g in
        declaration order)"""
        self.groups[group] = dict(factors=factors, excluded=excluded or (lambda f, a, g, b: None), seen=set(), cases=0, why=why or {})

    def admissible(self, group, case):
        G = self.groups[group]
        names = list(G["factors"])
        for i, f in enumerate(names):
            for g in names[i + 1:]:
                if f in case and g in case and G["excluded"](f, case[f], g, case[g]):
                    return False
        return True

    def note(self, group, case):
        G = self.groups[group]
        names = [f for f in G["factors"] if f in case]
        G["cases"] += 1
        for i, f in enumerate(names):
            for g in names[i + 1:]:
                G["seen"].add((f, case[f], g, case[g]))

    def array(self, group, rng, ncand=120, extra_ok=None):
        """greedy all-pairs covering array: repeatedly take, out of `ncand` random admissible candidates, the case that covers
        most pairs not covered yet"""
        G = self.groups[group]
        names = list(G["factors"])
        need = set()
        for i, f in enumerate(names):
            for g in names[i + 1:]:
                for a in G["factors"][f]:
                    for b in G["factors"][g]:
                        if not G["excluded"](f, a, g, b):
                            need.add((f, a, g, b))
        rows = []
        stall = 0
        while need and stall < 6:
            best, bestn = None, 0
            for _ in range(ncand):
                case = {f: rng.choice(G["factors"][f]) for f in names}
                if not self.admissible(group, case) or (extra_ok and not extra_ok(case)):
                    continue
                n = sum(1 for i, f in enumerate(names) for g in names[i + 1:] if (f, case[f], g, case[g]) in need)
                if n > bestn:
                    best, bestn = case, n
            if best is None:
                stall += 1
                continue
            stall = 0
            rows.append(best)
            for i, f in enumerate(names):
                for g in names[i + 1:]:
                    need.discard((f, best[f], g, best[g]))
        return rows

    def summary(self):
        out, covered, total, excluded, missing = {}, 0, 0, 0, []
        for gname, G in self.groups.items():
            names = list(G["factors"])
            gc = gt = ge = 0
            for i, f in enumerate(names):
                for g in names[i + 1:]:
                    for a in G["factors"][f]:
                        for b in G["factors"][g]:
                            if G["excluded"](f, a, g, b):
                                ge += 1
                                continue
                            gt += 1
                            if (f, a, g, b) in G["seen"]:
                                gc += 1
                            elif len(missing) < 25:
                                missing.append([gname, f, a, g, b])
            out[gname] = {"covered": gc, "total": gt, "excluded": ge, "cases": G["cases"], "factors": {f: len(v) for f, v in G["factors"].items()}}
            covered += gc; total += gt; excluded += ge
        return dict(covered=covered, total=total, excluded=excluded, groups=out, missing=missing)


PAIRS = PairCov()
BULK_CLASS = {"0": [0], "lt128": [126, 127], "gt128": [130], "gt256": [254, 258], "gt512": [520], "gt1024": [1030]}


def declare_factors():
    def ex_cfg(f, a, g, b):
        v = {f: a, g: b}
        if v.get("boundary") == "open" and v.get("box") == 0:
            return "an open boundary needs a configured box"
        if v.get("api") == "python" and v.get("bulk") in ("gt512", "gt1024"):
            return "bulk starts above 512 are run through the C API only (time)"
        if v.get("tree") == "none" and "box" not in v and False:
            return None
        return None
    PAIRS.declare("tie_config", dict(api=["C", "python"], tree=["none", "gravity", "collision", "linetree"], box=[0, 1],
                                     boundary=["none", "open"], integrator=["ias15", "whfast", "leapfrog", "mercurius", "trace"],
                                     hashes=["unique", "dups", "zeros", "mixed"], malformed=[0, 1], use_active=[0, 1],
                                     bulk=list(BULK_CLASS)), ex_cfg)

    def ex_shape(f, a, g, b):
        v = {f: a, g: b}
        n, op = v.get("N"), v.get("op")
        if v.get("nact") == "lt" and n == 0:
            return "0 <= N_active < N needs N >= 1"
        if n == 0 and op in ("rm_valid_sorted", "rm_valid_unsorted", "rmh_present_sorted", "rmh_present_unsorted", "get_present", "sethash"):
            return "no valid target in an empty simulation"
        if op == "tupd" and v.get("tree") == 0:
            return "a tree update needs a tree"
        if v.get("nvar") == 1 and v.get("api") == "python":
            return "N_var is written through the C-level histories only"
        if v.get("nvar") == 1 and n == 0:
            return "N_var <= N"
        return None
    PAIRS.declare("call_shape", dict(api=["C", "python"], tree=[0, 1], forced=["none", "mercurius", "trace"], nact=["unset", "lt", "eq"],
                                     N=[0, 1, 2, 3], nvar=[0, 1],
                                     op=["add", "rm_valid_sorted", "rm_valid_unsorted", "rm_neg", "rm_big", "rmh_present_sorted",
                                         "rmh_present_unsorted", "rmh_absent", "get_present", "get_absent", "sethash", "rmall", "tupd"]), ex_shape)

    kinds = ["add", "rm", "rmh", "get", "sethash", "setactive", "setnvar", "rmall", "tupd", "istep", "addvar"]
    def ex_adj(f, a, g, b):
        tree_only, notree_only = {"tupd"}, {"istep", "addvar", "setnvar"}
        if (a in tree_only and b in notree_only) or (b in tree_only and a in notree_only):
            return "tree update needs a tree; MERCURIUS steps / variations / N_var writes are generated without a tree"
        if "istep" in (a, b) and ("addvar" in (a, b) or "setnvar" in (a, b)):
            return "MERCURIUS refuses to step with variational particles"
        if (a, b) == ("addvar", "addvar"):
            return "a second add_variation needs N_var == 0 again"
        if a == "rmall" and b in ("istep", "addvar"):
            return "a MERCURIUS step needs N >= 2 and add_variation N >= 1: not possible straight after remove_all"
        return None
    PAIRS.declare("event_adjacency", dict(op_at_s=kinds, op_at_s_plus_1=kinds), ex_adj)

    def ex_step(f, a, g, b):
        v = {f: a, g: b}
        if v.get("integrator") == "none" and v.get("variant", "default") != "default":
            return "the options are not read without an integrator"
        if v.get("integrator") == "none" and v.get("event") == "merge_midstep_add":
            return None
        return None
    PAIRS.declare("step_history", dict(integrator=list(INTEGRATORS), variant=["default", "safe_mode0", "negative_dt", "testparticle_type1"],
                                       nactive=["unset", "set"], massless=[0, 1]), ex_step)
    PAIRS.declare("step_adjacency", dict(integrator=list(INTEGRATORS), op_before_step=["add", "rm_sorted", "rm_unsorted", "rmh", "invalid", "rmall", "set_nactive"]))

    def ex_int(f, a, g, b):
        v = {f: a, g: b}
        if v.get("integrator") in ("mercurius", "trace") and v.get("search") in ("tree", "linetree"):
            return "hybrid integrators force keep_sorted, a tree refuses sorted removal: every merge is refused (documented error)"
        if v.get("search") == "boundary_open" and v.get("resolver", "merge") != "merge":
            return "no collision search, the resolver is never called"
        if v.get("integrator") == "janus" and False:
            return None
        return None
    PAIRS.declare("internal_removal", dict(integrator=["ias15", "leapfrog", "whfast", "mercurius", "trace", "bs"],
                                           search=["direct", "line", "tree", "linetree", "boundary_open"], keep_sorted=[0, 1],
                                           resolver=["merge", "merge_addfrag", "addfrag_merge"], nactive=["unset", "set"], track_energy=[0, 1]), ex_int)


# ----------------------------------------------------------------------------- public entry points that reach the mechanism
ENTRY_RE = r"reb_simulation_(?:add(?:_fmt|_plummer|_variation_\w+)?|remove_\w+|particle_by_hash\w*|particle_index|init_megno\w*|update_tree|[gs]et_serialized_particle_data)|reb_hash"
EXERCISED = set()


def extract_entry_points():
    """C: DLLEXPORT functions of src/rebound.h whose name says they add / remove / look up particles, hash names or re-index
    them; Python: the methods of rebound/*.py that call one of those (by source), the container class, rebound.hash"""
    import re
    hdr = open(os.path.join(REPO, "src", "rebound.h")).read()
    cfun = sorted(set(m for m in re.findall(r"^DLLEXPORT[^;(]*?\b(\w+)\s*\(", hdr, flags=re.M) if re.fullmatch(ENTRY_RE, m)))
    py = set()
    for fn in ("simulation.py", "particle.py", "particles.py", "hash.py"):
        src = open(os.path.join(REPO, "rebound", fn)).read()
        cls = None
        blocks = re.split(r"^(?=(?:class |    def |def ))", src, flags=re.M)
        for b in blocks:
            mc = re.match(r"class (\w+)", b)
            if mc:
                cls = mc.group(1)
                continue
            md = re.match(r"(    )?def (\w+)", b)
            if not md:
                continue
            name = (cls + "." if (md.group(1) and cls) else "") + md.group(2)
            if fn == "particles.py" and md.group(2).startswith("__") and md.group(2) != "__init__":
                py.add(name)
            elif re.search(r"clibrebound\.(" + ENTRY_RE + r")\b", b) and fn != "units.py" and md.group(2) not in ("units", "convert_particle_units"):
                py.add(name)
    return cfun, sorted(py)


def entry_point_smoke(c, rebound, mr, dims):
    """the entry points no generated history goes through, each with the lookup oracle"""
    import numpy as np, warnings
    clib = rebound.clibrebound
    with warnings.catch_warnings():
        warnings.simplefilter("ignore")
        sim = rebound.Simulation()
        for i in range(5):
            sim.add(m=float(i + 1), x=float(i), vy=0.1 * i, hash=500 + i)
        _ = sim.particles[ctypes.c_uint32(502)]                      # table built
        # reb_simulation_particle_by_hash_mpi: a copy of the particle, or the NaN particle
        clib.reb_simulation_particle_by_hash_mpi.restype = rebound.Particle
        q = clib.reb_simulation_particle_by_hash_mpi(ctypes.byref(sim), ctypes.c_uint32(503)); EXERCISED.add("reb_simulation_particle_by_hash_mpi")
        q2 = clib.reb_simulation_particle_by_hash_mpi(ctypes.byref(sim), ctypes.c_uint32(77))
        if int(q.m) != 4 or q2.m == q2.m:
            c.violation("C14:entry:particle_by_hash_mpi", "reb_simulation_particle_by_hash_mpi(503) has m=%r, (77) has m=%r (expected 4 and NaN)" % (q.m, q2.m), {})
        # reb_simulation_particle_index / Particle.index
        clib.reb_simulation_particle_index.restype = ctypes.c_int
        for i in range(5):
            if clib.reb_simulation_particle_index(ctypes.byref(sim.particles[i])) != i or sim.particles[i].index != i:
                c.violation("C14:entry:particle_index", "reb_simulation_particle_index of particle %d" % i, {})
        EXERCISED.update(["reb_simulation_particle_index", "Particle.index"])
        # set / get serialized particle data: hashes rewritten behind the (now stale) table
        newh = np.array([900, 901, 902, 903, 904], dtype=np.uint32)
        sim.set_serialized_particle_data(hash=newh); EXERCISED.update(["reb_simulation_set_serialized_particle_data", "Simulation.set_serialized_particle_data"])
        got = np.zeros(5, dtype=np.uint32); sim.serialize_particle_data(hash=got)
        EXERCISED.update(["reb_simulation_get_serialized_particle_data", "Simulation.serialize_particle_data"])
        ok = list(got) == list(newh) and all(int(sim.particles[ctypes.c_uint32(900 + i)].m) == i + 1 for i in range(5))
        try:
            sim.particles[ctypes.c_uint32(502)]
            ok = False
        except rebound.ParticleNotFound:
            pass
        if not ok:
            c.violation("C14:entry:set_serialized_particle_data", "after set_serialized_particle_data(hash=…) the lookups do not follow the new hashes", {})
        sim.remove(hash=901); sim.add(m=9.0, x=9.0, hash=901)
        if [int(p.m) for p in sim.particles] != [1, 3, 4, 5, 9] or int(sim.particles[ctypes.c_uint32(901)].m) != 9:
            c.violation("C14:entry:set_serialized_particle_data", "remove/add by a hash assigned through set_serialized_particle_data", {})
        # variations of both orders and MEGNO: N, N_var, refusal of removals, lookups of the real particles
        sim = rebound.Simulation()
        for i in range(3):
            sim.add(m=1.0 if i == 0 else 1e-3, x=float(i), vy=(1.0 / i ** 0.5 if i else 0.0), hash=600 + i)
        v1 = sim.add_variation(); v1b = sim.add_variation(); v2 = sim.add_variation(order=2, first_order=v1, first_order_2=v1b)
        EXERCISED.update(["reb_simulation_add_variation_1st_order", "reb_simulation_add_variation_2nd_order", "Simulation.add_variation"])
        okv = sim.N == 12 and sim.N_var == 9 and sim.N_real == 3 and all(int(round(sim.particles[ctypes.c_uint32(600 + i)].x)) == i for i in range(3))
        try:
            sim.remove(1); okv = False
        except RuntimeError:
            pass
        if not okv or sim.N != 12:
            c.violation("C14:entry:add_variation", "after three add_variation calls: N=%d N_var=%d N_real=%d" % (sim.N, sim.N_var, sim.N_real), {})
        for seed in (None, 7):
            sim = rebound.Simulation()
            for i in range(3):
                sim.add(m=1.0 if i == 0 else 1e-3, x=float(i), vy=(1.0 / i ** 0.5 if i else 0.0), hash=600 + i)
            sim.init_megno(seed=seed) if seed is not None else sim.init_megno()
            if sim.N != 6 or sim.N_var != 3 or int(round(sim.particles[ctypes.c_uint32(602)].x)) != 2:
                c.violation("C14:entry:init_megno", "after init_megno(seed=%r): N=%d N_var=%d" % (seed, sim.N, sim.N_var), {})
        EXERCISED.update(["reb_simulation_init_megno", "reb_simulation_init_megno_seed", "Simulation.init_megno"])
        # Simulation.update_tree, Simulation.particles deleter
        sim = rebound.Simulation(); sim.configure_box(10.); sim.collision = "tree"
        for i in range(4):
            sim.add(m=1.0, x=i - 1.5, y=0.1 * i, hash=700 + i)
        sim.remove(1, keep_sorted=False); sim.update_tree(); EXERCISED.update(["Simulation.update_tree", "reb_simulation_update_tree"])
        if sim.N != 3 or sorted(p.hash.value for p in sim.particles) != [700, 702, 703]:
            c.violation("C14:entry:update_tree", "remove(1, keep_sorted=False) + update_tree leaves hashes %s" % sorted(p.hash.value for p in sim.particles), {})
        # Particle.orbit (asks reb_simulation_particle_index whether it is particle 0), Simulation.update_units (reb_hash of the unit names)
        sim = rebound.Simulation()
        sim.add(m=1.0); sim.add(m=1e-3, a=1.0, hash=801); sim.add(m=1e-3, a=2.0, hash=802)
        o_ = sim.particles[ctypes.c_uint32(802)].orbit()
        try:
            sim.particles[0].orbit(); bad0 = True
        except ValueError:
            bad0 = False
        if abs(o_.a - 2.0) > 1e-9 or bad0:
            c.violation("C14:entry:Particle.orbit", "orbit() of the particle found by hash 802 has a=%r; orbit() of particle 0 raises: %s" % (o_.a, not bad0), {})
        sim = rebound.Simulation()
        sim.units = ("AU", "yr", "Msun")
        u_ = sim.units
        if (u_["length"], u_["time"], u_["mass"]) != ("au", "yr", "msun") or sim.python_unit_l != rebound.hash("au").value:
            c.violation("C14:entry:update_units", "sim.units = ('AU','yr','Msun') reads back as %s" % (u_,), {})
        EXERCISED.update(["Particle.orbit", "Simulation.update_units"])
        # built-in data set through sim.add(str) (no network)
        sim = rebound.Simulation(); sim.add("outer solar system")
        if sim.N != 6 or any(p.hash.value == 0 for p in sim.particles) and False:
            c.violation("C14:entry:add_dataset", "sim.add('outer solar system') gives N=%d" % sim.N, {})
        dims["python:add_builtin_dataset"] = 1
    if mr is not None:
        L = ["new 0 0 0 0", "addfmt 5 1.0 0", "addfmt 6 0.001 1.5", "addfmt 7 0.001 2.5", "get 6", "rmh 6 1", "addplummer 40", "get 7", "rm 3 0", "get 5"]
        res = mr.run_text(L, timeout=300)
        o = [x.split() for x in res["out"]]
        okh = (not res["bad"]) and len(o) == len(L) and [x[1] for x in o] == ["0", "1", "2", "3", "3", "2", "42", "42", "41", "41"] \
            and o[4][0] == "1" and o[7][0] == "1" and o[9][0] == "0" and all(x[4] == "0" for x in o)
        EXERCISED.update(["reb_simulation_add_fmt", "reb_simulation_add_plummer"])
        if not okh:
            c.violation("C14:entry:add_fmt_add_plummer", "reb_simulation_add_fmt / reb_simulation_add_plummer histories: %s %s" % (res["out"], res["report"][:200]), {"lines": L})


# ----------------------------------------------------------------------------- cross-cutting dimensions
INTEGRATORS = {"ias15": 0, "whfast": 1, "leapfrog": 4, "janus": 8, "mercurius": 9, "saba": 10, "eos": 11, "bs": 12, "trace": 25, "none": 7}


# per-particle side array of each integrator as modelled in RV/Model/ParticlesSide.lean: (policy, slot 0 always written)
SIDE_KIND = {"whfast": ("exact", 1), "saba": ("exact", 1), "janus": ("exact", 0), "bs": ("exact", 0),
             "mercurius": ("grow", 0), "trace": ("grow", 0), "ias15": ("grow", 0)}
SIDE_QUERIES = []      # (driver line, observed allocation, context) collected by dims_harness, checked by side_array_tie
SKIP_EMPTY = {}        # integrator -> does its step leave the arrays alone when N == 0 (detected)


def collect_side_queries(integ, lines, out):
    if integ not in SIDE_KIND:
        return
    pol, s0 = SIDE_KIND[integ]
    prev = None
    for l, got in zip(lines, out):
        g = got.split()
        if len(g) < 6:
            return
        if l.startswith("step") and prev is not None:
            SIDE_QUERIES.append(("side %s %d %%d %d %d" % (pol, s0, prev, int(g[1])), int(g[5]), (integ, l)))
        prev = int(g[5])


def side_array_tie(c, mr, mr_valgrind, exe, dims):
    """RV.Particles.Side against the real code: the TRACE re-indexing loop on every (N, index), the allocation every
    integrator's step leaves behind, and the two read-before-write / empty-simulation witnesses"""
    # --- TRACE current_Ks: which loop is in the source?  (the Lean witness N = 4, index = 3 replayed), then every (N, index)
    nmax = 12 if c.thorough else 8
    L = ["ksprobe %d %d" % (n, i) for n in range(1, nmax + 1) for i in range(n)]
    res = mr.run_text(["new 0 0 0 0"] + L, timeout=600)
    got = {}
    for l, o in zip(L, [x for x in res["out"] if x.startswith("K ")]):
        t = o.split()
        got[l] = (int(t[1]), int(t[2]), ",".join(t[3:]) or "-")
    w = got.get("ksprobe 4 3")
    new_, old_ = run_driver(exe, ["ks 1 4 3", "ks 0 4 3"])
    reindexed = None if w is None else (True if w[2] == new_.strip() else (False if w[2] == old_.strip() else None))
    c.cov["variant_detected"]["ksReindexed"] = reindexed
    if res["bad"] or reindexed is None or len(got) != len(L):
        c.corr_break("TRACE current_Ks probe: %s" % (res["report"][:300] if res["bad"] else "the result for N=4, index=3 (%s) is neither loop of the model" % (w,)))
    else:
        model = run_driver(exe, ["ks %d %s" % (reindexed, l.split(" ", 1)[1]) for l in L])
        nd_ = 0
        for l, m_ in zip(L, model):
            n_, i_ = [int(x) for x in l.split()[1:]]
            c.count(("ksprobe", n_, i_ == n_ - 1), nontrivial=n_ >= 3)
            if got[l][2] != m_.strip() or got[l][0] != 1 or got[l][1] != n_ - 1:
                nd_ += 1
                if nd_ == 1:
                    c.corr_break("TRACE current_Ks re-indexing: N=%d index=%d: real code %s, model %s" % (n_, i_, got[l], m_.strip()),
                                 {"line": l, "impl": got[l], "model": m_})
        dims["side_arrays:trace_current_Ks_all_N_index"] = len(L)
        if not reindexed:
            c.violation("F22:trace-current_Ks-misaligned-after-removing-the-last-particle-mid-step",
                        "TRACE current_Ks after removing particle 3 of 4 mid-step: %s, row/column deleted would be %s" % (w[2], new_.strip()),
                        {"harness": "ksprobe 4 3", "impl": w[2], "spec": new_.strip()})
    # --- TRACE current_Ks when a particle is ADDED mid-step: every (N, size of the encounter); variant = Lean witness (3, encounter {star})
    nmax = 8 if c.thorough else 5
    L = ["ksadd %d %d" % (n, e_) for n in range(1, nmax + 1) for e_ in range(0, n + 1)]
    res = mr.run_text(["new 0 0 0 0"] + L, timeout=600)
    gotA = {}
    for l, o in zip(L, [x for x in res["out"] if x.startswith("A ")]):
        t = o.split()
        gotA[l] = (int(t[1]), int(t[2]), ",".join(t[3:]))
    m0, m1 = run_driver(exe, ["ksadd 0 3 1", "ksadd 1 3 1"])
    w = gotA.get("ksadd 3 1")
    clears = None if w is None else (True if w[2] == m1.strip() else (False if w[2] == m0.strip() else None))
    c.cov["variant_detected"]["ksAddClearsColumn"] = clears
    if res["bad"] or clears is None or len(gotA) != len(L):
        c.corr_break("TRACE current_Ks add probe: %s" % (res["report"][:300] if res["bad"] else "the result for N=3, encounter={star} (%s) is neither variant of the model" % (w,)))
    else:
        model = run_driver(exe, ["ksadd %d %s" % (clears, l.split(" ", 1)[1]) for l in L])
        nd_ = 0
        for l, m_ in zip(L, model):
            n_, e_ = [int(x) for x in l.split()[1:]]
            c.count(("ksadd", n_, e_), nontrivial=n_ >= 2)
            if gotA[l][2] != m_.strip() or gotA[l][0] != n_ + 1:
                nd_ += 1
                if nd_ == 1:
                    c.corr_break("TRACE current_Ks after a mid-step add: N=%d encounter=%d: real code %s, model %s" % (n_, e_, gotA[l], m_.strip()),
                                 {"line": l, "impl": gotA[l], "model": m_})
        dims["side_arrays:trace_current_Ks_add_all_N_encounter"] = len(L)
        if not clears:
            c.violation("F24:trace-midstep-add-leaves-current_Ks-column-unwritten",
                        "TRACE current_Ks after adding a particle mid-step to 3 particles of which only the star is in the encounter: %s — the cells (1,3) and (2,3) "
                        "of the new column keep stale content (9 = old entry (2,1); -7 = never written), row/column inserted would be %s" % (w[2], m1.strip()),
                        {"harness": "ksadd 3 1", "impl": w[2], "spec": m1.strip()})
    # --- MERCURIUS part1: the Lean witness of F21 (safe_mode = 0, one particle added since the last step) under valgrind
    mv = mr_valgrind if mr_valgrind is not None else (mr if not mr.sanitize else None)
    if mv is not None:
        L = ["new 0 0 0 9", "set dt 0.01", "set safemode 0", "addo 1 1.0 0.0 0.0 0.0 0.0 0.0 0.0 0.0",
             "addo 100 0.0001 0.0 1.0 0.0 0.0 0.0 1.0 0.0", "addo 101 0.0001 0.0 2.0 0.0 0.0 0.0 0.7071 0.0", "step 1",
             "addo 102 0.0001 0.0 3.0 0.0 0.0 0.0 0.57735 0.0", "step 1"]
        res = mv.run_text(L, timeout=300)
        uninit = res["bad"] and "uninitialised" in res["report"]
        other = res["bad"] and not uninit
        c.cov["variant_detected"]["dcritZeroFill"] = (not uninit) if not other else None
        m0, m1 = run_driver(exe, ["mercp1 0 0 0 0 0 3 4", "mercp1 1 0 0 0 0 3 4"])
        pred = (m1 if not uninit else m0).split()
        dims["side_arrays:mercurius_part1_read_before_write"] = 1
        c.count(("mercp1",), n=len(L))
        nd_obs = int(res["out"][-1].split()[5]) if (not res["bad"] and len(res["out"]) == len(L)) else None
        if other or pred[0] != "uninit=%d" % (1 if uninit else 0) or (nd_obs is not None and pred[1] != "nd=%d" % nd_obs):
            c.corr_break("MERCURIUS part1: real code uninitialised-read=%s N_allocated_dcrit=%s, model %s" % (uninit, nd_obs, " ".join(pred)),
                         {"report": res["report"][:600]})
        if uninit:
            c.violation("F21:mercurius-safe_mode0-add-then-step-synchronizes-with-uninitialised-dcrit",
                        "MERCURIUS safe_mode=0, particle added between steps: " + res["report"][:300].replace("\n", " | "), {"harness_lines": L})
    # --- allocation left behind by every step of the step histories (and the N = 0 witnesses)
    if SIDE_QUERIES:
        q = [ql % SKIP_EMPTY.get(ctx[0], 0) for ql, _, ctx in SIDE_QUERIES]
        model = run_driver(exe, q)
        bad = 0
        for (ql, obs, ctx), qq, m_ in zip(SIDE_QUERIES, q, model):
            a_, ok_ = m_.split()
            dims["side_arrays:allocation_after_step:" + ctx[0]] = dims.get("side_arrays:allocation_after_step:" + ctx[0], 0) + 1
            if int(a_) != obs:
                bad += 1
                if bad == 1:
                    c.corr_break("side-array allocation after a step: %s: real code %d, model %s (query %s)" % (ctx[0], obs, a_, qq),
                                 {"query": qq, "impl": obs, "model": m_})
        c.count(("side-alloc",), n=len(q))
        c.cov["side_array_allocation_checks"] = len(q)


def planet_line(h, a, m=1e-4, r=0.0, phase=0.0, dirn=1.0):
    v = dirn / math.sqrt(a)
    return "addo %d %r %r %r %r 0.0 %r %r 0.0" % (h, m, r, a * math.cos(phase), a * math.sin(phase), -v * math.sin(phase), v * math.cos(phase))


def step_history(rng, integ, nops, opts):
    """add / remove / remove-by-hash / remove-all between steps, one real step after EVERY structural operation.
    Returns harness lines and, per line, what a plain list says about (rc, N, N_active) (None = do not compare)."""
    lines, want = [], []
    def emit(l, w=None):
        lines.append(l); want.append(w)
    emit("new 0 0 0 %d" % INTEGRATORS[integ])
    emit("set dt %r" % opts.get("dt", 0.01))
    for k, v in opts.items():
        if k != "dt" and not k.startswith("_"):
            emit("set %s %r" % (k, v))
    use_active, massless = opts.get("_nactive", "set") == "set", opts.get("_massless", 1)
    ref = Ref(dict(tree="none", box=False, integrator=integ))
    nxt = [100]
    def add(a=None, m=1e-4):
        h = nxt[0]; nxt[0] += 1
        a = a if a is not None else 1.0 + 0.37 * (h - 99)
        ref.add(h, h, 0)
        emit(planet_line(h, a, m, phase=0.7 * h), (0, len(ref.ps), ref.active))
    def populate():
        ref.add(1, 1, 0)
        emit("addo 1 1.0 0.0 0.0 0.0 0.0 0.0 0.0 0.0", (0, len(ref.ps), ref.active))
        for k_ in range(rng.randint(2, 5)):
            add(m=0.0 if (massless and (k_ == 1 or rng.chance(0.25))) else 1e-4)
    populate()
    if use_active:
        ref.set_active(2)
        emit("set nactive 2", (0, len(ref.ps), ref.active))
    emit("step 1", (0, len(ref.ps), ref.active))
    # every history: grow after the first step, step, shrink, step, grow beyond the previous maximum, step
    add(); emit("step 1", (0, len(ref.ps), ref.active))
    out = ref.remove(1, 1); emit("rm 1 1", (1, len(ref.ps), ref.active)); emit("step 1", (0, len(ref.ps), ref.active))
    add(); add(); emit("step 1", (0, len(ref.ps), ref.active))
    for _ in range(nops):
        x = rng.uniform()
        n = len(ref.ps)
        if x < 0.35 or n < 3:
            add(m=0.0 if (massless and rng.chance(0.3)) else 1e-4)
        elif x < 0.60:
            idx = rng.randint(1, n - 1)          # (the central body stays: every integrator must keep stepping)
            ks = rng.randint(0, 1)
            out = ref.remove(idx, ks)
            emit("rm %d %d" % (idx, ks), (1 if out in ("removed", "lastRemoved") else 0, len(ref.ps), ref.active))
        elif x < 0.78:
            i = rng.randint(1, n - 1)
            h = ref.ps[i][1]
            ks = rng.randint(0, 1)
            out = ref.remove(i, ks)
            emit("rmh %d %d" % (h, ks), (1 if out in ("removed", "lastRemoved") else 0, len(ref.ps), ref.active))
        elif x < 0.90:
            if not use_active:
                add(m=1e-4)
            else:
                k = rng.choice([-1, 1, max(1, n // 2), n])
                ref.set_active(k)
                emit("set nactive %d" % k, (0, len(ref.ps), ref.active))
        elif x < 0.95:
            emit("rmh 999999 1", (0, len(ref.ps), ref.active))      # unknown hash
            emit("rm %d 1" % (n + 2), (0, len(ref.ps), ref.active))  # out of range
        else:
            ref.remove_all()
            emit("rmall", (0, 0, -1))
            populate()
        if len(ref.ps) >= 2 and ref.ps[0][0] == 1 and ref.active != 0:
            emit("step 1", (0, len(ref.ps), ref.active))
    return lines, want


def collision_history(rng, integ, mode, keep_sorted, boundary, resolver="merge", nactive=None, track=None):
    """the internal callers of reb_simulation_remove_particle: merging collisions and the open boundary"""
    L = ["new 0 0 0 %d" % INTEGRATORS[integ], "set dt 0.02"]
    if mode in (2, 5) or boundary:
        L.append("set box 40.0" if not boundary else "set box 14.0")
    if boundary:
        L.append("set boundary 1")
    if mode:
        L += ["set collision %d" % mode, "set %s 1" % resolver, "set keepsorted %d" % keep_sorted,
              "set trackenergy %d" % (rng.randint(0, 1) if track is None else track)]
    L.append("addo 1 1.0 0.02 0.0 0.0 0.0 0.0 0.0 0.0")
    h = 100
    for k in range(rng.randint(6, 9)):
        h += 1
        if mode and k % 2 == 0:     # two bodies on the same orbit, opposite directions: they meet within a few steps
            a = 1.0 + 0.2 * k
            L.append(planet_line(h, a, 1e-4, 0.06, 0.0, 1.0)); h += 1
            L.append(planet_line(h, a, 1e-5, 0.06, 0.6, -1.0))      # lighter: the merged body stays on a bound orbit away from the star
        elif boundary and k % 2 == 1:
            L.append("addo %d 1e-5 0.0 %r 0.5 0.0 3.0 0.0 0.0" % (h, 2.0 + 0.1 * k))     # unbound, leaves the box
        else:
            L.append(planet_line(h, 2.5 + 0.2 * k, 1e-4, 0.01, 0.4 * k))
    if (rng.chance(0.5) if nactive is None else nactive == "set"):
        L.append("set nactive %d" % rng.randint(2, 5))
    L += ["step 1"] * (70 if not boundary else 130)
    if mode in (2, 5):
        L.append("tupd")
    # who is still there?  (kind: 's' star / background must survive, 'u' unbound must be gone, 'p' one of each pair survives)
    kinds = {}
    for l in L:
        if l.startswith("addo"):
            t = l.split()
            hh = int(t[1])
            kinds[hh] = "s" if hh == 1 else ("u" if (boundary and t[5] == "0.5") else ("p" if t[3] == "0.06" else "s"))
    for hh in sorted(kinds):
        L.append("get %d" % hh)
    if resolver != "merge":
        for k in range(6):
            L.append("get %d" % (900000 + k))      # the fragments added from inside the collision callback
    return L, kinds


def dims_harness(c, mr, dims, mr_valgrind=None):
    """dimensions that need real time steps: run in the harness (valgrind / ASan+UBSan), with the harness' own lookup
    oracle and a plain-list oracle for N and N_active.  ASan does not see reads of uninitialised (freshly realloc'ed)
    side arrays, valgrind does: in the thorough tier the step histories run under both."""
    rng = c.rng.fork()
    variants = {"default": {}, "safe_mode0": {"safemode": 0}, "negative_dt": {"dt": -0.01}, "testparticle_type1": {"tptype": 1}}
    if c.thorough:       # full factorial integrator x variant, both N_active / massless settings alternating, three repetitions
        plan = [dict(integrator=i_, variant=v_, nactive=["unset", "set"][(k_ + j_) % 2], massless=(k_ + j_ // 2) % 2)
                for k_ in range(3) for j_, i_ in enumerate(INTEGRATORS) for v_ in variants
                if PAIRS.admissible("step_history", dict(integrator=i_, variant=v_))]
        plan += PAIRS.array("step_history", rng)
    else:                # quick: a seed-rotated half of the covering array
        plan = [r_ for k_, r_ in enumerate(PAIRS.array("step_history", rng)) if k_ % 2 == c.seed % 2]
    for i_ in INTEGRATORS:
        if not any(k_["integrator"] == i_ for k_ in plan):
            plan.append(dict(integrator=i_, variant="default", nactive="set", massless=1))
    c.cov["step_history_cases"] = len(plan)
    for case_ in plan:
        for _once in (0,):
            for _once2 in (0,):
                integ, vname = case_["integrator"], case_["variant"]
                opts = variants[vname]
                PAIRS.note("step_history", case_)
                o = dict(opts, _nactive=case_["nactive"], _massless=case_["massless"])
                if integ == "whfast":
                    o["coords"] = rng.randint(0, 3)
                lines, want = step_history(rng, integ, 14 if not c.thorough else 30, o)
                res = mr.run_text(lines, timeout=600)
                if not res["bad"] and mr_valgrind is not None:
                    res = mr_valgrind.run_text(lines, timeout=900)
                key = "step_after_each_structural_op:" + integ
                bad = None
                if res["bad"]:
                    bad = "memory error: " + res["report"][:400].replace("\n", " | ")
                elif len(res["out"]) != len(lines):
                    bad = "harness answered %d lines for %d operations" % (len(res["out"]), len(lines))
                else:
                    for i, (l, w, got) in enumerate(zip(lines, want, res["out"])):
                        g = [int(t) for t in got.split()]
                        if g[4] != 0:
                            bad = "after %r (line %d) %d live particles are not found under their own hash" % (l, i, g[4]); break
                        if w is not None and (l.startswith(("rm", "addo", "rmall", "step", "set nactive"))):
                            exp_rc, exp_n, exp_na = w
                            if g[1] != exp_n or g[2] != exp_na or (l.startswith("rm") and not l.startswith("rmall") and g[0] != exp_rc):
                                bad = "after %r (line %d): rc=%d N=%d N_active=%d, a plain list says rc=%d N=%d N_active=%d" % (
                                    l, i, g[0], g[1], g[2], exp_rc, exp_n, exp_na); break
                if not res["bad"] and len(res["out"]) == len(lines):
                    collect_side_queries(integ, lines, res["out"])
                for l_, n_ in zip(lines, lines[1:]):
                    if n_.startswith("step"):
                        kind_ = ("add" if l_.startswith("addo") else "rmall" if l_.startswith("rmall") else "set_nactive" if l_.startswith("set nactive")
                                 else "invalid" if (l_.startswith("rmh 999999") or (l_.startswith("rm ") and want[lines.index(l_)] and want[lines.index(l_)][0] == 0))
                                 else "rmh" if l_.startswith("rmh") else ("rm_sorted" if l_.endswith(" 1") else "rm_unsorted") if l_.startswith("rm ") else None)
                        if kind_:
                            PAIRS.note("step_adjacency", dict(integrator=integ, op_before_step=kind_))
                nstruct = sum(1 for l in lines if l.startswith(("rm", "addo")))
                dims[key] = dims.get(key, 0) + nstruct
                dims["option:" + vname] = dims.get("option:" + vname, 0) + nstruct
                dims["roles:N_active_set"] = dims.get("roles:N_active_set", 0) + sum(1 for l in lines if l.startswith("set nactive"))
                dims["roles:massless_particles"] = dims.get("roles:massless_particles", 0) + sum(1 for l in lines if l.startswith("addo") and " 0.0 0.0 " in l[:40])
                c.count(("dim-step", integ, vname), n=len(lines))
                if bad:
                    vkey = "C14:%s:%s" % (key, vname)
                    rep_ = res["report"]
                    if integ == "mercurius" and vname == "safe_mode0" and "uninitialised" in rep_ and "reb_integrator_mercurius_L_" in rep_ \
                            and "reb_integrator_mercurius_synchronize" in rep_ and "Invalid" not in rep_:
                        vkey = "F21:mercurius-safe_mode0-add-then-step-synchronizes-with-uninitialised-dcrit"
                    c.violation(vkey, "%s, options %s: %s" % (integ, o, bad),
                                {"integrator": integ, "options": o, "harness_lines": lines, "report": res["report"]})
    # deterministic witnesses of the two findings of this dimension (whatever the random histories happen to do)
    for integ in ("whfast", "saba", "ias15", "leapfrog", "janus", "mercurius", "eos", "bs", "trace", "none"):
        L = ["new 0 0 0 %d" % INTEGRATORS[integ], "set dt 0.01", "addo 1 1.0 0.0 0.0 0.0 0.0 0.0 0.0 0.0",
             "addo 100 0.0001 0.0 1.0 0.0 0.0 0.0 1.0 0.0", "step 1", "rm 1 1", "step 1", "rm 0 1", "step 1",
             "addo 1 1.0 0.0 0.0 0.0 0.0 0.0 0.0 0.0", "step 1", "addo 101 0.0001 0.0 1.5 0.0 0.0 0.0 0.8 0.0", "step 1",
             "rmall", "step 1", "addo 1 1.0 0.0 0.0 0.0 0.0 0.0 0.0 0.0", "addo 102 0.0001 0.0 1.2 0.0 0.0 0.0 0.9 0.0", "step 1"]
        PAIRS.note("step_adjacency", dict(integrator=integ, op_before_step="rmall"))
        res = mr.run_text(L, timeout=300)
        if not res["bad"] and mr_valgrind is not None:
            res = mr_valgrind.run_text(L, timeout=300)
        dims["step_with_N_1_and_N_0:" + integ] = dims.get("step_with_N_1_and_N_0:" + integ, 0) + 3
        c.count(("dim-empty-step", integ), n=len(L))
        if not res["bad"] and len(res["out"]) == len(L) and integ in SIDE_KIND:
            # the step at N == 0 (line 8): did it re-size the array to 0 (no early return) or leave it alone?
            before0, after0 = int(res["out"][7].split()[5]), int(res["out"][8].split()[5])
            SKIP_EMPTY[integ] = 1 if (after0 == before0 and before0 != 0) else 0
            collect_side_queries(integ, L, res["out"])
        if res["bad"]:
            rep_ = res["report"]
            k_ = "C14:step_with_N_1_and_N_0:" + integ
            if integ in ("whfast", "saba") and ("reb_particles_transform_inertial_to_jacobi" in rep_ or "reb_integrator_whfast_init" in rep_):
                k_ = "F23:whfast-step-with-N-0-writes-outside-p_jh"
            elif integ in ("mercurius", "trace") and ("Invalid read" in rep_ or "null pointer" in rep_ or "SEGV" in rep_) and any(
                    w_ in rep_ for w_ in ("jump_step", "_inertial_to_dh", "reb_integrator_trace_part2", "reb_integrator_mercurius_part2")):
                k_ = "F25:hybrid-step-after-remove_all-dereferences-null-particles"
            c.violation(k_, "%s: step after the last particle was removed (N=0): %s" % (integ, rep_[:300].replace("\n", " | ")),
                        {"integrator": integ, "harness_lines": L, "report": rep_})
    if not c.thorough or mr_valgrind is not None:
        mv = mr_valgrind if mr_valgrind is not None else mr       # uninitialised reads: valgrind only
        L = ["new 0 0 0 25", "set dt 0.01", "set collision 1", "set merge 1", "addo 1 1.0 0.01 0.0 0.0 0.0 0.0 0.0 0.0",
             "addo 100 0.0001 0.001 1.0 0.0 0.0 0.0 1.0 0.0", "addo 101 0.0001 0.001 2.0 0.0 0.0 0.0 0.7071 0.0",
             "addo 102 0.0001 0.02 3.0 0.0 0.0 0.0 0.57735 0.0", "addo 103 0.0001 0.02 3.03 0.0 0.0 0.0 0.57 0.0",
             "step 1", "step 1", "step 1", "get 102", "get 103"]
        res = mv.run_text(L, timeout=300)
        merged = len(res["out"]) == len(L) and res["out"][-1].split()[1] == "4"
        dims["trace_midstep_removal_of_last_particle"] = dims.get("trace_midstep_removal_of_last_particle", 0) + (1 if (merged or res["bad"]) else 0)
        c.count(("dim-trace-merge",), n=len(L))
        if res["bad"]:
            rep_ = res["report"]
            k_ = "C14:trace_midstep_removal"
            if "uninitialised" in rep_ and "reb_integrator_trace_interaction_step" in rep_ and "Invalid" not in rep_:
                k_ = "F22:trace-current_Ks-misaligned-after-removing-the-last-particle-mid-step"
            c.violation(k_, "TRACE, direct collisions, merge of the two outermost bodies during a step: " + rep_[:300].replace("\n", " | "),
                        {"harness_lines": L, "report": rep_})
    # internal removals (and additions): collisions resolved by merge / merge + fragment added from inside the callback, open boundary
    SEARCH = {"direct": (1, False), "line": (4, False), "tree": (2, False), "linetree": (5, False), "boundary_open": (0, True)}
    rows = PAIRS.array("internal_removal", rng)
    if not c.thorough:
        rows = [r_ for k_, r_ in enumerate(rows) if k_ % 2 == c.seed % 2]
        for need_ in (dict(integrator="trace", search="direct", resolver="merge_addfrag"), dict(integrator="mercurius", search="direct", resolver="addfrag_merge"),
                      dict(integrator="ias15", search="boundary_open", resolver="merge")):
            if not any(all(r_[k_] == v_ for k_, v_ in need_.items()) for r_ in rows):
                rows.append(dict(dict(keep_sorted=1, nactive="unset", track_energy=0), **need_))
    c.cov["internal_removal_cases"] = len(rows)
    for case_ in rows:
        for _once in (0,):
            integ = case_["integrator"]
            mode, bnd = SEARCH[case_["search"]]
            PAIRS.note("internal_removal", case_)
            ks = case_["keep_sorted"]
            L, kinds = collision_history(rng, integ, mode, ks, bnd, case_["resolver"], case_["nactive"], case_["track_energy"])
            res = mr.run_text(L, timeout=600)
            key = "internal_removal:" + ("boundary_open" if bnd else "collision_mode_%d" % mode)
            bad, removed = None, 0
            if res["bad"]:
                bad = "memory error: " + res["report"][:400].replace("\n", " | ")
            elif len(res["out"]) != len(L):
                bad = "harness answered %d lines for %d operations" % (len(res["out"]), len(L))
            else:
                prev = None
                for i, (l, got) in enumerate(zip(L, res["out"])):
                    g = [int(t) for t in got.split()]
                    if g[4] != 0:
                        bad = "after %r (line %d) %d live particles are not found under their own hash" % (l, i, g[4]); break
                    if l == "step 1" or l == "tupd":
                        if prev is not None and g[1] > prev and case_["resolver"] == "merge":
                            bad = "N grew from %d to %d during %r" % (prev, g[1], l); break
                        if g[2] > g[1] and mode not in (2, 5):
                            bad = "N_active=%d > N=%d after %r (line %d)" % (g[2], g[1], l, i); break
                        prev = g[1]
                    elif l.startswith("addo"):
                        prev = g[1]
                gets = [(int(l.split()[1]), int(got.split()[0]), int(got.split()[1])) for l, got in zip(L, res["out"]) if l.startswith("get ")]
                if not bad and gets:
                    nfin = gets[-1][2]
                    found = {hh for hh, rc_, _ in gets if rc_ >= 0}
                    removed = sum(1 for hh in kinds if hh not in found)
                    nfrag = sum(1 for hh in found if hh >= 900000)
                    if case_["resolver"] != "merge":
                        kk = "midstep_add_from_collision_callback:" + integ
                        dims[kk] = dims.get(kk, 0) + nfrag
                        # how many particles the callback added is reported by the harness itself (7th column); bodies that disappear
                        # need not have merged: in tree mode the tree update also drops bodies that have left the root box
                        added = int(res["out"][-1].split()[6]) if len(res["out"][-1].split()) > 6 else None
                        hit = int(res["out"][-1].split()[7]) if len(res["out"][-1].split()) > 7 else 0
                        # (a fragment that itself took part in a later resolved collision may have been merged away: C13 decides who collides)
                        if added is not None and not (added - hit <= nfrag <= added):
                            bad = "the collision callback added %d particles during the steps (%d of them collided again), %d of them are found afterwards" % (added, hit, nfrag)
                    if any(rc_ >= nfin for _, rc_, _ in gets):
                        bad = "a lookup returned an index beyond N=%d" % nfin
                    elif len(found) != nfin:
                        bad = "%d hashes are found but N=%d" % (len(found), nfin)
                    elif bnd and any(kinds[hh] == "s" and hh not in found for hh in kinds):     # (who merges with whom is C13's business)
                        bad = "a particle that neither collided nor left the box has disappeared: %s" % sorted(hh for hh in kinds if kinds[hh] == "s" and hh not in found)
                    elif bnd and any(kinds[hh] == "u" and hh in found for hh in kinds):
                        bad = "an unbound particle that left the box is still there: %s" % sorted(hh for hh in kinds if kinds[hh] == "u" and hh in found)
                    elif bnd and len(kinds) - len(found) > sum(1 for hh in kinds if kinds[hh] == "u"):
                        bad = "more particles are gone than could leave the box"
                if not bad and mode in (2, 5):
                    g = [int(t) for t in [x for l_, x in zip(L, res["out"]) if l_ == "tupd"][-1].split()]
                    if g[2] > g[1]:
                        bad = "N_active=%d > N=%d after the tree update" % (g[2], g[1])
            dims[key] = dims.get(key, 0) + removed
            dims["internal_removal:keep_sorted_%d" % ks] = dims.get("internal_removal:keep_sorted_%d" % ks, 0) + removed
            c.count(("dim-internal", integ, mode, bnd, ks), n=len(L))
            if bad:
                rep_ = res["report"]
                k_ = "C14:%s:%s" % (key, integ)
                if integ == "trace" and case_["resolver"] != "merge" and "uninitialised" in rep_ and "reb_integrator_trace_interaction_step" in rep_ \
                        and "Invalid" not in rep_:
                    k_ = "F24:trace-midstep-add-leaves-current_Ks-column-unwritten"
                elif integ == "trace" and "uninitialised" in rep_ and "reb_integrator_trace_interaction_step" in rep_ and "Invalid" not in rep_:
                    k_ = "F22:trace-current_Ks-misaligned-after-removing-the-last-particle-mid-step"
                elif integ == "whfast" and (("Invalid write" in rep_ and "reb_particles_transform_inertial_to_jacobi_posvel" in rep_ and "reb_integrator_whfast_part1" in rep_)
                                            or ("null pointer passed as argument 1" in rep_ and "reb_integrator_whfast_init" in rep_)):
                    # (only N == 0 gives realloc(.., 0) / a p_jh without slot 0; the harness output is lost when the tool aborts)
                    k_ = "F23:whfast-step-with-N-0-writes-outside-p_jh"
                c.violation(k_, "%s, keep_sorted=%d: %s" % (integ, ks, bad),
                            {"integrator": integ, "harness_lines": L, "report": res["report"]})


def dims_container(c, rebound, dims):
    """Python layer: every way in and out of the container, against a plain list of (id, hash)"""
    import warnings, tempfile as _tf
    def ids(sim):
        return [(int(p.m), p.hash.value) for p in sim.particles]
    def check(sim, ref, what, dim):
        dims[dim] = dims.get(dim, 0) + 1
        c.count(("dim-py", dim))
        got = ids(sim)
        if got != ref or sim.N != len(ref):
            c.violation("C14:python:" + dim, "%s: simulation holds %s, a plain list holds %s" % (what, got[:10], ref[:10]), {"what": what})
            return False
        for i, (m, h) in enumerate(ref):          # every particle is found under its hash (first/last duplicate allowed)
            if h:
                q = sim.particles[ctypes.c_uint32(h)]
                if q.hash.value != h:
                    c.violation("C14:python:lookup:" + dim, "%s: lookup of hash %d returns a particle with hash %d" % (what, h, q.hash.value), {})
        return True
    H = lambda x: rebound.hash(x).value
    with warnings.catch_warnings():
        warnings.simplefilter("ignore")
        # --- add forms and hash types
        sim = rebound.Simulation(); ref = []
        sim.add(m=1.0, hash="star"); ref.append((1, H("star")))
        sim.add(m=2.0, x=1.0, hash=77); ref.append((2, 77))
        sim.add(m=3.0, x=2.0, hash=ctypes.c_uint32(4000000000)); ref.append((3, 4000000000))
        sim.add(m=4.0, x=3.0); ref.append((4, 0))
        p = rebound.Particle(m=5.0, x=4.0, hash="obj"); sim.add(p); ref.append((5, H("obj")))
        sim.add([rebound.Particle(m=6.0, x=5.0, hash="l1"), rebound.Particle(m=7.0, x=6.0)]); ref += [(6, H("l1")), (7, 0)]
        sim.add(primary=sim.particles[0], m=8.0, a=7.0, hash="orb"); ref.append((8, H("orb")))
        check(sim, ref, "add by kwargs / Particle / list / orbit, hash = str / int / c_uint32 / unset", "python:add_forms_and_hash_types")
        other = rebound.Simulation(); other.add(m=9.0, x=0.5, hash="from_other"); other.add(m=10.0, x=1.5, hash="second")
        sim.add(other.particles[0]); ref.append((9, H("from_other")))
        sim.add(other.particles["second"]); ref.append((10, H("second")))
        ok = check(sim, ref, "add a particle that lives in another simulation", "python:add_from_other_simulation")
        dims["python:add_from_other_simulation"] += 1
        if ctypes.addressof(sim.particles[-1]._sim.contents) != ctypes.addressof(sim):
            c.violation("C14:python:sim-pointer", "a particle added from another simulation keeps pointing at the other simulation", {})
        del other
        if int(sim.particles["from_other"].m) != 9:
            c.violation("C14:python:add_from_other_simulation", "lookup of a particle added from another (deleted) simulation fails", {})
        # --- rename, old and new name
        sim.particles["obj"].hash = "renamed"; ref[4] = (5, H("renamed"))
        check(sim, ref, "rename through particle.hash = str", "python:rename")
        try:
            sim.particles["obj"]
            c.violation("C14:python:rename", "the old name is still found after the rename", {})
        except rebound.ParticleNotFound:
            pass
        if int(sim.particles["renamed"].m) != 5:
            c.violation("C14:python:rename", "the new name finds the wrong particle", {})
        sim.particles[3].hash = ctypes.c_uint32(123456); ref[3] = (4, 123456)
        sim.particles[6].hash = 654321; ref[6] = (7, 654321)
        check(sim, ref, "rename through particle.hash = c_uint32 / int", "python:rename")
        # --- assignment sim.particles[i] = p (index, negative index, name)
        q = rebound.Particle(m=20.0, x=9.0, hash="assigned"); sim.particles[1] = q; ref[1] = (20, H("assigned"))
        q = rebound.Particle(m=21.0, x=9.5, hash="assigned2"); sim.particles[-1] = q; ref[-1] = (21, H("assigned2"))
        q = rebound.Particle(m=22.0, x=9.7, hash="assigned3"); sim.particles["star"] = q; ref[0] = (22, H("assigned3"))
        check(sim, ref, "sim.particles[k] = Particle for k = index / negative index / name", "python:setitem")
        if ctypes.addressof(sim.particles[1]._sim.contents) != ctypes.addressof(sim):
            c.violation("C14:python:setitem", "an assigned particle does not point at its simulation", {})
        # --- removal while iterating (over a snapshot of the hashes), del, remove by every key type
        for h in [x[1] for x in ref if x[0] % 2 == 0]:
            sim.remove(hash=ctypes.c_uint32(h))
            ref = [x for x in ref if x[1] != h]
        check(sim, ref, "remove the even ids by hash while walking a snapshot", "python:iterate_and_remove")
        n0 = sim.N
        for _ in list(sim.particles)[:2]:
            sim.remove(0)
            ref.pop(0)
        check(sim, ref, "remove(0) inside a loop over list(sim.particles)", "python:iterate_and_remove")
        del sim.particles[-1]; ref.pop()
        check(sim, ref, "del sim.particles[-1]", "python:iterate_and_remove")
        # --- restore paths: the lookup table is not persisted and must be rebuilt lazily
        sim = rebound.Simulation(); ref = []
        for i in range(1, 140):
            sim.add(m=float(i), x=float(i), hash=("n%d" % i) if i % 3 else 0); ref.append((i, H("n%d" % i) if i % 3 else 0))
        _ = sim.particles["n1"]                    # table built before the save
        fn = os.path.join(_tf.mkdtemp(prefix="c14sa.", dir=os.environ.get("VERIF_TMP", "/tmp")), "a.bin")
        sim.save_to_file(fn)
        for label, mk in (("archive", lambda: rebound.Simulation(fn)), ("copy", lambda: sim.copy()),
                          ("pickle", lambda: __import__("pickle").loads(__import__("pickle").dumps(sim))),
                          ("simulationarchive", lambda: rebound.Simulationarchive(fn)[0])):
            s2 = mk()
            r2 = list(ref)
            check(s2, r2, "lookups after restore via " + label, "restore_then_lookup:" + label)
            s2.remove(hash="n2"); r2 = [x for x in r2 if x[1] != H("n2")]
            s2.add(m=1000.0, x=-1.0, hash="fresh"); r2.append((1000, H("fresh")))
            check(s2, r2, "remove + add + lookups after restore via " + label, "restore_then_lookup:" + label)
        shutil.rmtree(os.path.dirname(fn), ignore_errors=True)
        # --- scale: N across 128 and 1024, up and down, lookups on the way
        sim = rebound.Simulation(); ref = []
        for i in range(1, 1101):
            sim.add(m=float(i), x=float(i), hash=i + 5); ref.append((i, i + 5))
            if i in (127, 128, 129, 1023, 1024, 1025, 1100):
                check(sim, ref, "after %d adds" % i, "scale:N_up_across_128_and_1024")
        k = 0
        while sim.N > 100:
            k += 1
            if k % 3 == 0:
                j = (k * 7919) % sim.N
                sim.remove(index=j, keep_sorted=True); ref.pop(j)
            elif k % 3 == 1:
                j = (k * 104729) % sim.N
                sim.remove(hash=ref[j][1], keep_sorted=False)
                last = ref.pop()
                if j < len(ref):
                    ref[j] = last
            else:
                sim.remove(index=sim.N - 1); ref.pop()
            if sim.N in (1025, 1024, 1023, 129, 128, 127, 100):
                check(sim, ref, "after removing down to %d" % sim.N, "scale:N_down_across_1024_and_128")
        for i in range(150):
            sim.add(m=5000.0 + i, x=-float(i), hash=20000 + i); ref.append((5000 + i, 20000 + i))
        check(sim, ref, "grown again to %d" % sim.N, "scale:N_up_across_128_and_1024")


# ----------------------------------------------------------------------------- main
def run(c):
    d = build()
    rebound = use_scratch_rebound(d)
    clib = rebound.clibrebound
    c.cov["rule"] = (
        "histories of add / remove(index, keep_sorted) / remove(hash) / lookup / set-hash / set-N_active / remove-all / set-N_var drawn from a "
        "state-aware generator (75% of histories well-formed, 25% with a third of the requests malformed: out-of-range and negative indices, "
        "absent hashes); hash families unique / 6-value pool (duplicates) / mostly zero / mixed; bulk starts of 126..520 particles to cross the "
        "128/256/512 allocation boundaries; configurations {no tree, gravity tree, collision tree, linetree} x {box, no box} x {boundary none/open} x "
        "{ias15, whfast, leapfrog, mercurius, trace}; every operation is executed on the real code (C functions through ctypes, and separately the "
        "Python container API), observed completely (return code, message kind, N, N_active, N_allocated, N_var, tree_root, live particles in order, "
        "lookup table, digest of unused slots) and compared with the Lean model line by line and with a plain-list oracle; "
        "distinct_nontrivial = distinct (operation, outcome, min(N,4), tree, forced-sorted, N_active set, hash family, API) with N>=2 before the call")
    c.cov["trusted_base"] = ["Lean 4.33 kernel", "differential tie drv_c14 vs compiled particle.c / tools.c / rebound/particles.py on generated histories",
                             "ctypes layout of Simulation/Particle/HashPointerPair (checked by C18)",
                             "glibc qsort returns a sorted permutation (checked per call: the observed table must be one)",
                             "MERCURIUS/TRACE private arrays (dcrit, encounter_map) are outside the model; no integration step is taken between operations"]
    c.assumptions += ["hashes are compared as numbers (uint32 in C, Nat in the model)", "N < 2^31 (no overflow of N_allocated*2, left+right)",
                      "operations happen between time steps (integrator mode 0); tree update (deferred removal of flagged particles) belongs to C15",
                      "the user stores only -1 <= N_active <= N"]

    # ---- which F4 repairs does the source under test contain?  (replays the model's counter-examples)
    pv = probe_variant(rebound, c)
    # F4g (first half) is a heap overflow: its witness runs in the harness, in another process
    try:
        mr = MemReplay(d, sanitize=c.thorough)
    except Infra as e:
        mr = None
        c.broken.append("memory replay could not be set up: " + str(e)[:300])
    wg_cfg = dict(tree="none", box=False, boundary="none", integrator="mercurius")
    wg_ops = [("add", 1, 11, 0), ("add", 2, 12, 0), ("add", 3, 13, 0), ("integrate", 3)] + \
             [("add", i, 10 + i, 0) for i in (4, 5, 6, 7)] + [("rm", 0, 1), ("rm", 0, 1), ("add", 8, 18, 0)]
    if mr is not None:
        resg = mr.run([(wg_cfg, wg_ops)], timeout=300)
        pv["dcritBounded"] = not resg["bad"]
        pv["F4g_overrun"] = {"clean": not resg["bad"], "answers": resg["answers"]}
    else:
        pv["dcritBounded"] = False
        pv["F4g_overrun"] = {"error": "no memory replay"}
    FLAGS = ("rangeFirst", "treeFirst", "lastClamp", "unsortedClamp", "resetTree", "dcritBounded", "dcritWithParticles", "evictClamp")
    c.cov["variant_detected"] = {k: pv[k] for k in FLAGS}
    c.cov["witness_replays"] = {k: pv[k] for k in ("F4a", "F4b", "F4c", "F4d", "F18", "F4g_overrun", "F4g_refused", "F4h")}
    vline = "variant " + " ".join("%d" % pv[k] for k in FLAGS)
    global RESET_TREE, DCRIT_BOUNDED
    RESET_TREE = pv["resetTree"]
    DCRIT_BOUNDED = pv["dcritBounded"]
    if mr is not None and not pv["dcritBounded"]:
        c.violation("F4g:mercurius-remove-after-add-overruns-dcrit",
                    "MERCURIUS: 3 particles, 3 steps (dcrit has 3 slots), 4 particles added, remove(index=0): the dcrit shift loop runs to N-1 = 6 "
                    "and reads/writes beyond the array: " + resg["report"][:300].replace("\n", " | "),
                    {"cfg": wg_cfg, "ops": wg_ops, "report": resg["report"]})
    c.cov["full_strength_theorems_apply_to_this_source"] = all(c.cov["variant_detected"].values())
    c.cov["variant_names"] = "all flags off = Variant.original, the first five on = Variant.current (fixes/F4.diff), all on = Variant.repaired (+F4g.diff, F4h.diff)"
    c.cov["theorem_scope"] = ("the source under test is Variant.repaired: c14_run_refines, c14_invalid_unchanged, c14_active_le_N hold of it without exclusions"
                              if all(c.cov["variant_detected"].values()) else
                              "the source under test lacks some F4/F18 repairs: the *_partial theorems (call shapes excluded) and the *_fails_current "
                              "counter-examples describe it; the full-strength theorems describe the source with fixes/F4.diff applied")
    c.log("source variant:", c.cov["variant_detected"])

    ok = c.prove(["RV.Props.C14"])
    exe = lean_exe("drv_c14")

    stats = dict(ap_checked=0, tupd_unexplained=0, ops={}, outs={}, maxN=0, growth={}, dup_removals=0, dup_lookups=0, zero_lookups=0,
                 deviations={}, shapes_clean={}, odd_outs=[])
    lines, expect, meta = [vline], ["variant-set"], [(-1, -1, ("variant",), None)]
    n_c = 600 if c.thorough else 160
    n_py = 300 if c.thorough else 80
    nops = 80 if c.thorough else 70
    histories = []
    declare_factors()
    rows = PAIRS.array("tie_config", c.rng.fork(), extra_ok=lambda k: not (k["api"] == "python" and k["tree"] != "none" and k["box"] == 0)
                       and not (k["tree"] == "none" and k["boundary"] == "open" and k["box"] == 0))
    if not c.thorough:
        rows = [r_ for i, r_ in enumerate(rows) if i % 2 == c.seed % 2]      # seed-rotated slice of the covering array
    c.cov["tie_config_covering_array_rows"] = len(rows)
    rows_c = [case_cfg(r_, c.rng) for r_ in rows if r_["api"] == "C"]
    rows_py = [case_cfg(r_, c.rng) for r_ in rows if r_["api"] == "python"]
    for h in range(max(n_c, len(rows_c))):
        cfg = rows_c[h] if h < len(rows_c) else gen_cfg(c.rng)
        hist = run_history(c, rebound, cfg, nops, False, stats, lines, expect, meta, h)
        histories.append((cfg, hist))
        if h < 2:
            c.sample({"api": "C", "cfg": cfg, "first_ops": hist[cfg["bulk"]:cfg["bulk"] + 8]})
    for h in range(max(n_py, len(rows_py))):
        cfg = rows_py[h] if h < len(rows_py) else gen_cfg(c.rng, python_api=True)
        hist = run_history(c, rebound, cfg, nops, True, stats, lines, expect, meta, 100000 + h)
        if h < 2:
            c.sample({"api": "python", "cfg": cfg, "first_ops": hist[cfg["bulk"]:cfg["bulk"] + 8]})

    run_call_shapes(c, rebound, stats, lines, expect, meta)

    # ---- directed histories (the model's witnesses and their neighbours) so that every F4 shape is exercised on every run
    directed = [
        (dict(tree="none", box=False, boundary="none", integrator="ias15", hashes="unique", malformed=True, use_active=True, bulk=0),
         [("add", 1, 11, 0), ("rm", 5, 1), ("add", 2, 12, 0), ("rm", -1, 0), ("add", 3, 13, 0), ("setactive", 1), ("rm", 0, 1),
          ("add", 4, 14, 0), ("add", 5, 15, 0), ("add", 6, 16, 0), ("setactive", 3), ("rm", 0, 0), ("rmh", 999, 1), ("rmh", 16, 0)]),
        (dict(tree="collision", box=True, boundary="none", integrator="ias15", hashes="unique", malformed=False, use_active=False, bulk=0),
         [("add", 1, 11, 0), ("add", 2, 12, 0), ("add", 3, 13, 0), ("rm", 1, 0), ("get", 12), ("rm", 0, 1)]),
        (dict(tree="gravity", box=True, boundary="none", integrator="mercurius", hashes="unique", malformed=False, use_active=False, bulk=0),
         [("add", 1, 11, 0), ("add", 2, 12, 0), ("add", 3, 13, 0), ("rmh", 12, 0)]),
        (dict(tree="none", box=False, boundary="none", integrator="trace", hashes="zeros", malformed=False, use_active=True, bulk=0),
         [("add", 1, 0, 0), ("add", 2, 0, 0), ("add", 3, 7, 0), ("get", 0), ("add", 4, 0, 0), ("get", 0), ("sethash", 3, 9), ("get", 0),
          ("setactive", 2), ("rm", 0, 0), ("get", 7), ("rmall",), ("get", 7), ("add", 5, 7, 0), ("get", 7)]),
    ]
    for j, (cfg, ops) in enumerate(directed):
        for api in (False, True):
            run_history(c, rebound, cfg, len(ops), api, stats, lines, expect, meta, 200000 + 2 * j + api, fixed_ops=ops)

    # ---- model vs implementation, line by line
    c.log("running %d model lines through drv_c14" % len(lines))
    got = run_driver(exe, lines)
    ndis, first, hint_stat, alloc_diff = 0, None, {}, 0
    if len(got) != len(lines):
        c.corr_break("driver returned %d lines for %d ops" % (len(got), len(lines)))
    else:
        skip_hid = None
        for g, e, mt, l in zip(got, expect, meta, lines):
            if mt[2][0] == "new":
                skip_hid = None
            if skip_hid == mt[0] or e == "*":
                continue
            gm = g.rsplit(" hint=", 1)
            hs = gm[1] if len(gm) == 2 else "?"
            hint_stat[hs] = hint_stat.get(hs, 0) + 1
            if gm[0] != e or hs == "bad":
                # a different growth policy (N_allocated, and with it the unused slots) is not a bookkeeping
                # error as long as N <= N_allocated (asserted by the search) and the memory replay is clean
                ta, tb = gm[0].split(), e.split()
                if hs != "bad" and len(ta) == len(tb) and len(ta) >= 11 and ta[:3] == tb[:3] and ta[4:8] == tb[4:8] \
                        and ta[9:] == tb[9:] and ta[3] != tb[3] and int(tb[1]) <= int(tb[3]):
                    alloc_diff += 1
                    continue
                ndis += 1
                skip_hid = mt[0]          # one disagreement per history (the rest follows from it)
                if first is None:
                    first = {"history": mt[0], "step": mt[1], "op": mt[2], "model": g[:600], "impl": e[:600], "line": l[:300],
                             "differing_fields": [(x[:160], y[:160]) for x, y in zip(gm[0].split(), e.split()) if x != y][:4]}
    c.cov["allocation_policy_differences"] = alloc_diff
    c.cov["model_lines_compared"] = len(lines)
    c.cov["histories_disagreeing"] = ndis
    c.cov["hint_status"] = hint_stat
    if ndis:
        c.corr_break("model and implementation disagree in %d histories; first: history %s step %s op %s" % (
            ndis, first["history"], first["step"], first["op"]), first)

    # ---- reb_hash: model vs C vs rebound.hash
    clib.reb_hash.restype = ctypes.c_uint32
    cases = hash_cases(c.rng, 3000 if c.thorough else 600)
    hl = ["hash " + (b.hex() or "-") for b in cases]
    hm = run_driver(exe, hl)
    nh = 0
    for b, m in zip(cases, hm):
        cv = clib.reb_hash(ctypes.c_char_p(b))
        c.count(("hash", len(b) % 4, min(len(b) // 4, 3), any(x >= 0x80 for x in b)), nontrivial=len(b) > 0)
        if str(cv) != m.strip():
            nh += 1
            if nh == 1:
                c.corr_break("reb_hash: model %s, C %d on bytes %s" % (m, cv, b.hex()), {"bytes": b.hex(), "model": m, "c": cv})
        cut = b.split(b"\x00")[0]
        if murmur3_ref(cut) != cv:
            c.violation("C14:reb_hash-is-not-murmur3-seed-1983", "reb_hash(%r) = %d, MurmurHash3_x86_32(seed 1983) = %d" % (
                cut, cv, murmur3_ref(cut)), {"bytes": b.hex(), "c": cv, "reference": murmur3_ref(cut)})
        if all(x < 0x80 for x in cut) and b"\x00" not in b:
            pv_ = rebound.hash(cut.decode("ascii")).value
            if pv_ != cv:
                c.violation("C14:hash-python-vs-c", "rebound.hash(%r) = %d but reb_hash = %d" % (cut, pv_, cv), {"bytes": b.hex()})
    c.cov["hash_cases"] = len(cases)
    c.cov["hash_mismatches"] = nh

    # ---- Python container: integer keys and slices vs the model (RV.Particles.pyIndex / pySlice) and a Python list,
    #      exhaustively for small N and all small (start, stop, step)
    ql, qe = [], []
    nsl = 0
    sizes = [0, 1, 2, 3, 4, 5, 6, 7] if c.thorough else [0, 1, 3, 6]
    bounds = [None] + list(range(-9, 10)) + [100, -100]
    steps = [None, 1, 2, 3, 4, 7, 8, -1, -2, -3, -4, -7, -8, 100, -100]
    for npart in sizes:
        sim = rebound.Simulation()
        for i in range(npart):
            sim.add(m=float(i + 1), x=float(i), hash=100 + i)
        for k in list(range(-10, 11)) + [1 << 40, -(1 << 40)]:
            ql.append("pyidx %d %d" % (npart, k))
            try:
                qe.append(str(int(sim.particles[k].m) - 1))
            except AttributeError:
                qe.append("err")
            except Exception as ex:
                qe.append("exc:" + type(ex).__name__)
            want = str(list(range(npart))[k]) if -npart <= k < npart else "err"
            c.count(("pyidx", npart, k < 0, want == "err"))
            if qe[-1] != want:
                c.violation("C14:py-index", "sim.particles[%d] with N=%d gives %s, a list gives %s" % (k, npart, qe[-1], want), {"k": k, "N": npart})
        ref_list = list(range(npart))
        for a in bounds:
            for b in bounds:
                for st_ in steps:
                    nsl += 1
                    try:
                        got_ = [int(p.m) - 1 for p in sim.particles[slice(a, b, st_)]]
                    except Exception as ex:
                        got_ = ["exc:" + type(ex).__name__]
                    want = ref_list[slice(a, b, st_)]
                    ql.append("pyslice %d %s %s %d" % (npart, "N" if a is None else a, "N" if b is None else b, 1 if st_ is None else st_))
                    qe.append(",".join(str(x) for x in got_) or "-")
                    c.count(("slice", npart, a is None, b is None, st_), nontrivial=len(want) > 0)
                    if got_ != want:
                        c.violation("C14:py-slice", "sim.particles[%s:%s:%s] with N=%d gives %s, a list gives %s" % (a, b, st_, npart, got_, want),
                                    {"slice": [a, b, st_], "N": npart})
        try:
            sim.particles[::0]
            c.violation("C14:py-slice-step0", "sim.particles[::0] does not raise", {"N": npart})
        except ValueError:
            pass
    qm = run_driver(exe, ql)
    nq = sum(1 for x, y in zip(qm, qe) if x.strip() != y)
    c.cov["py_index_slice_cases"] = len(ql)
    c.cov["py_slice_cases_exhaustive"] = {"N": sizes, "start_stop": "None, -9..9, +-100", "step": [x for x in steps], "cases": nsl}
    if nq or len(qm) != len(ql):
        j = [i for i, (x, y) in enumerate(zip(qm, qe)) if x.strip() != y][:1]
        c.corr_break("python index/slice rule: %d of %d cases differ from the model" % (nq, len(ql)),
                     {"line": ql[j[0]], "model": qm[j[0]], "impl": qe[j[0]]} if j else None)
    # string keys, and deletion through the container (MutableMapping): `del sim.particles[k]`
    sim = rebound.Simulation()
    for i in range(4):
        sim.add(m=float(i + 1), x=float(i), hash=100 + i)
    sim.add(m=50.0, x=50.0, hash="planet1")
    if int(sim.particles["planet1"].m) != 50 or sim.particles["planet1"].hash.value != rebound.hash("planet1").value:
        c.violation("C14:py-string-key", "sim.particles['planet1'] does not return the particle added with hash='planet1'", {})
    for key, label in ((0, "0"), ("planet1", "'planet1'")):
        nb, ids = sim.N, [int(p.m) for p in sim.particles]
        raised = None
        try:
            del sim.particles[key]
        except Exception as ex:
            raised = type(ex).__name__
        ids2 = [int(p.m) for p in sim.particles]
        c.count(("del-item", label))
        if raised is None and ids2 == ids:
            c.violation("F19:del-particles-item-is-a-silent-no-op",
                        "del sim.particles[%s] neither removes the particle nor raises: N stays %d, ids %s" % (label, nb, ids),
                        {"key": label, "ids": ids})
        elif raised is None:
            want_ids = [x for x in ids if x != (ids[0] if key == 0 else 50)]
            if ids2 != want_ids:
                c.violation("C14:py-del-item", "del sim.particles[%s] left ids %s, expected %s" % (label, ids2, want_ids), {"key": label})
    try:
        del sim.particles[99]
        c.violation("C14:py-del-item-oob", "del sim.particles[99] with N=%d does not raise" % sim.N, {}) if sim.N < 99 and False else None
    except Exception:
        pass

    mercurius_probe(c, rebound)

    # ---- cross-cutting dimensions (BUILDERS-deepen.md): every applicable dimension must have been exercised
    dims = {}
    try:
        dims_container(c, rebound, dims)
    except (Infra, subprocess.TimeoutExpired):
        raise
    except Exception as ex:
        import traceback
        c.violation("C14:python:container-dimension-exception:" + type(ex).__name__,
                    "the container answered in a way the checker has no case for: %s" % str(ex)[:200], {"traceback": traceback.format_exc()[-2000:]})
    if mr is not None:
        mrv = None
        if c.thorough:
            try:
                mrv = MemReplay(d, sanitize=False)
            except Infra:
                mrv = None
        dims_harness(c, mr, dims, mrv)
        side_array_tie(c, mr, mrv, exe, dims)
    try:
        entry_point_smoke(c, rebound, mr, dims)
    except (Infra, subprocess.TimeoutExpired):
        raise
    except Exception as ex:
        import traceback
        c.violation("C14:entry-point-smoke-exception:" + type(ex).__name__, "an entry point answered in a way the checker has no case for: %s" % str(ex)[:200],
                    {"traceback": traceback.format_exc()[-2000:]})
    # ---- public entry points (extracted from src/rebound.h and rebound/*.py): each one exercised in this run
    EXERCISED.update(["reb_hash", "hash", "Particles.__setitem__", "Particles.__delitem__", "Particles.__iter__", "Particles.__len__",
                      "Particles.__getitem__", "Particle.hash"])           # hash tie and dims_container above
    cfun, pyfun = extract_entry_points()
    c.cov["entry_points"] = {"C": cfun, "python": pyfun}
    missing_ep = [e_ for e_ in cfun + pyfun if e_ not in EXERCISED]
    c.cov["entry_points_exercised"] = len(cfun) + len(pyfun) - len(missing_ep)
    c.cov["entry_points_extracted"] = len(cfun) + len(pyfun)
    if len(cfun) < 17 or len(pyfun) < 12:
        c.broken.append("entry-point extraction found only %d C functions and %d Python methods (expected >= 17 and >= 12)" % (len(cfun), len(pyfun)))
    if missing_ep:
        c.broken.append("public entry points that reach the particle bookkeeping but were not exercised: " + ", ".join(missing_ep))
    # ---- pairwise coverage of the declared factors
    ps_ = PAIRS.summary()
    c.cov["pairs"] = ps_
    if c.thorough and ps_["covered"] < ps_["total"]:
        c.broken.append("pairwise coverage incomplete in the thorough tier: %d of %d admissible pairs; missing e.g. %s" % (
            ps_["covered"], ps_["total"], ps_["missing"][:5]))
    dims["roles:N_active_set_in_tie"] = stats["ops"].get("setactive", 0)
    dims["variational_particles_present"] = stats["ops"].get("addvar", 0) + stats["ops"].get("setnvar", 0)
    dims["callback:free_particle_ap_installed"] = sum(stats["ops"].get(k, 0) for k in ("rm", "rmh"))
    dims["ap_pointer_travels_with_particle"] = stats["ap_checked"]
    dims["histories:tree_update_between_ops"] = stats["ops"].get("tupd", 0)
    dims["histories:mercurius_step_between_ops_in_tie"] = stats["ops"].get("istep", 0)
    dims["scale:allocation_steps_in_tie"] = sum(stats["growth"].values())
    c.cov["dimensions"] = dims
    required = ["step_after_each_structural_op:" + k for k in INTEGRATORS] + [
        "internal_removal:collision_mode_1", "internal_removal:boundary_open", "option:safe_mode0", "option:negative_dt",
        "option:testparticle_type1", "roles:N_active_set", "roles:massless_particles", "python:add_forms_and_hash_types",
        "python:add_from_other_simulation", "python:rename", "python:setitem", "python:iterate_and_remove",
        "restore_then_lookup:archive", "restore_then_lookup:copy", "restore_then_lookup:pickle", "restore_then_lookup:simulationarchive",
        "scale:N_up_across_128_and_1024", "scale:N_down_across_1024_and_128", "roles:N_active_set_in_tie", "variational_particles_present",
        "callback:free_particle_ap_installed", "ap_pointer_travels_with_particle", "histories:tree_update_between_ops",
        "histories:mercurius_step_between_ops_in_tie", "scale:allocation_steps_in_tie", "trace_midstep_removal_of_last_particle",
        "side_arrays:trace_current_Ks_all_N_index", "side_arrays:trace_current_Ks_add_all_N_encounter",
        "side_arrays:mercurius_part1_read_before_write"] + [
        "side_arrays:allocation_after_step:" + k for k in SIDE_KIND] + [
        "step_with_N_1_and_N_0:" + k for k in ("whfast", "saba", "ias15", "leapfrog", "janus", "mercurius", "eos", "bs", "trace")]
    for k in required:
        if not dims.get(k):
            c.broken.append("dimension %s not covered" % k)

    c.cov["op_histogram"] = stats["ops"]
    c.cov["outcome_histogram"] = stats["outs"]
    c.cov["max_N"] = stats["maxN"]
    c.cov["allocation_steps_seen"] = stats["growth"]
    c.cov["duplicate_hash_lookups"] = stats["dup_lookups"]
    c.cov["duplicate_hash_removals"] = stats["dup_removals"]
    c.cov["zero_hash_lookups"] = stats["zero_lookups"]
    c.cov["deviations_from_documented_behaviour"] = stats["deviations"]
    c.cov["f4_shapes_behaving_as_documented"] = stats["shapes_clean"]
    c.cov["unclassified_outcomes"] = stats["odd_outs"][:5]
    c.cov["tree_updates_not_explained_by_swap_removals"] = stats["tupd_unexplained"]
    if stats["tupd_unexplained"]:
        c.corr_break("%d tree updates left a particle array that no sequence of swap-with-last evictions of the flagged particles produces" % stats["tupd_unexplained"])
    if stats["odd_outs"]:
        o = stats["odd_outs"][0]
        c.violation("C14:unexpected-message:%s" % o[0].split(":")[0], "operation %s with N=%d produced %s" % (o[1], o[2], o[0]), {"op": o[1]})

    # ---- memory: the histories replayed through a C harness under valgrind (quick) / ASan+UBSan (thorough)
    try:
        if mr is None:
            raise Infra("memory replay not available")
        sel = histories if c.thorough else histories[:25]
        sel = sel + [(cfg, ops) for cfg, ops in directed]
        res = mr.run(sel)
        c.cov["memory_replay"] = {"tool": "asan+ubsan" if c.thorough else "valgrind memcheck", "histories": len(sel),
                                  "ops_replayed": res["ops"], "answers": res["answers"], "clean": not res["bad"]}
        c.count(("memreplay", c.thorough), n=res["answers"])
        if res["bad"]:
            c.violation("C14:memory", "memory error while replaying recorded histories (%s): %s" % (
                c.cov["memory_replay"]["tool"], res["report"][-500:]), {"report": res["report"], "histories": sel[:3]})
        # F18a witness: remove_all on a tree simulation, then add (kept out of the histories above on purpose)
        wcfg = dict(tree="collision", box=True, boundary="none", integrator="ias15")
        wops = [("add", i, 1000 + i, 0) for i in range(1, 301)] + [("rmall",)] + [("add", 1000 + i, 5000 + i, 0) for i in range(1, 41)]
        res = mr.run([(wcfg, wops)], timeout=300)
        c.cov["memory_replay_remove_all_tree_witness"] = {"clean": not res["bad"], "answers": res["answers"]}
        if res["bad"]:
            c.violation("F18a:remove_all-keeps-tree", "300 particles in a collision-tree simulation, reb_simulation_remove_all_particles, then add: "
                        "the tree still refers to the freed particle array and reb_tree_add_particle_to_cell reads/writes outside the particle storage: "
                        + res["report"][:300].replace("\n", " | "), {"cfg": wcfg, "ops": "add x300, rmall, add x40", "report": res["report"]})
        # F20 witness: variational configuration survives remove_all and is used again after the next add_variation
        wcfg = dict(tree="none", box=False, boundary="none", integrator="leapfrog")
        wops = [("add", i, 1000 + i, 0) for i in range(1, 201)] + [("addvar",), ("rmall",), ("add", 301, 1, 0), ("add", 302, 2, 0),
                                                                   ("addvar",), ("integrate", 2)]
        res = mr.run([(wcfg, wops)], timeout=300)
        c.cov["memory_replay_stale_var_config_witness"] = {"clean": not res["bad"], "answers": res["answers"]}
        if res["bad"]:
            c.violation("F20:remove_all-keeps-var_config",
                        "200 particles, add_variation, remove_all, 2 particles, add_variation, 2 steps: remove_all reset N_var but kept N_var_config/var_config; "
                        "the stale configuration (index 200) is used by reb_calculate_acceleration_var, which writes outside the particle storage: "
                        + res["report"][:300].replace("\n", " | "), {"cfg": wcfg, "ops": "add x200, addvar, rmall, add x2, addvar, integrate 2", "report": res["report"]})
        # F4f witness: MERCURIUS, integrate (allocates dcrit), remove everything, remove once more
        wcfg = dict(tree="none", box=False, boundary="none", integrator="mercurius")
        wops = [("add", 1, 11, 0), ("add", 2, 12, 0), ("add", 3, 13, 0), ("integrate", 3),
                ("rm", 0, 1), ("rm", 0, 1), ("rm", 0, 1), ("rm", 0, 1), ("add", 4, 14, 0)]
        res = mr.run([(wcfg, wops)], timeout=300)
        c.cov["memory_replay_empty_mercurius_witness"] = {"clean": not res["bad"], "answers": res["answers"]}
        if res["bad"]:
            c.violation("F4f:remove-from-empty-mercurius-simulation-overruns-dcrit",
                        "MERCURIUS: 3 particles, 3 steps, remove all three, then remove(index=0) from the empty simulation: the dcrit shift loop runs "
                        "i < N-1 with N = 0 (unsigned) and reads/writes far beyond the array (SIGSEGV): " + res["report"][:300].replace("\n", " | "),
                        {"cfg": wcfg, "ops": wops, "report": res["report"]})
    except Infra as e:
        c.cov["memory_replay"] = {"error": str(e)[:500]}
        c.broken.append("memory replay could not run: " + str(e)[:300])


def run_guarded(c):
    try:
        run(c)
    except (Infra, subprocess.TimeoutExpired):
        raise
    except Exception as ex:
        import traceback
        tb = traceback.format_exc()
        c.violation("C14:unexpected-exception:" + type(ex).__name__,
                    "the real code answered in a way the checker has no case for: %s: %s" % (type(ex).__name__, str(ex)[:200]),
                    {"traceback": tb[-3000:]})


def child_main():
    global PROGRESS
    PROGRESS = open(os.environ["C14_PROGRESS"], "w")
    main("C14", run_guarded)


def parent_main():
    """the code under test runs in-process (ctypes): a segfault or an endless loop in it must end as a
    VIOLATION with a replay file, not as a dead checker"""
    tier = "quick"
    for i, a in enumerate(sys.argv):
        if a == "--tier" and i + 1 < len(sys.argv):
            tier = sys.argv[i + 1]
    seed = int(os.environ.get("VERIF_SEED", "1"))
    fd, prog = tempfile.mkstemp(prefix="c14prog.", dir=os.environ.get("VERIF_TMP", "/tmp"))
    os.close(fd)
    env = dict(os.environ, C14_CHILD="1", C14_PROGRESS=prog)
    limit = 3400 if tier == "thorough" else 1200     # generous: lake build can wait a long time for the shared lock
    t0 = time.time()
    try:
        p = subprocess.run([sys.executable, "-u", os.path.abspath(__file__)] + sys.argv[1:], env=env, timeout=limit)
        rc, why = p.returncode, None
        if rc < 0 or rc > 2:
            why = "the checker process died with %s while executing the operation below on the real code" % (
                "signal %d" % -rc if rc < 0 else "exit code %d" % rc)
    except subprocess.TimeoutExpired:
        rc, why = None, "the operation below did not return within %d s (endless loop in the code under test)" % limit
    if why is None:
        os.remove(prog)
        sys.exit(rc)
    hist, cur = [], None
    try:
        for l in open(prog):
            o = json.loads(l)
            if "history" in o:
                cur, hist = o, []
            elif "op" in o:
                hist.append(o["op"])
    except Exception:
        pass
    os.remove(prog)
    path = os.path.join(ROOT, "replays", "C14-%d-crash.json" % seed)
    os.makedirs(os.path.dirname(path), exist_ok=True)
    with open(path, "w") as f:
        json.dump({"property": "C14", "key": "C14:crash-or-hang", "what": why, "seed": seed, "tier": tier,
                   "replay": {"history": cur, "ops": hist, "last_op": hist[-1] if hist else None}}, f, indent=1)
    os.makedirs(os.path.join(ROOT, "evidence"), exist_ok=True)
    with open(os.path.join(ROOT, "evidence", "C14.json"), "w") as f:
        json.dump({"property_id": "C14", "tier": tier, "seed": seed, "level": "proof", "violations": 1,
                   "wall_s": round(time.time() - t0, 2), "assumptions": [],
                   "coverage": {"evaluations": len(hist), "distinct_nontrivial": 0, "rule": "aborted: " + why,
                                "samples": [{"last_op": hist[-1] if hist else None, "history": cur}],
                                "obligations": 0, "discharged": 0, "checker_cmd": "", "trusted_base": []}}, f, indent=1)
    print("[C14] FAILING INPUT: %s: %s (history %s, %d operations in)" % (why, hist[-1] if hist else None,
                                                                       (cur or {}).get("cfg"), len(hist)))
    print("VIOLATION property=C14 replay=%s" % os.path.relpath(path, ROOT))
    sys.exit(1)


if __name__ == "__main__":
    if os.environ.get("C14_CHILD") == "1":
        child_main()
    else:
        parent_main()
