"""C13 — collisions are detected completely and resolved conservatively.

proof:   lean/RV/Props/C13.lean (search loops = declarative spec, line-search minimum, index
         fix-up invariant for every pending list / order / resolver outcome, merge and
         hard-sphere conservation), about lean/RV/Model/Collision.lean
tie:     the same model on IEEE doubles (drv_c13) vs the compiled reb_collision_search /
         reb_simulation_step with a recording collision_resolve callback: pending list after
         the rand_r shuffle, every (p1,p2,ghost box) handed to the resolver, its outcome, and
         the final particle array, bit for bit
search:  brute-force overlap / straight-line oracle across periodic images, identity (hash)
         accounting under scripted removals, conservation sums with math.fsum
"""
import ctypes, json, math, os, sys
sys.path.insert(0, os.path.dirname(os.path.abspath(__file__)))
from common import *
import common
from extract_c13 import remove_variant

MODES = ["direct", "line", "tree", "linetree"]
SCRIPT_TABLE = [0, 1, 2, 3, 0, 5, 6, 1, 2, 0, 7, 0, 4, 2, 1, 3]      # same table in Driver/C13.lean
K_F8 = "F8:tree-prune-stale-max-radius"
K_F17 = "F17:tree-merge-flagged-particle-lingers"
K_F18 = "F18:linetree-prune-omits-partner-radius"
K_LTNEG = "C13-N3:linetree-prune-negative-dt"
K_F4 = "F4:sorted-removal-with-tree"
K_N4 = "C13-N4:keep-sorted-with-tree-merge-duplicates-mass"
K_F19 = "F19:merge-two-massless-nan"
K_F19H = "F19:hardsphere-two-massless-nan"


DIMS = {}                # coverage.dimensions: name -> number of evaluated cases


def dim(name, n=1):
    DIMS[name] = DIMS.get(name, 0) + n


REQUIRED_DIMS = ["N_active<N", "testparticle_type=1", "massless_particles", "variational_particles_nonzero", "dt<0",
                 "shear_ghost_velocity", "zero_radius", "radius_ratio>=1e3", "exact_touch", "restitution_callback",
                 "minimum_collision_velocity", "python_callable_resolver", "named_resolver_after_switching",
                 "full_step_leapfrog", "impact_fast_movers", "root_box_layout", "com_offset_moving",
                 "pending_list_realloc(>32)", "N_crosses_128", "step_mercurius", "step_trace", "step_whfast", "step_ias15",
                 "track_energy_offset_merge", "integrate_split_exact_finish_time", "copy_restore_midrun",
                 "file_restore_midrun", "user_add_remove_midrun", "free_particle_ap", "keep_sorted", "tree_gravity_direct_search", "hybrid_forced_keep_sorted", "radii_after_add_x_ghost_boxes_x_direct",
                 "dt!=dt_last_done_x_line_searches", "pass_through_refined_cells",
                 "particle_leaves_open_box_first_half", "particle_leaves_open_box_second_half"]
VARIANT = ["0"] * 7      # RmVariant flags (5) + purge-flagged-at-end-of-search, determined in run()
KSFALLBACK = [False]     # fixes/C13-keep-sorted-with-tree-fallback.diff applied? (probed in run())
PURGE = [False]          # fixes/C13-tree-merge-remove-at-boundary.diff applied? (probed in run())
RESFLAGS = {"merge": "0", "hs": "0"}     # massless guards of the built-in resolvers (probed in run())
VARIANT_NAMES = ["rangeFirst", "lastResetsNActive", "lastDeletesTree", "sortedTreeErrFirst", "unsortedClampNActive"]


def script_out(salt, a, b):
    h = (a * 2654435761 + b * 40503 + salt * 97 + 12345) % 4294967296
    h = (h // 8192) ^ h
    return SCRIPT_TABLE[h % 16]



# ----------------------------------------------------------------------------- factors and pairwise covering array
FACTORS = {
    "mode": ["direct", "line", "tree", "linetree"],
    "boundary": ["none", "open", "periodic", "shear"],
    "ghost": ["0", "1", "2"],                         # largest N_ghost over the axes: 0, 1, >= 2 (clamped to the inner ring)
    "radii": ["add", "edited"],                       # radii given to reb_simulation_add / assigned afterwards
    "drive": ["step", "bare_eq", "bare_lt", "bare_gt", "leapfrog", "mercurius", "trace"],
    "resolver": ["script", "merge", "hs", "hs_cb", "halt"],
    "gravtree": [0, 1],
    "ks": [0, 1],
    "teo": [0, 1],
    "nact": [0, 1],
    "tpt": [0, 1],
    "dtsign": ["+", "-"],
    "nroot": ["single", "multi"],
    "geom": ["cluster", "flyby", "impact", "passthrough"],
    "mcv": [0, 1],
    "nvar": [0, 1],
    "touch": [0, 1],
    "com": [0, 1],
    "leave": ["none", "first", "second"],             # a particle leaves an OPEN box during the first / second half of a full step
}
CORE3 = ("mode", "boundary", "ghost", "radii", "drive")      # 3-way coverage in the thorough tier


def pair_excluded(fa, va, fb, vb):
    """reason why the pair of factor values cannot occur together (None: applicable).  Listed explicitly, never silently."""
    d = {fa: va, fb: vb}
    g = d.get
    tree_mode = g("mode") in ("tree", "linetree")
    hyb = g("drive") in ("mercurius", "trace")
    if g("leave") in ("first", "second") and (g("boundary") in ("none", "periodic", "shear") or (g("drive") is not None and g("drive") != "leapfrog") or g("geom") == "passthrough" or g("nvar") == 1 or g("com") == 1):
        return "a particle can only leave an open box, during a full step of a moving integrator"
    if g("boundary") == "none" and g("ghost") in ("1", "2"):
        return "boundary none: every ghost box is the zero vector (images coincide)"
    if hyb and tree_mode:
        return "MERCURIUS/TRACE refuse tree collision searches"
    if g("drive") == "mercurius" and g("mode") == "line":
        return "MERCURIUS only supports the direct search (the LINE loop ignores its encounter map)"
    if hyb and g("gravtree") == 1:
        return "hybrids force keep_sorted, which reb_simulation_remove_particle refuses when a tree exists"
    if hyb and g("geom") in ("impact", "passthrough"):
        return "impact / pass-through families need a tree mode or a bare LINE search with integrator none"
    if g("geom") == "impact" and (g("mode") in ("direct", "line") or (g("drive") is not None and g("drive") != "leapfrog") or g("boundary") == "shear" or g("gravtree") == 1):
        return "impact family = tree modes x full leapfrog step, force-free, no shear"
    if g("geom") == "passthrough" and (g("mode") in ("direct", "tree") or (g("drive") is not None and not str(g("drive")).startswith("bare")) or g("boundary") == "shear"):
        return "pass-through family = LINE/LINETREE x bare search, no shear"
    if g("geom") in ("impact", "passthrough") and (g("touch") == 1 or g("nvar") == 1):
        return "family replaces the particle set"
    if g("nvar") == 1 and (tree_mode or g("gravtree") == 1):
        return "variational particles are added at identical coordinates: the tree refuses them"
    if g("nvar") == 1 and g("drive") in ("leapfrog", "mercurius", "trace"):
        return "no variational equations for these integrators in this configuration"
    if g("nvar") == 1 and g("resolver") == "merge":
        return "removal refused with variational particles (error) after the merge has been applied"
    if g("com") == 1 and (g("boundary") in ("open", "periodic", "shear") or tree_mode or g("gravtree") == 1 or hyb):
        return "far-away centre of mass needs no box test: boundary none, no tree, integrator none/leapfrog"
    if g("com") == 1 and g("geom") == "impact":
        return "impact family needs a tree mode, far-away centre of mass excludes trees"
    if g("com") == 1 and (g("nroot") == "multi" or g("ghost") in ("1", "2")):
        return "far-away centre of mass: box geometry not applicable"
    if g("drive") in ("leapfrog",) and g("nvar") == 1:
        return "leapfrog without variational support"
    return None


def repair(f):
    """drop demanded values until no excluded pair is left (the most specific factors give way first)"""
    order = ["leave", "com", "nvar", "touch", "geom", "gravtree", "ghost", "nroot", "resolver", "drive", "mode"]
    f = dict(f)
    for victim in order:
        names = list(f)
        bad = False
        for i, a in enumerate(names):
            for b in names[i + 1:]:
                if pair_excluded(a, f[a], b, f[b]) and victim in (a, b):
                    bad = True
        if bad:
            f[victim] = {"leave": "none", "com": 0, "nvar": 0, "touch": 0, "geom": "cluster", "gravtree": 0, "ghost": "0", "nroot": "single",
                         "resolver": "script", "drive": "bare_eq", "mode": "direct"}[victim]
    return f


def choose_res(spec):
    kinds = ["script", "script", "script", "merge", "merge", "hs", "halt"]
    if "res" in spec:
        return tuple(spec["res"])
    kind = kinds[spec["seed"] % len(kinds)]
    if kind == "script":
        return ("script", spec["seed"] % 1000)
    if kind == "hs":
        return ("hs", [None, 1.0, 0.5, 0.0][(spec["seed"] // 7) % 4])
    return (kind,)


def factors_of(spec):
    res = choose_res(spec)
    if spec["integrator"] in ("mercurius", "trace", "leapfrog"):
        drive = spec["integrator"]
    elif spec["use_step"]:
        drive = "step"
    elif "dt_next" not in spec:
        drive = "bare_eq"
    else:
        drive = "bare_lt" if abs(spec["dt_next"]) < abs(spec["dt"]) else "bare_gt"
    return {"mode": spec["collision"], "boundary": spec["boundary"], "ghost": str(min(2, max(spec["nghost"]))),
            "radii": "edited" if spec.get("r_after_add") else "add", "drive": drive,
            "resolver": ("hs_cb" if (res[0] == "hs" and res[1] is not None) else res[0]) if res[0] != "zero" else "script",
            "gravtree": int(spec["gravity"] == "tree"), "ks": int(bool(spec["ks"])), "teo": int(bool(spec.get("teo"))),
            "nact": int(spec.get("n_active") is not None), "tpt": int(bool(spec.get("tpt"))), "dtsign": "+" if spec["dt"] > 0 else "-",
            "nroot": "multi" if spec.get("nroot", [1, 1, 1]) != [1, 1, 1] else "single", "geom": spec.get("geom", "cluster"),
            "mcv": int("mcv" in spec), "nvar": int(bool(spec.get("nvar"))), "touch": int(bool(spec.get("exact_touch"))),
            "com": int(bool(spec.get("com_offset"))), "leave": spec.get("leave", "none")}


PAIRS_SEEN = set()
TRIPLES_SEEN = set()


def note_factors(fv):
    names = sorted(fv)
    for i, a in enumerate(names):
        for b in names[i + 1:]:
            PAIRS_SEEN.add((a, fv[a], b, fv[b]))
    core = [n for n in names if n in CORE3]
    for i, a in enumerate(core):
        for j in range(i + 1, len(core)):
            for k in range(j + 1, len(core)):
                b, cc = core[j], core[k]
                TRIPLES_SEEN.add((a, fv[a], b, fv[b], cc, fv[cc]))


def all_pairs():
    names = sorted(FACTORS)
    tot, exc = [], []
    for i, a in enumerate(names):
        for b in names[i + 1:]:
            for va in FACTORS[a]:
                for vb in FACTORS[b]:
                    (exc if pair_excluded(a, va, b, vb) else tot).append((a, va, b, vb))
    return tot, exc


def all_triples():
    core = sorted(CORE3)
    tot, exc = [], []
    for i, a in enumerate(core):
        for j in range(i + 1, len(core)):
            for k in range(j + 1, len(core)):
                b, cc = core[j], core[k]
                for va in FACTORS[a]:
                    for vb in FACTORS[b]:
                        for vc in FACTORS[cc]:
                            bad = pair_excluded(a, va, b, vb) or pair_excluded(a, va, cc, vc) or pair_excluded(b, vb, cc, vc)
                            (exc if bad else tot).append((a, va, b, vb, cc, vc))
    return tot, exc


def covering_forces(rng, n, triples=False):
    """greedy all-pairs: n times, take from 40 random (repaired) candidates the one that covers most pairs not planned yet"""
    planned, planned3 = set(), set()
    out = []
    names = sorted(FACTORS)
    core = sorted(CORE3)
    for _ in range(n):
        best, bestscore = None, -1
        for _c in range(40):
            f = repair({k: rng.choice(FACTORS[k]) for k in names})
            sc = 0
            for i, a in enumerate(names):
                for b in names[i + 1:]:
                    if (a, f[a], b, f[b]) not in planned:
                        sc += 1
            if triples:
                for i, a in enumerate(core):
                    for j in range(i + 1, len(core)):
                        for k in range(j + 1, len(core)):
                            if (a, f[a], core[j], f[core[j]], core[k], f[core[k]]) not in planned3:
                                sc += 1
            if sc > bestscore:
                best, bestscore = f, sc
        out.append(best)
        for i, a in enumerate(names):
            for b in names[i + 1:]:
                planned.add((a, best[a], b, best[b]))
        for i, a in enumerate(core):
            for j in range(i + 1, len(core)):
                for k in range(j + 1, len(core)):
                    planned3.add((a, best[a], core[j], best[core[j]], core[k], best[core[k]]))
    return out


# ----------------------------------------------------------------------------- scenario generator
def gen_spec(rng, idx, thorough=False, force=None):
    """`force`: factor values demanded by the pairwise covering array (see FACTORS); a demanded value that the
    configuration cannot carry (constraints listed in `pair_excluded`) is dropped — coverage is counted on `factors_of(spec)`."""
    F = force or {}

    def ch(name, p):
        return bool(F[name]) if name in F else rng.chance(p)
    L = rng.choice([8.0, 10.0, 20.0, 50.0])
    collision = F.get("mode") or MODES[idx % 4]
    boundary = F.get("boundary") or rng.choice(["periodic", "periodic", "periodic", "none", "open", "shear"])
    if "ghost" in F:
        nghost = {"0": (0, 0, 0), "1": rng.choice([(1, 1, 1), (1, 1, 0), (1, 0, 0)]), "2": rng.choice([(2, 1, 0), (2, 2, 2)])}[F["ghost"]]
        if boundary == "none":
            nghost = (0, 0, 0)      # all ghost boxes of boundary none are the zero vector: excluded pair
    elif boundary in ("periodic", "shear"):
        nghost = rng.choice([(1, 1, 1), (1, 1, 1), (1, 1, 0), (2, 1, 0), (1, 0, 0), (0, 0, 0), (2, 2, 2)])
    else:
        nghost = (0, 0, 0)
    nclu = rng.choice([1, 1, 1, 2])
    parts = []
    hid = 1000 + rng.randint(0, 1000)
    for _ in range(nclu):
        n = rng.randint(2, 8) if rng.chance(0.85) else rng.randint(2, 3)
        r0 = rng.loguniform(0.02, 0.45) * L / 8.0 / max(1.0, n / 4.0)
        fam = rng.choice(["equal", "unequal", "zero", "onebig", "unequal"])
        onebig_f = rng.choice([1e-3, 1e-3, 1e-8])
        radii = []
        for k in range(n):
            if fam == "equal":
                r = r0
            elif fam == "unequal":
                r = r0 * 10 ** (-rng.uniform(0, 3))
            elif fam == "zero":
                r = 0.0 if rng.chance(0.4) else r0 * rng.uniform(0.2, 1)
            else:
                r = r0 if k == 0 else r0 * onebig_f * rng.uniform(0.5, 2)
            radii.append(r)
        if boundary in ("periodic", "shear") and rng.chance(0.65):
            cen = [(rng.choice([-1, 1]) * (L / 2 - rng.uniform(0, 1.5 * r0))) if rng.chance(0.6)
                   else rng.uniform(-L / 2, L / 2) for _ in range(3)]
            if boundary == "shear" and rng.chance(0.7):
                # pairs touching across the radial edge: their images carry the shear velocity -1.5*OMEGA*Lx
                cen[0] = rng.choice([-1, 1]) * L / 2 + rng.uniform(-0.3, 0.3) * r0
        else:
            cen = [rng.uniform(-L / 4, L / 4) for _ in range(3)]
        shape = rng.choice(["chain", "clump", "clump", "star", "flyby"] if collision in ("line", "linetree") else ["chain", "clump", "clump", "star", "star", "flyby"])
        if "geom" in F:
            shape = "flyby" if F["geom"] == "flyby" else rng.choice(["chain", "clump", "star"])
        pos = []
        d = [rng.normal() for _ in range(3)]
        dn = math.sqrt(sum(x * x for x in d)) or 1.0
        d = [x / dn for x in d]
        for k in range(n):
            if shape == "chain":
                if k == 0:
                    p = list(cen)
                else:
                    step = rng.uniform(0.2, 0.98) * (radii[k - 1] + radii[k])
                    if radii[k - 1] + radii[k] == 0.0:
                        step = 0.0 if rng.chance(0.3) else 1e-3 * r0
                    p = [pos[-1][a] + d[a] * step for a in range(3)]
            elif shape == "clump":
                rad = rng.uniform(0.0, 0.9) * max(radii[k], min(radii)) if k else 0.0
                e = [rng.normal() for _ in range(3)]
                en = math.sqrt(sum(x * x for x in e)) or 1.0
                p = [cen[a] + e[a] / en * rad for a in range(3)]
            else:   # star: everybody overlaps particle 0, at distance ~ r_0 + r_k
                if k == 0:
                    p = list(cen)
                else:
                    e = [rng.normal() for _ in range(3)]
                    en = math.sqrt(sum(x * x for x in e)) or 1.0
                    rad = rng.uniform(0.3, 1.02) * (radii[0] + radii[k])
                    p = [cen[a] + e[a] / en * rad for a in range(3)]
            pos.append(p)
        vs = rng.loguniform(1e-2, 1e1) * r0
        app = rng.choice([1, 1, 1, -1, 0])
        flyv = None
        if shape == "flyby":
            # pairs that pass (or just miss) each other *during* the step: closest approach at fraction f of the
            # step, impact parameter b; at both ends of the step they are (mostly) far apart
            dtabs = 0.1     # the spec's |dt| is one of 0.01, 0.05, 0.1, 1.0: the fraction below is rescaled in gen_spec
            flyv = []
            pos = []
            for k in range(n):
                if k % 2 == 0:
                    p = [cen[a] + rng.normal() * 3 * r0 for a in range(3)]
                    pos.append(p)
                    flyv.append([0.3 * vs * rng.normal() for _ in range(3)])
                else:
                    rs = radii[k - 1] + radii[k]
                    wdir = [rng.normal() for _ in range(3)]
                    wn = math.sqrt(sum(x * x for x in wdir)) or 1.0
                    wdir = [x / wn for x in wdir]
                    e = [rng.normal() for _ in range(3)]
                    dot = sum(e[a] * wdir[a] for a in range(3))
                    e = [e[a] - dot * wdir[a] for a in range(3)]
                    en = math.sqrt(sum(x * x for x in e)) or 1.0
                    b = rs * (rng.uniform(0, 0.95) if rng.chance(0.7) else rng.uniform(1.05, 1.6))
                    f = rng.uniform(-0.3, 1.3)
                    travel = max(rs, 1e-3 * r0) * rng.uniform(2, 30)        # |dv|*|dt|
                    # d(tau) = d_end - tau*dv ; closest at tau* = f*dt  =>  d_end = b_vec + f*dt*dv ; (dt*dv) = travel*wdir
                    d_end = [e[a] / en * b + f * travel * wdir[a] for a in range(3)]
                    pos.append([pos[-1][a] - d_end[a] for a in range(3)])
                    flyv.append(("rel", [travel * wdir[a] for a in range(3)]))   # v_{k-1} - v_k = this / dt
        for k in range(n):
            rel = [pos[k][a] - cen[a] for a in range(3)]
            rn = math.sqrt(sum(x * x for x in rel))
            v = [(-app * vs * rel[a] / rn if rn > 0 else 0.0) + 0.3 * vs * rng.normal() for a in range(3)]
            if rng.chance(0.1):
                v = [0.0, 0.0, 0.0]
            if flyv is not None:
                v = flyv[k]
            m = rng.loguniform(1e-3, 1e3) if rng.chance(0.9) else 0.0
            hid += rng.randint(1, 50)
            if flyv is not None and isinstance(v, tuple):
                parts.append(dict(id=hid, x=pos[k][0], y=pos[k][1], z=pos[k][2], vx=v, vy=0.0, vz=0.0, m=m, r=radii[k]))
            else:
                parts.append(dict(id=hid, x=pos[k][0], y=pos[k][1], z=pos[k][2], vx=v[0], vy=v[1], vz=v[2], m=m, r=radii[k]))
    for _ in range(rng.randint(0, 3)):          # isolated fillers
        hid += rng.randint(1, 50)
        parts.append(dict(id=hid, x=rng.uniform(-L / 2.2, L / 2.2), y=rng.uniform(-L / 2.2, L / 2.2), z=rng.uniform(-L / 2.2, L / 2.2),
                          vx=rng.normal(), vy=rng.normal(), vz=rng.normal(), m=rng.loguniform(1e-3, 1.0),
                          r=rng.choice([0.0, 1e-3 * L, 1e-2 * L])))
    # exactly touching pair (dyadic coordinates: r2 == (r1+r2)^2 exactly) — decided by the model tie, not the oracle
    exact_touch = ch("touch", 0.12)
    if exact_touch:
        sft = L / 64.0
        base = [rng.randint(-8, 8) * L / 32.0 for _ in range(3)]
        for k in range(2):
            hid += rng.randint(1, 50)
            parts.append(dict(id=hid, x=base[0] + k * 2 * sft, y=base[1], z=base[2], vx=(-1.0 if k else 1.0) * rng.choice([0.0, 0.5, 1.0]),
                              vy=0.0, vz=0.0, m=1.0, r=sft, touch=1))
    # non-square root-box layout: the base box becomes one root cell of a larger box (shift BEFORE wrapping, so that
    # clusters generated at the faces of the base box straddle root-box faces)
    nroot = [1, 1, 1]
    if (F["nroot"] == "multi") if "nroot" in F else (boundary != "shear" and rng.chance(0.25)):
        nroot = list(rng.choice([(2, 1, 1), (1, 2, 1), (2, 2, 1), (1, 2, 3), (3, 1, 2), (2, 2, 2)]))
        for ai, a in enumerate("xyz"):
            sh = -nroot[ai] * L / 2 + L / 2 + rng.randint(0, nroot[ai] - 1) * L
            for p in parts:
                p[a] += sh
    E = {a: nroot[ai] * L for ai, a in enumerate("xyz")}
    if boundary in ("periodic", "shear"):
        for p in parts:
            for a in "xyz":
                p[a] = ((p[a] + E[a] / 2) % E[a]) - E[a] / 2
    else:
        for p in parts:
            for a in "xyz":
                p[a] = max(-0.49 * E[a], min(0.49 * E[a], p[a]))
    # the tree refuses two particles at identical coordinates: separate exact duplicates a little
    seenpos = set()
    for p in parts:
        while (p["x"], p["y"], p["z"]) in seenpos:
            p["x"] += 1e-9 * L * (1 + rng.uniform())
            if p["x"] > 0.49 * E["x"]:
                p["x"] -= 1e-3 * L
        seenpos.add((p["x"], p["y"], p["z"]))
    parts_unshuffled = list(parts)
    rng.shuffle(parts)
    n = len(parts)
    integ = "none"
    if "drive" in F:
        if F["drive"] == "mercurius" and collision == "direct":
            integ = "mercurius"
        if F["drive"] == "trace" and collision in ("direct", "line"):
            integ = "trace"
    elif collision == "direct" and boundary == "none" and rng.chance(0.5):
        integ = rng.choice(["mercurius", "trace"])      # keep_sorted forced, Ninner = 1
    if "gravtree" in F:
        grav = "tree" if (F["gravtree"] and integ == "none") else "none"
    else:
        grav = "tree" if (collision in ("direct", "line") and rng.chance(0.25) and integ == "none") else "none"
    dtc = rng.choice([0.01, 0.1, -0.05, 1.0])
    if "dtsign" in F:
        dtc = rng.choice([0.01, 0.1, 1.0]) if F["dtsign"] == "+" else rng.choice([-0.05, -0.01, -0.5])
    if "drive" in F:
        ustep = int(F["drive"] in ("step", "leapfrog"))
    else:
        ustep = int(rng.chance(0.6))
    spec = dict(box=L, boundary=boundary, nghost=list(nghost), collision=collision,
                gravity=grav,
                integrator=integ, dt=dtc * (1.0 if boundary != "shear" else 0.1),
                ks=int(ch("ks", 0.5)), n_active=(rng.randint(1, n) if ch("nact", 0.3) else None),
                seed=rng.randint(0, 2 ** 32 - 1), parts=parts, use_step=ustep,
                t0=rng.choice([0.0, 1.5, 7.25]), omega=(rng.choice([1.0, 0.37, 1e-3, 1e-3]) if boundary == "shear" else 0.0),
                r_after_add=0, nroot=nroot, exact_touch=int(exact_touch), tpt=int(ch("tpt", 0.3)), geom=("flyby" if any(isinstance(p["vx"], tuple) for p in parts) else "cluster"))
    for k, p in enumerate(parts_unshuffled):
        if isinstance(p["vx"], tuple):
            prev = parts_unshuffled[k - 1]
            rel = p["vx"][1]
            p["vx"], p["vy"], p["vz"] = [prev[a] - rel[i] / spec["dt"] for i, a in enumerate(("vx", "vy", "vz"))]
    if (F["radii"] == "edited") if "radii" in F else (rng.chance(0.25) and integ == "none"):
        # radii assigned after reb_simulation_add (sim.particles[i].r = R): nothing cached at add time may be trusted
        spec["r_after_add"] = 1
    if spec["collision"] in ("tree", "linetree") and "ks" not in F:
        spec["ks"] = 0 if rng.chance(0.9) else 1        # sorted removal + tree is rejected by the code (F4)
    if spec["gravity"] == "tree" and spec["ks"] == 1 and "ks" not in F and rng.chance(0.8):
        spec["ks"] = 0
    if boundary == "shear" and "resolver" not in F and rng.chance(0.6):
        if nghost[0] == 0:
            spec["nghost"] = [1, 1, 0]
        spec["res"] = ["hs", rng.choice([None, 1.0, 0.5])]
    force_lf = False
    passthrough = False
    bare_ok = ("drive" not in F) or F["drive"].startswith("bare")
    if collision in ("line", "linetree") and boundary != "shear" and integ == "none" and bare_ok and ((F["geom"] == "passthrough") if "geom" in F else rng.chance(0.3)):
        # pass-through family (bare search): two fast particles whose paths crossed DURING the step just done and that are
        # far apart now, each with slow bystanders next to its current position (refined cells).  The state is the one an
        # adaptive integrator leaves behind: the step proposed next (sim.dt) differs from the step done (dt_last_done)
        passthrough = True
        del parts[:]
        hid2 = 7000
        dtv = spec["dt"]
        for _ in range(rng.choice([1, 1, 2])):
            X = [rng.uniform(-L / 10, L / 10) for _ in range(3)]
            rr = [rng.loguniform(0.004, 0.02) * L for _ in range(2)]
            f = rng.uniform(0.2, 0.8)
            bo = [rng.normal() for _ in range(3)]
            bn = math.sqrt(sum(x * x for x in bo)) or 1.0
            b = rng.uniform(0.0, 0.8) * (rr[0] + rr[1])
            for k in range(2):
                e = [rng.normal() for _ in range(3)]
                en = math.sqrt(sum(x * x for x in e)) or 1.0
                travel = [x / en * rng.uniform(0.15, 0.3) * L for x in e]          # v*dt
                cross = [X[a] + (bo[a] / bn * b if k else 0.0) for a in range(3)]
                pe = [cross[a] + f * travel[a] for a in range(3)]                  # x_end = x(tau*) + tau* v, tau* = f dt
                hid2 += 7
                parts.append(dict(id=hid2, x=pe[0], y=pe[1], z=pe[2], vx=travel[0] / dtv, vy=travel[1] / dtv, vz=travel[2] / dtv,
                                  m=rng.loguniform(1e-2, 1e2), r=rr[k]))
                for _b in range(rng.choice([1, 2])):
                    hid2 += 7
                    q = [rng.normal() for _ in range(3)]
                    qn = math.sqrt(sum(x * x for x in q)) or 1.0
                    bd = rng.uniform(0.02, 0.07) * L
                    parts.append(dict(id=hid2, x=pe[0] + q[0] / qn * bd, y=pe[1] + q[1] / qn * bd, z=pe[2] + q[2] / qn * bd,
                                      vx=0.0, vy=0.0, vz=0.0, m=1.0, r=rng.choice([0.0, 1e-3 * L])))
        for p in parts:
            for a in "xyz":
                p[a] = max(-0.49 * E[a], min(0.49 * E[a], p[a]))
        rng.shuffle(parts)
        spec["n_active"] = None if "nact" not in F or not F["nact"] else rng.randint(1, len(parts))
        spec["parts"] = parts
        spec["use_step"] = 0
        spec["geom"] = "passthrough"
        spec["exact_touch"] = 0
    if "drive" in F:
        if F["drive"] == "bare_lt" and not spec["use_step"]:
            spec["dt_next"] = spec["dt"] * rng.choice([0.01, 0.05, 0.2, 0.5])
        if F["drive"] == "bare_gt" and not spec["use_step"]:
            spec["dt_next"] = spec["dt"] * rng.choice([2.0, 4.0])
    elif integ == "none" and not spec["use_step"] and rng.chance(0.7):
        # bare search in the state an adaptive integrator leaves: dt (next step) != dt_last_done (step done)
        spec["dt_next"] = spec["dt"] * rng.choice([0.01, 0.05, 0.2, 0.5, 2.0, 4.0])
    lf_ok = ("drive" not in F) or F["drive"] == "leapfrog"
    if not passthrough and collision in ("tree", "linetree") and boundary != "shear" and integ == "none" and lf_ok and spec["gravity"] == "none" and ((F["geom"] == "impact") if "geom" in F else rng.chance(0.2)):
        # impact family: fast movers arriving from distant cells of the tree within one step, each with a slow
        # bystander next to its mid-step position (where the tree was last brought up to date) so that those cells
        # are refined; the pair overlaps only at the end of the step
        del parts[:]
        hid2 = 5000
        dtv = spec["dt"]
        for _ in range(rng.choice([1, 1, 2])):
            end = [rng.uniform(-L / 8, L / 8) for _ in range(3)]
            rr = [rng.loguniform(0.004, 0.02) * L for _ in range(2)]
            for k in range(2):
                e = [rng.normal() for _ in range(3)]
                en = math.sqrt(sum(x * x for x in e)) or 1.0
                travel = [x / en * rng.uniform(0.2, 0.34) * L for x in e]
                off = [rng.normal() for _ in range(3)]
                on = math.sqrt(sum(x * x for x in off)) or 1.0
                sep = rng.uniform(0.1, 0.9) * (rr[0] + rr[1]) * (0.5 if k else -0.5)
                pe = [end[a] + off[a] / on * sep * (1 if k else 1) for a in range(3)] if k else list(end)
                hid2 += 7
                parts.append(dict(id=hid2, x=pe[0], y=pe[1], z=pe[2], vx=travel[0] / dtv, vy=travel[1] / dtv, vz=travel[2] / dtv,
                                  m=rng.loguniform(1e-2, 1e2), r=rr[k]))
                mid = [pe[a] - 0.5 * travel[a] for a in range(3)]
                for _b in range(rng.choice([1, 2])):
                    hid2 += 7
                    bo = [rng.normal() for _ in range(3)]
                    bn = math.sqrt(sum(x * x for x in bo)) or 1.0
                    bd = rng.uniform(0.02, 0.07) * L
                    parts.append(dict(id=hid2, x=mid[0] + bo[0] / bn * bd, y=mid[1] + bo[1] / bn * bd, z=mid[2] + bo[2] / bn * bd,
                                      vx=0.0, vy=0.0, vz=0.0, m=1.0, r=rng.choice([0.0, 1e-3 * L])))
        for p in parts:
            for a in "xyz":
                p[a] = max(-0.49 * E[a], min(0.49 * E[a], p[a]))
        rng.shuffle(parts)
        spec["n_active"] = None if "nact" not in F or not F["nact"] else rng.randint(1, len(parts))
        spec["parts"] = parts
        spec["geom"] = "impact"
        spec["exact_touch"] = 0
        force_lf = True
    want_lf = force_lf or ((F["drive"] == "leapfrog") if "drive" in F else (spec["gravity"] == "none" and boundary != "shear" and rng.chance(0.35)))
    if integ == "none" and not passthrough and "dt_next" not in spec and want_lf and not spec.get("nvar"):
        if spec["gravity"] == "tree":
            spec["G"] = 0.0         # tree gravity machinery active (tree exists, gravity data updated) but force-free: straight paths
        # a full reb_simulation_step with a moving integrator: the designed configuration is the one at the END of
        # the step (positions are moved back by v*dt), so particles arrive from other cells of the tree
        spec["integrator"] = "leapfrog"
        spec["use_step"] = 1
        for p in parts:
            if p.get("touch"):
                p["vx"] = 0.0       # dyadic coordinates and velocities would make the pair coincide exactly in mid-step (the tree refuses that)
        for p in parts:
            p["x"] -= p["vx"] * spec["dt"]; p["y"] -= p["vy"] * spec["dt"]; p["z"] -= p["vz"] * spec["dt"]
            if boundary in ("periodic", "shear"):
                for a in "xyz":
                    p[a] = ((p[a] + E[a] / 2) % E[a]) - E[a] / 2
            else:
                for a in "xyz":
                    p[a] = max(-0.49 * E[a], min(0.49 * E[a], p[a]))
        if boundary == "open" and ("leave" in F or rng.chance(0.35)):
            # particles that leave the open box during this step: in the first half (dropped by the mid-step boundary check
            # when a tree exists) or in the second half (dropped by the end-of-step check, before the collision search)
            which = F["leave"] if F.get("leave") in ("first", "second") else (rng.choice(["first", "second", "second"]) if "leave" not in F else "none")
            if which != "none":
                for _l in range(rng.choice([1, 1, 2])):
                    ai = rng.randint(0, 2)
                    a = "xyz"[ai]
                    sg = rng.choice([-1.0, 1.0])
                    T = rng.uniform(0.1, 0.3) * E[a]
                    f = rng.uniform(0.05, 0.45) if which == "second" else rng.uniform(0.55, 0.95)
                    q = dict(id=8000 + 11 * _l + rng.randint(0, 9), m=rng.loguniform(1e-3, 1e1), r=rng.choice([0.0, 1e-2 * L, 5e-2 * L]),
                             x=rng.uniform(-0.3, 0.3) * E["x"], y=rng.uniform(-0.3, 0.3) * E["y"], z=rng.uniform(-0.3, 0.3) * E["z"],
                             vx=0.0, vy=0.0, vz=0.0)
                    q[a] = sg * (E[a] / 2 + (f - 1.0) * T)          # start position; end = start + sg*T
                    q["v" + a] = sg * T / spec["dt"]
                    parts.insert(rng.randint(0, len(parts)), q)
                spec["leave"] = which
                if spec.get("n_active") is not None:
                    spec["n_active"] = min(len(parts), spec["n_active"])
    if ch("mcv", 0.3) and ("res" not in spec or "mcv" in F):
        spec["mcv"] = rng.loguniform(1e-3, 1e2)
    if ch("teo", 0.5):
        spec["teo"] = 1                                   # track_energy_offset: merge must book the pair terms
        if "G" not in spec:
            spec["G"] = rng.choice([1.0, 6.674e-11, 39.47841760435743, 0.37])        # minimum_collision_velocity (hard-sphere clamp)
    if collision in ("direct", "line") and spec["integrator"] == "none" and spec["gravity"] == "none" and spec["geom"] in ("cluster", "flyby") and ch("nvar", 0.12):
        spec["nvar"] = 1                                # variational particles: removals are refused
        if "drive" not in F:
            spec["use_step"] = 0
        spec["res"] = ["script", spec["seed"] % 1000]
    if integ != "none":
        spec["use_step"] = 0
    if spec["ks"] == 1 and (spec["gravity"] == "tree" or collision in ("tree", "linetree")):
        spec["res"] = ["script", spec["seed"] % 1000]     # rejected configuration: only the scripted resolver
    if "resolver" in F:
        rv = F["resolver"]
        if not (spec.get("nvar") and rv == "merge") and not (spec["ks"] == 1 and (spec["gravity"] == "tree" or collision in ("tree", "linetree")) and rv == "merge") \
                and not (spec["integrator"] in ("mercurius", "trace") and spec["gravity"] == "tree"):
            spec["res"] = {"script": ["script", spec["seed"] % 1000], "merge": ["merge"], "hs": ["hs", None],
                           "hs_cb": ["hs", rng.choice([1.0, 0.5, 0.0])], "halt": ["halt"]}[rv]
    if boundary == "none" and collision in ("direct", "line") and spec["gravity"] == "none" and spec["integrator"] in ("none", "leapfrog") and ch("com", 0.4):
        # centre of mass far from the origin and moving
        off = [rng.uniform(-1e3, 1e3) * L for _ in range(3)]
        boost = [rng.normal() * 10.0 for _ in range(3)]
        for p in parts:
            for ai, a in enumerate("xyz"):
                p[a] += off[ai]
                p["v" + a] += boost[ai]
        spec["com_offset"] = 1
    return spec


# ----------------------------------------------------------------------------- real code
class World:
    def __init__(self, rebound):
        self.rebound = rebound
        self.clib = rebound.clibrebound
        from rebound.vectors import Vec6d
        from rebound.simulation import CollisionS
        self.clib.reb_boundary_get_ghostbox.restype = Vec6d
        S = ctypes.POINTER(rebound.Simulation)
        for f in ("reb_collision_resolve_merge", "reb_collision_resolve_hardsphere", "reb_collision_resolve_halt"):
            getattr(self.clib, f).restype = ctypes.c_int
            getattr(self.clib, f).argtypes = [S, CollisionS]
        self.clib.reb_collision_search.restype = None
        self.clib.reb_simulation_step.restype = None


def make_sim(W, spec):
    sim = W.rebound.Simulation()
    sim.integrator = spec["integrator"]
    sim.collision = spec["collision"]
    if spec["box"]:
        nr = spec.get("nroot", [1, 1, 1])
        sim.configure_box(spec["box"], nr[0], nr[1], nr[2])
    if spec.get("tpt"):
        sim.testparticle_type = 1
    if "G" in spec:
        sim.G = spec["G"]
    if spec.get("teo"):
        sim.track_energy_offset = 1
    sim.gravity = spec["gravity"]
    sim.boundary = spec["boundary"]
    sim.N_ghost_x, sim.N_ghost_y, sim.N_ghost_z = spec["nghost"]
    sim.dt = spec["dt"]
    if spec.get("omega"):
        sim.ri_sei.OMEGA = spec["omega"]
    for p in spec["parts"]:
        sim.add(m=p["m"], r=(0.0 if spec.get("r_after_add") else p["r"]), x=p["x"], y=p["y"], z=p["z"],
                vx=p["vx"], vy=p["vy"], vz=p["vz"], hash=p["id"])
    if spec.get("r_after_add"):
        for i, p in enumerate(spec["parts"]):
            sim._particles[i].r = p["r"]
    if spec.get("n_active") is not None:
        sim.N_active = spec["n_active"]
    sim.collision_resolve_keep_sorted = spec["ks"]
    sim.t = spec["t0"]
    sim.dt_last_done = spec["dt"]
    if "dt_next" in spec and not spec["use_step"]:
        sim.dt = spec["dt_next"]
    sim.rand_seed = spec["seed"]
    if "mcv" in spec:
        sim.minimum_collision_velocity = spec["mcv"]
    if spec.get("nvar"):
        nreal = sim.N
        sim.add_variation()
        # non-zero variational data, sitting on top of the real particles and with huge radii: they must not be searched
        for i in range(nreal, sim.N):
            src, dst = sim._particles[i - nreal], sim._particles[i]
            dst.x, dst.y, dst.z = src.x, src.y + 1e-3, src.z
            dst.vx, dst.vy, dst.vz = -src.vx, 0.5, -0.25
            dst.m = 0.125
            dst.r = 10.0 * spec["box"]
    return sim


class TreeCell(ctypes.Structure):
    pass


TreeCell._fields_ = [("x", ctypes.c_double), ("y", ctypes.c_double), ("z", ctypes.c_double), ("w", ctypes.c_double),
                     ("m", ctypes.c_double), ("mx", ctypes.c_double), ("my", ctypes.c_double), ("mz", ctypes.c_double),
                     ("oct", ctypes.POINTER(TreeCell) * 8), ("pt", ctypes.c_int), ("remote", ctypes.c_int)]


def tree_tokens(sim):
    """pre-order dump of the real oct-tree (struct reb_treecell, tree.h:34-56; no QUADRUPOLE) for drv_c13's `T` op"""
    if not sim._tree_root:
        return ["0"], 0
    roots = ctypes.cast(sim._tree_root, ctypes.POINTER(ctypes.POINTER(TreeCell)))
    toks = [str(sim.N_root)]
    ncell = [0]

    def rec(cp, depth):
        if not cp or depth > 200:
            toks.append("N")
            return
        c = cp.contents
        ncell[0] += 1
        if c.pt >= 0:
            toks.extend(["L", d2h(c.x), d2h(c.y), d2h(c.z), d2h(c.w), str(c.pt)])
        else:
            toks.extend(["D", d2h(c.x), d2h(c.y), d2h(c.z), d2h(c.w)])
            for o in range(8):
                rec(c.oct[o], depth + 1)
    for ri in range(sim.N_root):
        rec(roots[ri], 0)
    return toks, ncell[0]


def pstate(sim):
    out = []
    for i in range(sim.N):
        p = sim._particles[i]
        out.append((int(p._hash), p.x, p.y, p.z, p.vx, p.vy, p.vz, p.m, p.r, p.last_collision))
    return out


def gb_table(W, sim):
    tab = []
    for i in (-1, 0, 1):
        for j in (-1, 0, 1):
            for k in (-1, 0, 1):
                g = W.clib.reb_boundary_get_ghostbox(ctypes.byref(sim), i, j, k)
                tab.append((g.x, g.y, g.z, g.vx, g.vy, g.vz))
    return tab


def run_real(W, spec, res, steps=1):
    """run one search (or `steps` steps) of the real code with a recording resolver.
    res: ("zero",) ("script", salt) ("merge",) ("hs", eps) ("halt",)"""
    sim = make_sim(W, spec)
    calls = []
    hsrec = []
    eorec = []
    freed = []
    kind = res[0]

    def cb(simp, c):
        s = simp.contents
        n = s.N
        a = s._particles[c.p1] if 0 <= c.p1 < n else None
        b = s._particles[c.p2] if 0 <= c.p2 < n else None
        ha = int(a._hash) if a is not None else -1
        hb = int(b._hash) if b is not None else -1
        if kind == "zero":
            out = 0
        elif kind == "script":
            out = script_out(res[1], ha, hb) if (a is not None and b is not None) else 0
        else:
            before = None
            if a is not None and b is not None:
                before = ((a.x, a.y, a.z, a.vx, a.vy, a.vz, a.m, a.r, a.last_collision),
                          (b.x, b.y, b.z, b.vx, b.vy, b.vz, b.m, b.r, b.last_collision))
            fn = {"merge": W.clib.reb_collision_resolve_merge, "hs": W.clib.reb_collision_resolve_hardsphere,
                  "halt": W.clib.reb_collision_resolve_halt}[kind]
            eo0 = s.energy_offset
            out = fn(simp, c)
            if kind == "merge" and spec.get("teo") and before is not None:
                na = s.N_active
                eorec.append((before, out, c.p1, c.p2, (s.N - s.N_var) if na == -1 else na, eo0, s.energy_offset, s.G))
            if before is not None:
                a2 = s._particles[c.p1]; b2 = s._particles[c.p2]
                hsrec.append((before, ((a2.x, a2.y, a2.z, a2.vx, a2.vy, a2.vz, a2.m, a2.r, a2.last_collision),
                                       (b2.x, b2.y, b2.z, b2.vx, b2.vy, b2.vz, b2.m, b2.r, b2.last_collision)),
                              (c.gb.x, c.gb.y, c.gb.z, c.gb.vx, c.gb.vy, c.gb.vz), out, s.t))
            else:
                hsrec.append(None)
        calls.append((c.p1, c.p2, (c.gb.x, c.gb.y, c.gb.z, c.gb.vx, c.gb.vy, c.gb.vz), ha, hb, out, n))
        return out

    sim.collision_resolve = cb
    if kind == "script":
        sim.free_particle_ap = lambda pp: freed.append(int(pp.contents._hash))
    maxr_pre = (sim.max_radius[0], sim.max_radius[1])
    if kind == "hs" and len(res) > 1 and res[1] is not None:
        eps = res[1]
        sim.coefficient_of_restitution = lambda simp, v: eps
    per_step = []
    for st in range(steps):
        n0 = len(calls)
        pre = pstate(sim) if steps > 1 else None
        if spec["use_step"] or steps > 1:
            W.clib.reb_simulation_step(ctypes.byref(sim))
        else:
            W.clib.reb_collision_search(ctypes.byref(sim))
        per_step.append(dict(pre=pre, calls=calls[n0:], post=pstate(sim), t=sim.t))
    return dict(sim=sim, calls=calls, hsrec=hsrec, state=pstate(sim), seed=sim.rand_seed, N=sim.N,
                N_active=sim.N_active, nvar=sim.N_var, eo=sim.energy_offset, G=sim.G, t=sim.t, dtl=sim.dt_last_done, tree=bool(sim._tree_root),
                maxr=(sim.max_radius[0], sim.max_radius[1]), maxr_pre=maxr_pre, per_step=per_step, cb=cb,
                eorec=eorec, freed=freed)


def probe_variant(W):
    """behavioural determination of the RmVariant flags: five direct calls of
    reb_simulation_remove_particle on tiny simulations.  The theorems hold for every variant, so
    the tie only needs *one* fixed variant under which the model reproduces the code."""
    rb = W.rebound
    rm = W.clib.reb_simulation_remove_particle
    rm.restype = ctypes.c_int

    def mk(n, tree=False):
        sim = rb.Simulation()
        if tree:
            sim.configure_box(10.0)
            sim.collision = "tree"
        for i in range(n):
            sim.add(m=1.0, x=0.5 * i, y=0.1 * i, hash=10 + i)
        return sim
    f = {}
    sim = mk(1)
    f["rangeFirst"] = int(rm(ctypes.byref(sim), 5, 0) == 0)
    sim = mk(1); sim.N_active = 1
    rm(ctypes.byref(sim), 0, 0)
    f["lastResetsNActive"] = int(sim.N_active == 0)
    sim = mk(1, tree=True)
    rm(ctypes.byref(sim), 0, 0)
    f["lastDeletesTree"] = int(not bool(sim._tree_root))
    sim = mk(3, tree=True)
    rm(ctypes.byref(sim), 0, 1)
    f["sortedTreeErrFirst"] = int(sim.N == 3)
    sim = mk(3); sim.N_active = 3
    rm(ctypes.byref(sim), 2, 0)
    f["unsortedClampNActive"] = int(sim.N_active == 2)
    # massless guards of the resolvers (fixes/C13-merge-massless.diff, C13-hardsphere-massless.diff)
    from rebound.simulation import CollisionS
    for name, fn in (("mergeMasslessMidpoint", W.clib.reb_collision_resolve_merge), ("hsMasslessEqual", W.clib.reb_collision_resolve_hardsphere)):
        sim = rb.Simulation()
        sim.add(m=0.0, r=1.0, x=-0.5, vx=1.0, hash=1)
        sim.add(m=0.0, r=1.0, x=0.5, vx=-1.0, hash=2)
        sim.t = 1.0
        cc = CollisionS(); cc.p1 = 0; cc.p2 = 1
        fn(ctypes.byref(sim), cc)
        p0 = sim._particles[0]
        f[name] = int(p0.x == p0.x and p0.vx == p0.vx)
    # are particles flagged during a tree-mode search removed at the end of reb_collision_search?
    sim = mk(0, tree=True)
    sim.add(m=1.0, r=1.0, x=-0.5, vx=1.0, hash=1)
    sim.add(m=1.0, r=1.0, x=0.5, vx=-1.0, hash=2)
    sim.add(m=1.0, r=0.1, x=4.0, hash=3)
    sim.t = 1.0
    sim.collision_resolve = "merge"
    sim.N_active = 3
    W.clib.reb_collision_search(ctypes.byref(sim))
    f["treePurgeAtEnd"] = int(sim.N == 2)
    # does reb_simulation_update_tree clamp N_active to N after dropping flagged particles (9a64eba)?
    if sim.N == 3:
        W.clib.reb_simulation_update_tree.restype = None
        W.clib.reb_simulation_update_tree(ctypes.byref(sim))
    f["treeUpdateClampsNActive"] = int(sim.N == 2 and sim.N_active == 2)
    # keep_sorted together with a tree: does reb_collision_search fall back to the unsorted (flag) removal?
    sim = mk(0, tree=True)
    sim.add(m=1.0, r=1.0, x=-0.5, vx=1.0, hash=1)
    sim.add(m=1.0, r=1.0, x=0.5, vx=-1.0, hash=2)
    sim.add(m=1.0, r=0.1, x=4.0, hash=3)
    sim.t = 1.0
    sim.collision_resolve = "merge"
    sim.collision_resolve_keep_sorted = 1
    W.clib.reb_collision_search(ctypes.byref(sim))
    f["keepSortedTreeFallback"] = int(sim.N == 2 or any(sim._particles[i].y != sim._particles[i].y for i in range(sim.N)))
    return f


# ----------------------------------------------------------------------------- model lines
def ring_tokens(spec, tab):
    return [str(v) for v in spec["nghost"]] + [d2h(v) for g in tab for v in g]


def f_line(spec, mode, state, tab, tree, res, dtl, t, ninner, given=(), nvar=0, nactive=None, eo0=0.0):
    hyb = 1 if spec["integrator"] in ("mercurius", "trace") else 0
    if nactive is None:
        nactive = -1 if spec.get("n_active") is None else spec["n_active"]
    ks_eff = 0 if (KSFALLBACK[0] and tree and not hyb) else spec["ks"]
    toks = ["F", mode, str(ks_eff), str(int(tree)), str(hyb),
            str(nactive), str(nvar), str(spec["seed"])] + VARIANT + [d2h(dtl), d2h(t)]
    if res[0] == "script":
        toks += ["script", str(res[1])]
    elif res[0] == "hs":
        toks += ["hs", d2h(res[1] if res[1] is not None else 1.0), d2h(spec.get("mcv", 0.0)), RESFLAGS["hs"]]
    elif res[0] == "merge":
        toks += ["merge", RESFLAGS["merge"], "1" if spec.get("teo") else "0", d2h(spec.get("G", 1.0)), d2h(eo0)]
    else:
        toks += [res[0]]
    toks += [str(ninner)] + ring_tokens(spec, tab)
    toks.append(str(len(state)))
    for p in state:
        toks.append(str(p[0]))
        toks += [d2h(v) for v in p[1:]]
    toks.append(str(len(given)))
    for g in given:
        toks += [str(g[0]), str(g[1]), str(g[2])]
    return " ".join(toks)


def s_line(spec, mode, state, tab, dtl, ninner):
    toks = ["S", mode, d2h(dtl), str(ninner)] + ring_tokens(spec, tab) + [str(len(state))]
    for i, p in enumerate(state):
        toks += [str(i)] + [d2h(v) for v in p[1:7]] + [d2h(p[8])]
    return " ".join(toks)


def parse_s(line):
    t = line.split()
    k = int(t[0])
    out = []
    for i in range(k):
        q = t[1 + 8 * i: 9 + 8 * i]
        out.append((int(q[0]), int(q[1]), tuple(q[2:8])))
    return out


def parse_f(line):
    t = line.split()
    seed = int(t[0]); k = int(t[1]); pos = 2
    calls = []
    for i in range(k):
        q = t[pos:pos + 11]; pos += 11
        calls.append((int(q[0]), int(q[1]), tuple(q[2:8]), int(q[8]), int(q[9]), int(q[10])))
    n = int(t[pos]); na = int(t[pos + 1]); err = int(t[pos + 2]); pos += 3
    ps = []
    for i in range(n):
        q = t[pos:pos + 11]; pos += 11
        ps.append((int(q[0]), int(q[1]), tuple(q[2:11])))
    eo = t[pos + 1] if pos < len(t) and t[pos] == "E" else None
    return dict(seed=seed, calls=calls, N=n, N_active=na, err=err, ps=ps, eo=eo)


def gbhex(g):
    return tuple(d2h(v) for v in g)


def unshuffle(news, lst):
    """invert `for i: swap(a[i], a[news[i]])`"""
    a = list(lst)
    for i in range(len(a) - 1, -1, -1):
        j = news[i]
        a[i], a[j] = a[j], a[i]
    return a


# ----------------------------------------------------------------------------- oracle
def images(spec):
    L = spec["box"]
    rngs = []
    for a in range(3):
        g = spec["nghost"][a]
        c = 1 if g > 1 else g
        rngs.append(list(range(-c, c + 1)))
    return [(i, j, k) for i in rngs[0] for j in rngs[1] for k in rngs[2]]


def oracle_pairs(spec, state, tab, dtl, line):
    """brute force, own algebra: for every ordered pair and ghost image classify
    'yes' / 'no' / 'edge' (within rounding of the threshold)."""
    res = {}
    n = len(state)
    for (gi, gj, gk) in images(spec):
        g = tab[(gi + 1) * 9 + (gj + 1) * 3 + (gk + 1)]
        if spec["boundary"] in ("periodic", "open"):
            # independent of reb_boundary_get_ghostbox: image offset = k * boxsize, no velocity offset
            nr = spec.get("nroot", [1, 1, 1])
            g = (gi * spec["box"] * nr[0], gj * spec["box"] * nr[1], gk * spec["box"] * nr[2], 0.0, 0.0, 0.0)
        elif spec["boundary"] == "none":
            g = (0.0,) * 6
        for i in range(n):
            pi = state[i]
            for j in range(n):
                if i == j:
                    continue
                pj = state[j]
                d = [pi[1 + a] + g[a] - pj[1 + a] for a in range(3)]
                dv = [pi[4 + a] + g[3 + a] - pj[4 + a] for a in range(3)]
                sr = pi[8] + pj[8]
                sr2 = sr * sr
                if not line:
                    r2 = math.fsum(x * x for x in d)
                    dot = math.fsum(d[a] * dv[a] for a in range(3))
                    sc = max(r2, sr2, 1e-300)
                    dsc = math.sqrt(math.fsum(x * x for x in d) * math.fsum(x * x for x in dv)) + 1e-300
                    if abs(r2 - sr2) <= 1e-12 * sc or (r2 < sr2 and abs(dot) <= 1e-12 * dsc):
                        cls = "edge"
                    elif r2 < sr2 and dot < 0:
                        cls = "yes"
                    else:
                        cls = "no"
                else:
                    dv2 = math.fsum(x * x for x in dv)
                    lo, hi = (0.0, dtl) if dtl >= 0 else (dtl, 0.0)
                    tau = 0.0
                    if dv2 > 0:
                        tau = min(hi, max(lo, math.fsum(d[a] * dv[a] for a in range(3)) / dv2))
                    cands = [tau, 0.0, dtl]
                    rmin = min(math.fsum((d[a] - tt * dv[a]) ** 2 for a in range(3)) for tt in cands)
                    sc = max(rmin, sr2, math.fsum(x * x for x in d) * 1e-3, 1e-300)
                    if abs(rmin - sr2) <= 1e-11 * sc:
                        cls = "edge"
                    elif rmin < sr2:
                        cls = "yes"
                    else:
                        cls = "no"
                res[(i, j, (gi, gj, gk))] = cls
    return res


def h_holds(state, maxr):
    """hypothesis H of the pruning lemma: max_radius0/1 bound the largest / second largest radius"""
    rs = sorted((p[8] for p in state), reverse=True)
    r0 = rs[0] if rs else 0.0
    r1 = rs[1] if len(rs) > 1 else 0.0
    return maxr[0] >= r0 and maxr[1] >= r1


# ----------------------------------------------------------------------------- one scenario
def scenario(c, W, exe_lines, spec, tag, stats):
    """phase A (record-only) + phase B (scripted / built-in resolver); queues model lines.
    returns a closure that checks the model outputs once the driver has run."""
    col = spec["collision"]
    A = run_real(W, spec, ("zero",))
    simA = A["sim"]
    tab = gb_table(W, simA)
    nvar = A["nvar"]
    stateA = A["state"]
    stateR = stateA[:len(stateA) - nvar]      # the real particles (variational ones follow them in the array)
    n = len(stateR)
    ninner = 1 if spec["integrator"] in ("mercurius", "trace") else n
    stats["N"][min(n, 16)] = stats["N"].get(min(n, 16), 0) + 1
    if A["N"] != len(spec["parts"]):
        # particles removed by the boundary / tree before the search: the scenario generator keeps them inside
        stats["dropped_by_boundary"] += 1
    reported = [(p1, p2, gbhex(g)) for (p1, p2, g, _, _, _, _) in A["calls"]]
    tabhex = [gbhex(g) for g in tab]
    img_of = {}
    for (gi, gj, gk) in images(spec):
        img_of.setdefault(tabhex[(gi + 1) * 9 + (gj + 1) * 3 + (gk + 1)], (gi, gj, gk))

    # ---- max_radius0/1 contract: when every radius was handed to reb_simulation_add (nothing assigned later,
    #      no merger yet) they must bound the largest / second largest radius — the tree pruning relies on it
    if not spec.get("r_after_add") and A["N"] == len(spec["parts"]) + nvar and not h_holds(stateR, A["maxr"]):
        rs = sorted((p[8] for p in stateR), reverse=True)
        c.violation("max-radius-bookkeeping", "max_radius0/1 = %r do not bound the two largest radii %r although all radii were given to reb_simulation_add"
                    % (list(A["maxr"]), rs[:2]), dict(spec=spec))
    if col in ("tree", "linetree") and spec.get("r_after_add") and A["N"] == len(spec["parts"]) + nvar and not h_holds(stateR, A["maxr"]):
        # after a tree search the repaired code has rescanned the radii (reb_collision_update_max_radius)
        rs = sorted((p[8] for p in stateR), reverse=True)
        c.violation(K_F8, "after a %s search max_radius0/1 = %r do not bound the two largest radii %r (radii assigned after reb_simulation_add)"
                    % (col, list(A["maxr"]), rs[:2]), dict(spec=spec))
    stats["maxr_checked"] = stats.get("maxr_checked", 0) + 1

    # ---- nothing flagged for removal (y = NaN) may be in the array the search runs on
    if any(p[2] != p[2] and p[1] == p[1] for p in stateR):
        c.violation("flagged-particle-at-search:" + col, "%s search: a particle flagged for removal (y = NaN; it left the open box during the step) is still in the particle array "
                    "when the collision search runs (ids %s)" % (col, [p[0] for p in stateR if p[2] != p[2]]), dict(spec=spec))
    if spec.get("leave", "none") != "none":
        dim("particle_leaves_open_box_" + spec["leave"] + "_half")

    # ---- search oracle on the real code (does not use the model)
    line = col in ("line", "linetree")
    orc = oracle_pairs(spec, stateR, tab, A["dtl"], line) if spec["integrator"] in ("none", "leapfrog") and spec["boundary"] != "shear" else None
    if orc is not None:
        repset = {}
        for (p1, p2, gh) in reported:
            im = img_of.get(gh)
            repset[(p1, p2, im)] = repset.get((p1, p2, im), 0) + 1
        nyes = 0
        for key, cls in orc.items():
            i, j, im = key
            if col == "line" and not i < j:
                continue
            if cls == "yes":
                nyes += 1
                found = key in repset
                if not found and col in ("tree", "linetree"):
                    # the tree walks may find an unequal pair from one end only
                    found = (j, i, (-im[0], -im[1], -im[2])) in repset
                if not found:
                    what = "%s search: pair (%d,%d) image %s overlaps%s but is not handed to the resolver" % (
                        col, i, j, im, "" if line else " while approaching")
                    key_f = "missed-pair:" + col
                    if col == "tree" and spec.get("r_after_add") and not h_holds(stateA, A["maxr"]):
                        key_f = K_F8        # the known class: radii assigned after reb_simulation_add
                    if col == "linetree":
                        # two independent causes: with dt<0 the drift terms of the pruning radius are negative
                        key_f = K_F18 if A["dtl"] >= 0 else K_LTNEG
                    c.violation(key_f, what, dict(spec=spec, pair=[i, j], image=im, reported=[list(r[:2]) for r in reported]))
                    stats["missed"][key_f] = stats["missed"].get(key_f, 0) + 1
            elif cls == "no" and key in repset:
                c.violation("spurious-pair:" + col, "%s search: pair (%d,%d) image %s handed to the resolver without %s" % (
                    col, i, j, im, "path overlap" if line else "overlap+approach"), dict(spec=spec, pair=[i, j], image=im))
        for key, cnt in repset.items():
            if cnt > 1:
                c.violation("duplicate-pair:" + col, "%s search: pair %s handed to the resolver %d times in one step" % (col, key, cnt),
                            dict(spec=spec, pair=list(key[:2])))
            if key[2] is None or key[0] == key[1] or not (0 <= key[0] < n and 0 <= key[1] < n):
                c.violation("bad-entry:" + col, "%s search: entry %s is not a pair of distinct particles / known ghost box" % (col, key), dict(spec=spec))
        stats["oracle_yes"] += nyes
        stats["oracle_edge"] += sum(1 for v in orc.values() if v == "edge")
        c.count(("oracle", col, spec["boundary"], tuple(spec["nghost"]), min(nyes, 12)), nontrivial=nyes >= 2)

    # ---- tie 0: the ghost boxes themselves (model `ghostBox` = reb_boundary_get_ghostbox, boundary.c:177-229)
    checks = []
    nr_ = spec.get("nroot", [1, 1, 1])
    li_g = len(exe_lines)
    exe_lines.append(" ".join(["G", spec["boundary"], d2h(spec["box"] * nr_[0]), d2h(spec["box"] * nr_[1]), d2h(spec["box"] * nr_[2]),
                               d2h(simA.ri_sei.OMEGA), d2h(simA.t)]))

    def chk0(out, li_g=li_g):
        got = out[li_g].split()
        want = [h for g in tabhex for h in g]
        if got != want:
            bad = [k for k in range(min(len(got), len(want))) if got[k] != want[k]]
            c.corr_break("reb_boundary_get_ghostbox (%s, t=%r): model and code differ in %d of %d numbers, first at box %d component %d: model %s code %s (%s)" % (
                spec["boundary"], simA.t, len(bad) + abs(len(got) - len(want)), len(want), bad[0] // 6 if bad else -1, bad[0] % 6 if bad else -1,
                got[bad[0]] if bad else "-", want[bad[0]] if bad else "-", tag), dict(spec=spec))
            stats["tie_fail"] += 1
        stats["tie_ghostbox"] = stats.get("tie_ghostbox", 0) + 1
    checks.append(chk0)
    # ---- tie 1: search + shuffle  (model line index recorded)
    ring = [tabhex[(i + 1) * 9 + (j + 1) * 3 + (k + 1)] for (i, j, k) in images(spec)]
    if col in ("direct", "line"):
        li = len(exe_lines)
        exe_lines.append(f_line(spec, col, stateA, tab, A["tree"], ("zero",), A["dtl"], A["t"], ninner, nvar=nvar, nactive=A["N_active"]))

        def chk1(out, li=li):
            m = parse_f(out[li])
            got = [(p1, p2, g) for (p1, p2, g, _, _, _) in m["calls"]]
            if sorted(got) != sorted(reported):
                c.corr_break("%s search: model finds %d pairs, code hands over %d — not the same multiset (%s)" % (
                    col, len(got), len(reported), tag),
                    dict(spec=spec, model=sorted(got)[:8], code=sorted(reported)[:8]))
                stats["tie_fail"] += 1
            elif got != reported or m["seed"] != A["seed"]:
                # same pairs, other order: the property quantifies over all orders, so this is not a break
                stats["shuffle_order_differs"] += 1
            stats["tie_search"] += 1
        checks.append(chk1)
    else:
        li_r = len(exe_lines)
        exe_lines.append("R %d %d" % (spec["seed"], len(reported)))
        li_s = len(exe_lines)
        exe_lines.append(s_line(spec, "direct" if col == "tree" else "lineall", stateA, tab, A["dtl"], n))
        # the walk itself: model's treeSearch / lineTreeSearch on the tree read back from the code
        ttoks, ncell = tree_tokens(simA)
        stats["tree_cells"] += ncell
        li_t = len(exe_lines)
        # integrator none: exact tie of reb_collision_update_max_radius from the values before the call; with a moving
        # integrator the tree updates inside the step re-add moved particles (reb_simulation_add counts their radius again,
        # a safe over-estimate), so there the values after the search must be a fixed point of the rescan (= bounds)
        mr_in = A["maxr_pre"] if spec["integrator"] == "none" else A["maxr"]
        tl = ["T", col, d2h(A["dtl"]), d2h(mr_in[0]), d2h(mr_in[1])] + ring_tokens(spec, tab) + [str(len(stateA))]
        for p in stateA:
            tl.append(str(p[0]))
            tl += [d2h(v) for v in p[1:]]
        exe_lines.append(" ".join(tl + ttoks))

        def chk1t(out):
            news = [int(x) for x in out[li_r].split()]
            if news[-1] != A["seed"]:
                stats["shuffle_order_differs"] += 1
            # ---- walk tie: pending list in order of discovery + max_radius bookkeeping
            tt = out[li_t].split()
            if (tt[0], tt[1]) != (d2h(A["maxr"][0]), d2h(A["maxr"][1])):
                c.corr_break("reb_collision_update_max_radius: model %s code %s (%s)" % (tt[:2], [d2h(v) for v in A["maxr"]], tag), dict(spec=spec))
                stats["tie_fail"] += 1
            walk = parse_s(" ".join(tt[2:]))
            if sorted(walk) != sorted(reported):
                c.corr_break("%s walk: model's pending list is not a permutation of the code's: %d vs %d entries (%s)" % (
                    col, len(walk), len(reported), tag), dict(spec=spec, model=sorted(walk)[:8], code=sorted(reported)[:8]))
                stats["tie_fail"] += 1
            elif news[-1] == A["seed"] and walk != unshuffle(news[:-1], reported):
                stats["walk_order_differs"] += 1       # same entries, other order of discovery: not a property matter
            stats["tie_walk"] += 1
            ms = parse_s(out[li_s])
            mset = set(ms)
            rset = set(reported)
            if len(rset) != len(reported):
                c.corr_break("%s search: duplicate entry in the pending list (%s)" % (col, tag), dict(spec=spec))
                stats["tie_fail"] += 1
            # soundness of the leaf test: everything the tree walk reports passes the model's predicate
            if not rset <= mset:
                c.corr_break("%s search: code reports a pair the model's leaf predicate rejects (%s)" % (col, tag),
                             dict(spec=spec, extra=[list(map(str, x)) for x in rset - mset][:5]))
                stats["tie_fail"] += 1
            # completeness under hypothesis H: every pair of the model is found from at least one end
            for (a, b, g) in mset - rset:
                im = img_of.get(g)
                mirror = None
                if im is not None:
                    mirror = (b, a, tabhex[(-im[0] + 1) * 9 + (-im[1] + 1) * 3 + (-im[2] + 1)])
                if mirror is None or mirror not in rset:
                    if col == "tree" and not spec.get("r_after_add") and spec["boundary"] != "shear":
                        c.corr_break("tree search misses pair (%d,%d) of the model's direct search from both ends although every radius was given to reb_simulation_add (%s)" % (a, b, tag),
                                     dict(spec=spec, pair=[a, b]))
                        stats["tie_fail"] += 1
                    stats["tree_pruned_pairs"] += 1
            stats["tie_search"] += 1
        checks.append(chk1t)

    # ---- phase B
    res = choose_res(spec)
    kind = res[0]
    B = run_real(W, spec, res)
    stats["resolver"][kind] = stats["resolver"].get(kind, 0) + 1
    stats["calls"] += len(B["calls"])
    callsB = [(p1, p2, gbhex(g), ha, hb, out) for (p1, p2, g, ha, hb, out, _) in B["calls"]]
    removed_any = any(o & 3 for (_, _, _, _, _, o) in callsB)
    hyb_ = spec["integrator"] in ("mercurius", "trace")
    ks_eff = 0 if (KSFALLBACK[0] and B["tree"] and not hyb_) else spec["ks"]
    path = ("sorted" if (ks_eff or hyb_) else "unsorted") + ("+tree" if B["tree"] else "")
    if removed_any:
        stats["paths"][path] = stats["paths"].get(path, 0) + 1
    c.count(("fixup", path, kind, min(len(callsB), 10), min(n, 10)), nontrivial=(len(reported) >= 3 and removed_any))
    note_factors(factors_of(spec))
    # ---- cross-cutting dimensions covered by this scenario
    rads = [p[8] for p in stateR]
    if spec.get("n_active") is not None and spec["n_active"] < n: dim("N_active<N")
    if spec.get("tpt"): dim("testparticle_type=1")
    if any(p[7] == 0.0 for p in stateR): dim("massless_particles")
    if nvar: dim("variational_particles_nonzero")
    if A["dtl"] < 0: dim("dt<0")
    if any(any(v != 0.0 for v in g[3:6]) for (_, _, g, _, _, _, _) in A["calls"]): dim("shear_ghost_velocity")
    if any(r == 0.0 for r in rads) and reported: dim("zero_radius")
    if rads and min([r for r in rads if r > 0] + [1e300]) * 1e3 <= max(rads): dim("radius_ratio>=1e3")
    if spec.get("exact_touch"): dim("exact_touch")
    if kind == "hs" and res[1] is not None and B["hsrec"]: dim("restitution_callback")
    if kind == "hs" and spec.get("mcv") and B["hsrec"]: dim("minimum_collision_velocity")
    dim("python_callable_resolver")
    if spec["integrator"] == "leapfrog": dim("full_step_leapfrog")
    if spec["integrator"] == "leapfrog" and any(p["id"] > 5000 for p in spec["parts"]): dim("impact_fast_movers")
    if spec.get("nroot", [1, 1, 1]) != [1, 1, 1]: dim("root_box_layout")
    if spec.get("com_offset"): dim("com_offset_moving")
    if spec.get("r_after_add") and col in ("direct", "line") and any(g[:3] != (0.0, 0.0, 0.0) for (_, _, g, _, _, _, _) in A["calls"]):
        dim("radii_after_add_x_ghost_boxes_x_direct")
    if "dt_next" in spec and not spec["use_step"] and col in ("line", "linetree") and reported:
        dim("dt!=dt_last_done_x_line_searches")
    if any(p["id"] > 7000 and p["id"] < 9000 for p in spec["parts"]) and reported:
        dim("pass_through_refined_cells")
    if len(reported) > 32: dim("pending_list_realloc(>32)")
    if len(stateA) >= 128 > B["N"]: dim("N_crosses_128")
    if path.startswith("sorted") and removed_any: dim("keep_sorted")
    if spec["gravity"] == "tree" and removed_any: dim("tree_gravity_direct_search")
    if spec["integrator"] in ("mercurius", "trace") and removed_any: dim("hybrid_forced_keep_sorted")
    # free_particle_ap is called exactly once for every particle removed by the resolution loop, and never for a survivor
    # (particles dropped by the boundary check / tree update are not this property's business)
    if kind == "script" and path != "sorted+tree" and not nvar:
        fin = set(p[0] for p in B["state"] if p[2] == p[2])
        req = []
        for (p1, p2, g, ha, hb, out) in callsB:
            if out & 1 and ha not in fin: req.append(ha)
            if out & 2 and hb not in fin: req.append(hb)
        bad = [h for h in set(req) if B["freed"].count(h) != 1] + [h for h in B["freed"] if h in fin]
        if bad:
            c.violation("free_particle_ap-mismatch:" + path, "free_particle_ap called for %s, particles removed by the resolution loop: %s [%s]" % (sorted(B["freed"]), sorted(set(req)), path),
                        dict(spec=spec, res=list(res)))
        if req:
            dim("free_particle_ap")
    # track_energy_offset: a merger books exactly the pair's kinetic terms and mutual potential (collision.c:819-911)
    for (before, out, p1, p2, nact, eo0, eo1, G) in B["eorec"]:
        if out not in (1, 2):
            continue
        (a0, b0) = before
        mi, mj = a0[6], b0[6]
        if mi + mj == 0.0:
            continue
        kei = 0.5 * mi * math.fsum(v * v for v in a0[3:6]) + 0.5 * mj * math.fsum(v * v for v in b0[3:6])
        dist = math.sqrt(math.fsum((a0[k] - b0[k]) ** 2 for k in range(3)))
        pot = -G * mi * mj / dist if (min(p1, p2) < nact and dist > 0) else 0.0
        vm = [(mi * a0[3 + k] + mj * b0[3 + k]) / (mi + mj) for k in range(3)]
        kef = 0.5 * (mi + mj) * math.fsum(v * v for v in vm)
        want = kei + pot - kef
        sc = abs(kei) + abs(pot) + abs(kef) + abs(eo0) + 1e-300
        if dist > 0 and not abs((eo1 - eo0) - want) <= 1e-12 * sc:
            c.violation("energy-offset-merge", "merge of (%d,%d): energy_offset changed by %r, pair terms give %r (G=%g, N_active=%d)" % (p1, p2, eo1 - eo0, want, G, nact),
                        dict(spec=spec, res=["merge"]))
        dim("track_energy_offset_merge")

    # ---- identity accounting on the real code (A4 as an executable statement)
    massless = kind == "merge" and any(r is not None and r[3] in (1, 2) and r[0][0][6] + r[0][1][6] == 0.0 for r in B["hsrec"])
    if massless:
        stats["massless_merges"] += 1
    if massless and any(p[1] != p[1] or (p[2] != p[2] and "+tree" not in path) or p[4] != p[4] for p in B["state"]):
        # the survivor's coordinates are 0/0 = NaN, which in a tree mode is also the "removed" flag: F19
        c.violation(K_F19, "merging two massless particles gives NaN coordinates (1/(m1+m2))", dict(spec=spec))
    else:
        check_accounting(c, spec, stateA, B, callsB, kind, path, stats, reported)
        if kind == "merge":
            check_merge(c, spec, stateA, B, path, stats)
    if kind == "hs":
        check_hs(c, spec, B, res, stats)

    # ---- tie 2: driver + resolver, on the order in which the code processed the entries (phase A, same seed)
    def chk2_line(out):
        try:
            given = [(a, b, ring.index(g)) for (a, b, g) in reported]
        except ValueError:
            c.corr_break("pending entry with a ghost box outside the ring (%s)" % tag, dict(spec=spec))
            return None
        return f_line(spec, "ordered", stateA, tab, B["tree"], res, A["dtl"], A["t"], ninner, given, nvar=nvar, nactive=A["N_active"],
                      eo0=(B["eorec"][0][5] if B["eorec"] else B["eo"]))   # energy_offset when the search starts (the open-boundary check books its own removals)

    def chk2(outline):
        m = parse_f(outline)
        got = m["calls"]
        bad = None
        if got != callsB:
            bad = "sequence of (p1,p2,ghost box,ids,outcome) handed to the resolver differs"
        elif PURGE[0] and B["tree"] and sorted(p[0] for p in m["ps"]) != sorted(p[0] for p in B["state"]):
            bad = "survivors after the end-of-search tree update: model ids %s code ids %s" % (sorted(p[0] for p in m["ps"]), sorted(p[0] for p in B["state"]))
        elif m["N"] != B["N"] or m["N_active"] != B["N_active"]:
            bad = "N / N_active after the step: model %d/%d code %d/%d" % (m["N"], m["N_active"], B["N"], B["N_active"])
        else:
            scale = [max([abs(p[1 + k]) for p in B["state"] if p[1 + k] == p[1 + k]] + [1e-300]) for k in range(9)]
            for grp in ((0, 1, 2), (3, 4, 5)):
                mx = max(scale[k] for k in grp)
                for k in grp:
                    scale[k] = mx
            mps, cps = m["ps"], B["state"]
            if PURGE[0] and B["tree"]:
                # order after reb_simulation_update_tree is the tree sweep's (C15): compare by identity
                mps = sorted(mps, key=lambda p: p[0]); cps = sorted(cps, key=lambda p: p[0])
            for i, (mp, cp) in enumerate(zip(mps, cps)):
                ch = tuple(d2h(v) for v in cp[1:])
                if mp[0] != cp[0]:
                    bad = "particle %d: identity model %d code %d" % (i, mp[0], cp[0]); break
                if mp[1] and not (cp[2] != cp[2]):
                    bad = "particle %d: flagged in the model, code y=%r" % (i, cp[2]); break
                for k in range(9):
                    if mp[2][k] == ch[k] or (mp[1] and k == 1):
                        continue
                    a, b = h2d(mp[2][k]), cp[1 + k]
                    # conservation is a "to rounding error" property: a harmless re-association must not fire
                    if a == a and b == b and abs(a - b) <= 64 * 2.3e-16 * scale[k]:
                        stats["state_ulp_diffs"] += 1
                        continue
                    bad = "particle %d (id %d) field %d: model %s code %s" % (i, cp[0], k, mp[2][k], ch[k]); break
                if bad:
                    break
        if not bad and m.get("eo") is not None and spec["integrator"] not in ("mercurius", "trace"):
            # energy_offset booked by the mergers (track_energy_offset): model vs code
            a, b = h2d(m["eo"]), B["eo"]
            esc = max(abs(a), abs(b), 1e-300)
            terms = sum(abs(0.5 * p_[7] * (p_[4] ** 2 + p_[5] ** 2 + p_[6] ** 2)) for p_ in stateA if p_[2] == p_[2]) + 1e-300
            if m["eo"] != d2h(b) and not (a == a and b == b and abs(a - b) <= 64 * 2.3e-16 * max(esc, terms)):
                bad = "energy_offset after the mergers: model %s code %s" % (m["eo"], d2h(b))
            stats["tie_energy_offset"] = stats.get("tie_energy_offset", 0) + 1
        if bad:
            c.corr_break("post-search driver (%s, %s, %s): %s (%s)" % (col, path, kind, bad, tag),
                         dict(spec=spec, res=list(res), model_calls=got[:6], code_calls=callsB[:6]))
            stats["tie_fail"] += 1
        stats["tie_driver"] += 1
    jobs2 = [(chk2_line, chk2)]
    # ---- tie 3: what the step hands to the search after the open-boundary check (model `searchInputOpen`)
    if spec["boundary"] == "open" and spec["integrator"] == "leapfrog" and not nvar:
        hdt = 0.5 * spec["dt"]
        cur = [dict(p) for p in spec["parts"]]
        nr = spec.get("nroot", [1, 1, 1])
        bx, bY, bz = spec["box"] * nr[0], spec["box"] * nr[1], spec["box"] * nr[2]
        treeA = A["tree"]
        teo = 1 if spec.get("teo") else 0
        clamp = int(VARIANT[6]) if treeA else 0
        na0 = -1 if spec.get("n_active") is None else spec["n_active"]

        def drift(ps_):
            for p_ in ps_:
                p_["x"] = p_["x"] + hdt * p_["vx"]; p_["y"] = p_["y"] + hdt * p_["vy"]; p_["z"] = p_["z"] + hdt * p_["vz"]

        def b_line(ps_, na):
            tk = ["B", d2h(bx), d2h(bY), d2h(bz), str(int(treeA)), str(teo), str(clamp), str(na), str(len(ps_))]
            for p_ in ps_:
                tk.append(str(p_["id"]))
                tk += [d2h(p_[k]) for k in ("x", "y", "z", "vx", "vy", "vz", "m", "r")] + [d2h(0.0)]
            return " ".join(tk)
        drift(cur)

        def compare(outline):
            t_ = outline.split()
            ids_m = [int(x) for x in t_[2:]]
            ids_c = [p[0] for p in stateA]
            ok = (sorted(ids_m) == sorted(ids_c)) if treeA else (ids_m == ids_c)
            if not ok:
                c.corr_break("particles handed to the %s search after the open-boundary check of a leapfrog step: model %s code %s (%s)" % (
                    col, ids_m, ids_c, tag), dict(spec=spec))
                stats["tie_fail"] += 1
            elif treeA and int(t_[1]) != A["N_active"] and not teo:
                c.corr_break("N_active after the open-boundary check: model %s code %d (%s)" % (t_[1], A["N_active"], tag), dict(spec=spec))
                stats["tie_fail"] += 1
            stats["tie_step_input"] = stats.get("tie_step_input", 0) + 1
        if treeA:
            # with a tree the step also checks the boundary (and updates the tree) after the first half drift
            li_b = len(exe_lines)
            exe_lines.append(b_line(cur, na0))

            def mk_end(out, li_b=li_b):
                t_ = out[li_b].split()
                keep = set(int(x) for x in t_[2:])
                surv = [p_ for p_ in cur if p_["id"] in keep]
                drift(surv)
                return b_line(surv, int(t_[1]))
            jobs2.append((mk_end, compare))
        else:
            drift(cur)
            li_b = len(exe_lines)
            exe_lines.append(b_line(cur, na0))
            checks.append(lambda out, li_b=li_b: compare(out[li_b]))
    return checks, jobs2


def check_accounting(c, spec, stateA, B, callsB, kind, path, stats, reported=None):
    """nothing lost, duplicated or resolved after removal: hash bookkeeping on the real code"""
    ids0 = [p[0] for p in stateA]
    if reported is not None and not spec.get("nvar") and path != "sorted+tree":
        # every call must be one of the pairs the search found (same two identities, same ghost box), each used once:
        # a stale index after a removal shows up as a pair that was never found
        found = {}
        for (p1, p2, gh) in reported:
            k = (ids0[p1], ids0[p2], gh)
            found[k] = found.get(k, 0) + 1
        for (p1, p2, g, ha, hb, out) in callsB:
            k = (ha, hb, g)
            if found.get(k, 0) <= 0:
                c.violation("resolved-pair-not-found:" + path, "resolver called with particles (%d,%d) — not a pair the search found in this step (or found once, "
                            "resolved twice): pending entry points at the wrong particles after a removal [%s]" % (ha, hb, path),
                            dict(spec=spec, res=kind, calls=[list(map(str, x)) for x in callsB[:10]]))
                return
            found[k] -= 1
    alive = set(ids0)
    removed = []
    if spec.get("nvar"):
        # variational particles present: every removal is refused with an error, nothing may change
        if [p[0] for p in B["state"]] != ids0:
            c.violation("nvar-removal-not-refused", "removal with variational particles changed the particle array", dict(spec=spec, res=kind))
        stats["nvar_cases"] = stats.get("nvar_cases", 0) + 1
        return
    if path == "sorted+tree":
        # reb_simulation_remove_particle refuses (after shifting the array and decrementing N): F4 territory
        fin_ids = [p[0] for p in B["state"]]
        if sorted(fin_ids) != sorted(ids0):
            c.violation(K_F4, "keep_sorted removal with a tree: the removal is refused (error) but the particle array was already "
                        "shifted and N decremented; ids %s → %s, later pending entries stale" % (ids0, fin_ids), dict(spec=spec, res=kind))
        return
    for (p1, p2, g, ha, hb, out) in callsB:
        if ha not in alive or hb not in alive or ha == hb:
            c.violation("resolved-after-removal:" + path, "resolver called with particle ids (%d,%d) of which one was already removed (or both equal) [%s]" % (ha, hb, path),
                        dict(spec=spec, res=kind, calls=[list(map(str, x)) for x in callsB[:10]]))
            return
        if kind in ("script", "merge"):
            if out & 1:
                alive.discard(ha); removed.append(ha)
            if out & 2:
                alive.discard(hb); removed.append(hb)
    final = B["state"]
    if "+tree" in path:
        fin_alive = [p[0] for p in final if p[2] == p[2]]
        fin_all = [p[0] for p in final]
        if PURGE[0] and removed:
            if len(fin_all) != len(fin_alive):
                c.violation(K_F17, "tree mode: a flagged particle (y=NaN) is still in the array after the search", dict(spec=spec, res=kind))
        elif fin_all != ids0:
            c.violation("tree-array-changed", "tree mode: particle array changed during collision resolution", dict(spec=spec, res=kind))
        if sorted(fin_alive) != sorted(alive):
            c.violation("lost-or-duplicated:" + path, "unflagged particles %s ≠ survivors %s" % (sorted(fin_alive), sorted(alive)), dict(spec=spec, res=kind))
        return
    fin_ids = [p[0] for p in final]
    if sorted(fin_ids) != sorted(alive) or len(set(fin_ids)) != len(fin_ids):
        c.violation("lost-or-duplicated:" + path, "particle ids after the step %s ≠ survivors %s (removed %s) [%s]" % (fin_ids, sorted(alive), removed, path),
                    dict(spec=spec, res=kind))
    elif path.startswith("sorted"):
        want = [i for i in ids0 if i in alive]
        if fin_ids != want:
            c.violation("sorted-order-broken", "keep_sorted: order after removals %s ≠ %s" % (fin_ids, want), dict(spec=spec, res=kind))
    stats["accounted"] += 1


def sums(state):
    live = [p for p in state if p[2] == p[2]]
    M = math.fsum(p[7] for p in live)
    P = [math.fsum(p[7] * p[4 + a] for p in live) for a in range(3)]
    X = [math.fsum(p[7] * p[1 + a] for p in live) for a in range(3)]
    return M, P, X, len(live)


def check_merge(c, spec, stateA, B, path, stats):
    if path == "sorted+tree":
        # refused configuration: reb_simulation_remove_particle reports an error and returns 0 — but the merge resolver
        # has already moved the absorbed body's mass into the survivor, so the pair's mass is in the array twice
        if any(r is not None and r[3] in (1, 2) for r in B["hsrec"]):
            M0 = math.fsum(p[7] for p in stateA); M1 = math.fsum(p[7] for p in B["state"] if p[2] == p[2])
            if len(B["state"]) == len(stateA) and M1 > M0 * (1 + 1e-12):
                c.violation(K_N4, "keep_sorted=1 with a tree and the merge resolver: removal refused after the merge was applied, total mass %r -> %r with N unchanged" % (M0, M1),
                            dict(spec=spec))
        return
    nm = 0
    seen = set()
    for rec, call in zip(B["hsrec"], B["calls"]):
        if rec is None:
            continue
        before, after, g, out, t = rec
        if out in (1, 2):
            nm += 1
            for h in (call[3], call[4]):
                if h in seen:
                    c.violation("merged-twice", "particle id %d takes part in two mergers in the same step" % h, dict(spec=spec))
                seen.add(h)
            if (out == 2) != (call[0] < call[1]):
                c.violation("merge-removes-wrong-index", "merge of (%d,%d) returned %d" % (call[0], call[1], out), dict(spec=spec))
    if path == "sorted+tree" and nm:
        return
    M0, P0, X0, n0 = sums(stateA)
    M1, P1, X1, n1 = sums(B["state"])
    stats["merges"] += nm
    if n1 != n0 - nm:
        c.violation("merge-count:" + path, "%d mergers but particle count %d → %d [%s]" % (nm, n0, n1, path), dict(spec=spec))
    sm = max(abs(M0), 1e-300)
    mv = math.fsum(abs(p[7]) * max(abs(p[4]), abs(p[5]), abs(p[6])) for p in stateA) + 1e-300
    mx = math.fsum(abs(p[7]) * max(abs(p[1]), abs(p[2]), abs(p[3])) for p in stateA) + 1e-300
    gbshift = any(any(v != 0.0 for v in call[2][:3]) for call in B["calls"] if call[5] in (1, 2))
    e = abs(M1 - M0) / sm
    stats["worst_mass"] = max(stats["worst_mass"], e)
    if not e <= 1e-13 * (1 + nm):
        c.violation("merge-mass", "total mass %r → %r over %d mergers" % (M0, M1, nm), dict(spec=spec))
    ep = max(abs(P1[a] - P0[a]) for a in range(3)) / mv
    stats["worst_mom"] = max(stats["worst_mom"], ep)
    if not ep <= 1e-12 * (1 + nm):
        c.violation("merge-momentum", "total momentum %r → %r over %d mergers" % (P0, P1, nm), dict(spec=spec))
    if not gbshift:
        ex = max(abs(X1[a] - X0[a]) for a in range(3)) / mx
        stats["worst_com"] = max(stats["worst_com"], ex)
        if not ex <= 1e-12 * (1 + nm):
            c.violation("merge-com", "mass-weighted position %r → %r over %d mergers" % (X0, X1, nm), dict(spec=spec))
    else:
        stats["merge_across_boundary"] += 1
    if nm:
        c.count(("merge", path, min(nm, 6)), nontrivial=nm >= 2)
    if "+tree" in path and any(p[2] != p[2] for p in B["state"]) and spec["use_step"]:
        c.violation(K_F17, "tree collision search + merge: merged-away particle still in the array (y=NaN) after the step",
                    dict(spec=spec))


def check_hs(c, spec, B, res, stats):
    for rec in B["hsrec"]:
        if rec is None:
            continue
        (a0, b0), (a1, b1), g, out, t = rec
        if a0[3:6] == a1[3:6] and b0[3:6] == b1[3:6]:
            # early return (not overlapping / not approaching) — verify it in the frame of the ghost image of p1
            dd = [a0[k] + g[k] - b0[k] for k in range(3)]
            vv = [a0[3 + k] + g[3 + k] - b0[3 + k] for k in range(3)]
            d2 = math.fsum(x * x for x in dd)
            sr = a0[7] + b0[7]
            dot = math.fsum(dd[k] * vv[k] for k in range(3))
            vab = max(abs(v) for v in a0[3:6] + b0[3:6] + tuple(g[3:6]))
            sc2 = math.sqrt(d2 * math.fsum(x * x for x in vv)) + 1e-300 + 1e-4 * math.sqrt(d2) * vab     # + rounding of the individual velocities
            if d2 < sr * sr * (1 - 1e-9) and dot < -1e-9 * sc2 and all(v == v for v in a0[:6] + b0[:6]) and a0[6] + b0[6] != 0.0:
                c.violation("hardsphere-no-bounce", "overlapping pair approaching in the frame of the ghost image (d.v = %.3g, ghost velocity %r) is left untouched by the resolver" % (dot, list(g[3:6])),
                            dict(spec=spec, rec=rec))
            continue
        stats["bounces"] += 1
        m1, m2 = a0[6], b0[6]
        if m1 + m2 == 0.0:
            if any(v != v for v in a1[3:6] + b1[3:6]):
                c.violation(K_F19H, "hard-sphere bounce of two massless particles gives NaN velocities (m/(m1+m2) = 0/0)", dict(spec=spec, rec=rec))
                return      # NaNs propagate to later bounces of this scenario
        sc = abs(m1) * max(abs(v) for v in a0[3:6] + a1[3:6]) + abs(m2) * max(abs(v) for v in b0[3:6] + b1[3:6]) + 1e-300
        dp = max(abs((m1 * a1[3 + k] + m2 * b1[3 + k]) - (m1 * a0[3 + k] + m2 * b0[3 + k])) for k in range(3)) / sc
        stats["worst_hs_mom"] = max(stats["worst_hs_mom"], dp)
        if not dp <= 1e-13:
            c.violation("hardsphere-momentum", "bounce changes the pair momentum by %.3g (relative)" % dp, dict(spec=spec, rec=rec))
        d = [a0[k] + g[k] - b0[k] for k in range(3)]
        dn = math.sqrt(math.fsum(x * x for x in d))
        v0 = [a0[3 + k] + g[3 + k] - b0[3 + k] for k in range(3)]
        v1 = [a1[3 + k] + g[3 + k] - b1[3 + k] for k in range(3)]
        vn0 = math.fsum(d[k] * v0[k] for k in range(3))
        vn1 = math.fsum(d[k] * v1[k] for k in range(3))
        vabs = max(abs(v) for v in a0[3:6] + b0[3:6] + a1[3:6] + b1[3:6] + tuple(g[3:6]))
        # relative to the normal speed, plus the rounding of the individual velocities (pairs moving together with a large boost)
        vs = dn * math.sqrt(math.fsum(x * x for x in v0)) + 1e-300 + 1e-3 * dn * vabs
        eps = 1.0 if res[1] is None else res[1]
        if not vn1 >= -1e-12 * vs:
            c.violation("hardsphere-not-separating", "after the bounce the pair still approaches: d·v = %.3g → %.3g" % (vn0, vn1), dict(spec=spec, rec=rec))
        if dn > 0 and spec.get("mcv", 0.0) == 0.0 and not abs(vn1 + eps * vn0) <= 1e-11 * vs:
            c.violation("hardsphere-restitution", "normal velocity %.6g → %.6g, expected factor -%g" % (vn0, vn1, eps), dict(spec=spec, rec=rec))
        if eps == 1.0 and spec.get("mcv", 0.0) == 0.0:
            # kinetic energy of the pair in the frame of the ghost-shifted p1
            ke0 = 0.5 * m1 * math.fsum((a0[3 + k] + g[3 + k]) ** 2 for k in range(3)) + 0.5 * m2 * math.fsum(b0[3 + k] ** 2 for k in range(3))
            ke1 = 0.5 * m1 * math.fsum((a1[3 + k] + g[3 + k]) ** 2 for k in range(3)) + 0.5 * m2 * math.fsum(b1[3 + k] ** 2 for k in range(3))
            de = abs(ke1 - ke0) / (abs(ke0) + 1e-300)
            stats["worst_hs_energy"] = max(stats["worst_hs_energy"], de)
            if not de <= 1e-11:
                c.violation("hardsphere-energy", "eps=1 bounce changes the pair's kinetic energy by %.3g (relative)" % de, dict(spec=spec, rec=rec))


# ----------------------------------------------------------------------------- histories
def gen_history_spec(rng, idx):
    spec = gen_spec(rng, idx)
    while spec.get("nroot", [1, 1, 1]) != [1, 1, 1] or spec.get("com_offset") or spec["integrator"] != "none":
        spec = gen_spec(rng, idx)
    spec["integrator"] = "leapfrog"
    spec["gravity"] = "none"
    spec["boundary"] = rng.choice(["none", "periodic"])
    if spec["boundary"] == "none":
        spec["nghost"] = [0, 0, 0]
        spec["box"] = spec["box"] * 4
    else:
        spec["nghost"] = [1, 1, 1]
    for p in spec["parts"]:
        if p["m"] == 0.0:
            p["m"] = 1e-3
    spec["use_step"] = 1
    spec["n_active"] = None
    spec["dt"] = abs(spec["dt"]) * 0.2
    spec["omega"] = 0.0
    spec.pop("res", None)
    spec.pop("nvar", None)
    if spec["collision"] in ("tree", "linetree"):
        spec["ks"] = 0          # sorted removal with a tree is covered by scenario() (F4)
    return spec


def history(c, W, spec, nsteps, stats):
    """several leapfrog steps with the built-in merge: conservation and hash accounting at every
    step boundary (no gravity, so mass / momentum / centre of mass are exactly conserved quantities)"""
    R = run_real(W, spec, ("merge",), steps=nsteps)
    path = ("sorted" if spec["ks"] else "unsorted") + ("+tree" if R["tree"] else "")
    ids_alive = set(p["id"] for p in spec["parts"])
    lingering = False
    nm_tot = 0
    for st, rec in enumerate(R["per_step"]):
        nm = 0
        seen = set()
        for call in rec["calls"]:
            p1, p2, g, ha, hb, out, n = call
            if ha not in ids_alive or hb not in ids_alive or ha == hb:
                c.violation("resolved-after-removal:" + path, "step %d: merge called with ids (%d,%d), one of them already merged away" % (st, ha, hb), dict(spec=spec, steps=nsteps))
                return
            if out in (1, 2):
                nm += 1
                gone = ha if out == 1 else hb
                for h in (ha, hb):
                    if h in seen:
                        c.violation("merged-twice", "step %d: id %d takes part in two mergers in one step" % (st, h), dict(spec=spec, steps=nsteps))
                    seen.add(h)
                ids_alive.discard(gone)
        nm_tot += nm
        if path == "sorted+tree" and nm_tot:
            return
        post = rec["post"]
        live = [p for p in post if p[2] == p[2]]
        if len(live) != len(post):
            lingering = True
        if sorted(p[0] for p in live) != sorted(ids_alive):
            # particles that left the box are removed by the boundary check (open/none+tree): not a collision matter
            left = [p for p in live if p[0] not in ids_alive]
            if left or spec["boundary"] == "periodic":
                c.violation("lost-or-duplicated:" + path, "step %d: live ids %s ≠ expected survivors %s" % (st, sorted(p[0] for p in live), sorted(ids_alive)), dict(spec=spec, steps=nsteps))
                return
            ids_alive = set(p[0] for p in live)
            stats["left_box"] += 1
            return
        M0, P0, X0, _ = sums(rec["pre"])
        M1, P1, X1, _ = sums(post)
        mv = math.fsum(abs(p[7]) * max(abs(p[4]), abs(p[5]), abs(p[6])) for p in rec["pre"] if p[2] == p[2]) + 1e-300
        if not abs(M1 - M0) <= 1e-13 * (1 + nm) * abs(M0):
            c.violation("merge-mass", "step %d: total mass %r → %r" % (st, M0, M1), dict(spec=spec, steps=nsteps))
        ep = max(abs(P1[a] - P0[a]) for a in range(3)) / mv
        stats["worst_mom"] = max(stats["worst_mom"], ep)
        if not ep <= 1e-12 * (1 + nm):
            c.violation("merge-momentum", "step %d: total momentum %r → %r" % (st, P0, P1), dict(spec=spec, steps=nsteps))
    stats["merges"] += nm_tot
    stats["histories"] += 1
    if lingering and "+tree" in path:
        c.violation(K_F17, "tree collision search + merge: merged-away particle still in the array (y=NaN) at a step boundary", dict(spec=spec, steps=nsteps))
    c.count(("history", path, spec["collision"], min(nm_tot, 8)), nontrivial=nm_tot >= 2)



# ----------------------------------------------------------------------------- cross-cutting families
def gen_big_spec(rng, idx):
    """dense gas of 130-260 particles: pending list beyond its 32/64/128 allocation steps, N crossing 128 on removals"""
    L = 20.0
    n = rng.randint(130, 260)
    r0 = (0.25 * L ** 3 / (n * 4.19)) ** (1.0 / 3.0)
    parts = []
    for k in range(n):
        r = r0 * rng.uniform(0.4, 1.0)
        parts.append(dict(id=9000 + 3 * k, x=rng.uniform(-L / 2, L / 2), y=rng.uniform(-L / 2, L / 2), z=rng.uniform(-L / 2, L / 2),
                          vx=rng.normal() * r0, vy=rng.normal() * r0, vz=rng.normal() * r0, m=rng.loguniform(1e-2, 1e2), r=r))
    collision = MODES[idx % 4]
    seed = rng.randint(0, 2 ** 32 - 1)
    return dict(box=L, boundary="periodic", nghost=[1, 1, 0], collision=collision, gravity="none", integrator="none",
                dt=rng.choice([0.01, 0.1]), ks=(0 if collision in ("tree", "linetree") else int(rng.chance(0.5))), n_active=None,
                seed=seed, parts=parts, use_step=1, t0=1.5, omega=0.0, r_after_add=0, nroot=[1, 1, 1],
                res=(["script", seed % 1000] if rng.chance(0.6) else ["merge"]))


def switch_family(c, W, stats):
    """the three named resolvers and a Python callable, each installed AFTER each other one: the resolver in effect must
    be the one set last (signature: merge -> N-1; hardsphere -> velocities exchanged; halt -> status 7; callable -> called)"""
    rb = W.rebound
    names = ["merge", "hardsphere", "halt", "callable"]
    for first in names:
        for second in names:
            sim = rb.Simulation()
            sim.integrator = "none"; sim.dt = 0.1
            sim.collision = "direct"
            sim.add(m=1.0, r=1.0, x=-0.5, vx=1.0, hash=1)
            sim.add(m=1.0, r=1.0, x=0.5, vx=-1.0, hash=2)
            ncall = [0]

            def pycb(simp, col):
                ncall[0] += 1
                return 0
            for nm in (first, second):
                sim.collision_resolve = pycb if nm == "callable" else nm
            W.clib.reb_simulation_step(ctypes.byref(sim))
            v0 = sim._particles[0].vx
            sig = ("merge" if sim.N == 1 else "hardsphere" if (sim.N == 2 and v0 == -1.0) else
                   "halt" if (sim._status == 7 and v0 == 1.0) else "callable" if (ncall[0] > 0 and v0 == 1.0) else "none")
            if sig != second:
                c.violation("resolver-switch:%s->%s" % (first, second), "collision_resolve set to %r and then to %r behaves like %r (N=%d, vx0=%r, status=%d, python calls=%d)"
                            % (first, second, sig, sim.N, v0, sim._status, ncall[0]), dict(first=first, second=second))
            if second != "callable" and ncall[0] > 0:
                c.violation("resolver-switch-stale-callable", "Python callable still invoked after a named resolver was set", dict(first=first, second=second))
            dim("named_resolver_after_switching")
            c.count(("switch", first, second))


def planet_system(rb, rng, integ, overlap=True):
    sim = rb.Simulation()
    sim.integrator = integ
    sim.collision = "direct"
    sim.G = 1.0
    sim.add(m=1.0, r=0.005, hash=1)
    npl = rng.randint(2, 4)
    a = rng.uniform(0.8, 1.5)
    f0 = rng.uniform(0, 2 * math.pi)
    hid = 1
    for k in range(npl):
        m = rng.loguniform(1e-6, 1e-3)
        rad = rng.uniform(0.2, 0.8) * a * (m / 3.0) ** (1.0 / 3.0)          # a fraction of the Hill radius
        hid += 1
        if k == 0 or not overlap or (k > 1 and rng.chance(0.3)):
            sim.add(m=m, r=rad, a=a * (1 + 0.3 * k * rng.uniform(0.5, 1.5)), e=rng.uniform(0, 0.05), inc=rng.uniform(0, 0.02),
                    f=f0 + (0 if k == 0 else rng.uniform(0.5, 5.5)), hash=hid)
        else:
            # next to an existing planet: slightly overlapping or about to overlap, approaching slowly
            q = sim._particles[rng.randint(1, sim.N - 1)]
            sr = q.r + rad
            e = [rng.normal() for _ in range(3)]
            en = math.sqrt(sum(x * x for x in e)) or 1.0
            d = [x / en * sr * rng.uniform(0.5, 1.3) for x in e]
            vrel = rng.uniform(0.0, 0.3) * math.sqrt(sim.G / a) * 0.05
            sim.add(m=m, r=rad, x=q.x + d[0], y=q.y + d[1], z=q.z + d[2],
                    vx=q.vx - d[0] / sr * vrel, vy=q.vy - d[1] / sr * vrel, vz=q.vz - d[2] / sr * vrel, hash=hid)
    sim.move_to_com()
    period = 2 * math.pi * a ** 1.5
    sim.dt = period * rng.choice([0.002, 0.01, 0.03])
    return sim


def integrator_family(c, W, rng, integ, stats):
    """a full step of a real integrator around (or, for MERCURIUS / TRACE, with sub-step) collision searches on a
    star + planets system with inflated radii.  (A) record-only: every planet pair that overlaps while clearly
    approaching in the synchronized state after the step must have been handed to the resolver during that step;
    (B) merge over several steps: mass, momentum, identity accounting, order kept (hybrids force keep_sorted)."""
    rb = W.rebound
    seedv = rng.randint(0, 2 ** 31)
    for phase in ("A", "B"):
        r2 = SplitMix(seedv)
        sim = planet_system(rb, r2, integ)
        sim.rand_seed = seedv & 0xFFFF
        n0 = sim.N
        ids0 = [int(sim._particles[i]._hash) for i in range(n0)]
        calls = []
        mergelog = []

        def cb(simp, col, phase=phase):
            s = simp.contents
            ha, hb = int(s._particles[col.p1]._hash), int(s._particles[col.p2]._hash)
            out = 0
            if phase == "B":
                out = W.clib.reb_collision_resolve_merge(simp, col)
                if out in (1, 2):
                    mergelog.append((s.steps_done, ha, hb, out, col.p1, col.p2))
            calls.append((s.steps_done, ha, hb, out))
            return out
        sim.collision_resolve = cb
        if phase == "A":
            nsteps = 2
            for st in range(nsteps):
                W.clib.reb_simulation_step(ctypes.byref(sim))
                W.clib.reb_simulation_synchronize(ctypes.byref(sim))
                state = pstate(sim)
                if any(v != v for p in state for v in p[1:8]):
                    c.violation("nan-after-step:" + integ, "NaN in the particle array after a %s step with a record-only resolver" % integ, dict(integrator=integ, seed=seedv))
                    break
                handed = set((ha, hb) for (sd, ha, hb, _) in calls if sd == st)
                nyes = 0
                for i in range(1, len(state)):
                    for j in range(i + 1, len(state)):
                        pi, pj = state[i], state[j]
                        d = [pi[1 + k] - pj[1 + k] for k in range(3)]
                        dv = [pi[4 + k] - pj[4 + k] for k in range(3)]
                        d2 = math.fsum(x * x for x in d); sr = pi[8] + pj[8]
                        dot = math.fsum(d[k] * dv[k] for k in range(3))
                        nv = math.sqrt(d2 * math.fsum(x * x for x in dv)) + 1e-300
                        if d2 < sr * sr * (1 - 1e-6) and dot < -0.2 * nv:
                            nyes += 1
                            if (pi[0], pj[0]) not in handed and (pj[0], pi[0]) not in handed:
                                c.violation("missed-pair:step-" + integ, "%s step %d: planets (%d,%d) overlap while approaching after the step (d/sr=%.3f, cos=%.2f) but were never handed to the resolver during it"
                                            % (integ, st, i, j, math.sqrt(d2) / sr, dot / nv), dict(integrator=integ, seed=seedv, step=st))
                stats["integ_pairs"] += nyes
                c.count(("integ-A", integ, min(nyes, 3)), nontrivial=nyes > 0)
        else:
            W.clib.reb_simulation_synchronize(ctypes.byref(sim))
            M0, P0, X0, _ = sums(pstate(sim))
            mv = math.fsum(abs(p[7]) * math.sqrt(p[4] ** 2 + p[5] ** 2 + p[6] ** 2) for p in pstate(sim)) + 1e-300
            alive = list(ids0)
            for st in range(4):
                W.clib.reb_simulation_step(ctypes.byref(sim))
            W.clib.reb_simulation_synchronize(ctypes.byref(sim))
            state = pstate(sim)
            for (sd, ha, hb, out, p1, p2) in mergelog:
                if ha not in alive or hb not in alive or ha == hb:
                    c.violation("resolved-after-removal:step-" + integ, "%s: merge of ids (%d,%d), one of them already merged away" % (integ, ha, hb), dict(integrator=integ, seed=seedv))
                    break
                alive.remove(ha if out == 1 else hb)
                if (out == 2) != (p1 < p2):
                    c.violation("merge-removes-wrong-index", "%s: merge of (%d,%d) returned %d" % (integ, p1, p2, out), dict(integrator=integ, seed=seedv))
            fin = [p[0] for p in state]
            if integ in ("mercurius", "trace") or True:
                # all four keep the order here: hybrids force keep_sorted; whfast/ias15 runs use keep_sorted=1 below
                pass
            if sorted(fin) != sorted(alive):
                c.violation("lost-or-duplicated:step-" + integ, "%s: ids after 4 steps %s, expected survivors %s" % (integ, fin, alive), dict(integrator=integ, seed=seedv))
            elif integ in ("mercurius", "trace") and fin != alive:
                c.violation("sorted-order-broken:step-" + integ, "%s (keep_sorted forced): order %s, expected %s" % (integ, fin, alive), dict(integrator=integ, seed=seedv))
            if any(v != v for p in state for v in p[1:8]):
                c.violation("nan-after-step:" + integ, "NaN in the particle array after %s steps with mergers" % integ, dict(integrator=integ, seed=seedv))
            else:
                M1, P1, X1, _ = sums(state)
                em = abs(M1 - M0) / abs(M0)
                ep = max(abs(P1[k] - P0[k]) for k in range(3)) / mv
                stats["worst_integ_mom"] = max(stats["worst_integ_mom"], ep)
                if not em <= 1e-13 * (1 + len(mergelog)):
                    c.violation("merge-mass:step-" + integ, "%s: total mass %r -> %r over %d mergers" % (integ, M0, M1, len(mergelog)), dict(integrator=integ, seed=seedv))
                if not ep <= 1e-9:
                    c.violation("merge-momentum:step-" + integ, "%s: total momentum changed by %.3g (relative) over %d mergers in 4 steps" % (integ, ep, len(mergelog)), dict(integrator=integ, seed=seedv))
            stats["integ_merges"] += len(mergelog)
            c.count(("integ-B", integ, min(len(mergelog), 3)), nontrivial=len(mergelog) > 0)
            if mergelog or calls:
                dim("step_" + integ)


def integrate_split_case(c, W, rng, idx, stats):
    """sim.integrate() called twice, with a final step shortened by exact_finish_time: after EVERY step (snapshot taken in the
    heartbeat) the pairs handed to the resolver during that step are compared with the brute-force oracle — the LINE
    searches must use the length of the step actually done (dt_last_done)"""
    spec = gen_history_spec(rng, idx)
    spec["collision"] = MODES[idx % 4]
    if spec["collision"] in ("tree", "linetree"):
        spec["ks"] = 0
    if (idx // 4) % 2 == 1:
        spec["integrator"] = "ias15"      # adaptive: the step done (dt_last_done) differs from the step proposed next (dt)
    sim = make_sim(W, spec)
    sim.t = 0.0
    snaps, calls = [], []

    def hb(simp):
        s = simp.contents
        snaps.append((int(s.steps_done), s.t, s.dt_last_done, pstate(s)))

    def cb(simp, col):
        s = simp.contents
        calls.append((int(s.steps_done), col.p1, col.p2, (col.gb.x, col.gb.y, col.gb.z, col.gb.vx, col.gb.vy, col.gb.vz)))
        return 0
    sim.heartbeat = hb
    sim.collision_resolve = cb
    dt = abs(spec["dt"])
    sim.dt = dt
    e1, e2 = rng.choice([0, 1]), rng.choice([0, 1, 1])
    try:
        sim.integrate(dt * rng.uniform(1.2, 2.8), exact_finish_time=e1)
        sim.integrate(sim.t + dt * rng.uniform(0.3, 2.7), exact_finish_time=e2)
    except RuntimeError:
        stats["integrate_left_box"] = stats.get("integrate_left_box", 0) + 1     # a particle left the tree's box: error reported by the code
        return
    tab = gb_table(W, sim)
    tabhex = [gbhex(g) for g in tab]
    img_of = {}
    for im in images(spec):
        img_of.setdefault(tabhex[(im[0] + 1) * 9 + (im[1] + 1) * 3 + (im[2] + 1)], im)
    col = spec["collision"]
    line = col in ("line", "linetree")
    nchecked = 0
    short = 0
    seen_sd = set()
    for (sd, t, dtl, state) in snaps:
        # the heartbeat also runs at the start of every integrate() call (same steps_done, dt_last_done reset to 0): keep the first
        if sd == 0 or sd in seen_sd or len(state) != len(spec["parts"]):
            continue
        seen_sd.add(sd)
        if abs(dtl) < 0.999 * dt or abs(dtl) > 1.001 * dt:
            short += 1
        rep = set((p1, p2, img_of.get(gbhex(g))) for (s0, p1, p2, g) in calls if s0 == sd - 1)
        orc = oracle_pairs(spec, state, tab, dtl, line)
        for key, cls in orc.items():
            i, j, im = key
            if col == "line" and not i < j:
                continue
            if cls == "yes" and key not in rep and not (col in ("tree", "linetree") and (j, i, (-im[0], -im[1], -im[2])) in rep):
                c.violation("missed-pair:integrate-" + col, "integrate(): step %d (dt_last_done=%r, dt=%r): pair (%d,%d) image %s %s but was not handed to the resolver"
                            % (sd, dtl, dt, i, j, im, "came within r1+r2 during the step" if line else "overlaps while approaching"), dict(spec=spec, step=sd))
            elif cls == "no" and key in rep:
                c.violation("spurious-pair:integrate-" + col, "integrate(): step %d (dt_last_done=%r): pair (%d,%d) image %s handed to the resolver without %s"
                            % (sd, dtl, i, j, im, "path overlap" if line else "overlap+approach"), dict(spec=spec, step=sd))
        nchecked += 1
    if nchecked:
        dim("integrate_split_exact_finish_time")
    stats["integrate_steps"] += nchecked
    stats["integrate_short_steps"] += short
    c.count(("integrate", col, e1, e2, short > 0), nontrivial=short > 0)


def restore_case(c, W, rng, idx, stats):
    """copy() and save/load right after steps with collisions: last_collision, collision counters and the rand_r seed
    are carried over, and the continuation is identical (without a tree, where the walk order could differ);
    then the user removes one particle and adds a bigger one mid-run and the run continues consistently"""
    import tempfile
    rb = W.rebound
    spec = gen_history_spec(rng, idx)
    resolver = rng.choice(["merge", "hardsphere"])
    sim = make_sim(W, spec)
    sim.collision_resolve = resolver
    for st in range(3):
        W.clib.reb_simulation_step(ctypes.byref(sim))
    tree = bool(sim._tree_root)
    st0 = pstate(sim)
    sim2 = sim.copy()
    fn = os.path.join(tempfile.gettempdir(), "c13_restore_%d_%d.bin" % (os.getpid(), idx))
    if os.path.exists(fn):
        os.remove(fn)
    sim.save_to_file(fn)
    sim3 = rb.Simulation(fn)
    os.remove(fn)
    for name, sx in (("copy", sim2), ("file", sim3)):
        sx.collision_resolve = resolver
        if pstate(sx) != st0 and not any(v != v for p in st0 for v in p[1:]):
            c.violation("restore-state:" + name, "%s right after collisions: particle state (incl. last_collision) differs from the source" % name, dict(spec=spec, resolver=resolver))
        for fld in ("collisions_log_n", "collisions_plog", "rand_seed", "dt_last_done", "t", "N_active", "collision_resolve_keep_sorted", "minimum_collision_velocity"):
            if getattr(sx, fld) != getattr(sim, fld):
                c.violation("restore-field:%s:%s" % (name, fld), "%s: %s = %r, source %r" % (name, fld, getattr(sx, fld), getattr(sim, fld)), dict(spec=spec, resolver=resolver))
        if tuple(sx.max_radius) != tuple(sim.max_radius) and not tree:
            stats["restore_maxr_differs"] += 1
    for st in range(3):
        for sx in (sim, sim2, sim3):
            W.clib.reb_simulation_step(ctypes.byref(sx))
    ref = pstate(sim)
    for name, sx in (("copy", sim2), ("file", sim3)):
        got = pstate(sx)
        if not tree and got != ref and not any(v != v for p in ref for v in p[1:]):
            c.violation("restore-continuation:" + name, "%s after 3 steps with %s: continuing the restored simulation differs from continuing the source (N %d vs %d)" % (name, resolver, len(got), len(ref)),
                        dict(spec=spec, resolver=resolver))
        elif tree and resolver == "merge":
            Ma, Pa, _, _ = sums(got); Mb, Pb, _, _ = sums(ref)
            if not abs(Ma - Mb) <= 1e-12 * abs(Mb):
                c.violation("restore-continuation-mass:" + name, "%s: total mass after continuation %r vs %r" % (name, Ma, Mb), dict(spec=spec, resolver=resolver))
        dim("copy_restore_midrun" if name == "copy" else "file_restore_midrun")
    # ---- user edits between steps: remove one particle, add a bigger one
    if sim.N >= 2:
        ids = [p[0] for p in pstate(sim)]
        k = rng.randint(0, sim.N - 1)
        gone = ids[k]
        sim.remove(index=k, keep_sorted=bool(spec["ks"]) and not tree)
        L = spec["box"]
        big = max(list(sim.max_radius) + [1e-3 * L]) * 1.5
        try:
            sim.add(m=1.0, r=big, x=rng.uniform(-0.4, 0.4) * L, y=rng.uniform(-0.4, 0.4) * L, z=rng.uniform(-0.4, 0.4) * L, hash=777777)
            added = True
        except RuntimeError:
            added = False       # tree refuses (near-)coincident particles
        log = []

        def cb(simp, col):
            s = simp.contents
            ha, hb = int(s._particles[col.p1]._hash), int(s._particles[col.p2]._hash)
            fnr = W.clib.reb_collision_resolve_merge if resolver == "merge" else W.clib.reb_collision_resolve_hardsphere
            out = fnr(simp, col)
            log.append((ha, hb, out))
            return out
        sim.collision_resolve = cb
        alive = set(i for i in ids if i != gone) | ({777777} if added else set())
        for st in range(3):
            n0 = len(log)
            W.clib.reb_simulation_step(ctypes.byref(sim))
            for (ha, hb, out) in log[n0:]:
                if ha == gone or hb == gone:
                    c.violation("user-removed-particle-resolved", "a particle removed by the user between steps is handed to the resolver", dict(spec=spec, resolver=resolver))
                if out == 1: alive.discard(ha)
                if out == 2: alive.discard(hb)
            state = pstate(sim)
            live = [p[0] for p in state if p[2] == p[2]]
            if len(live) != len(state):
                c.violation(K_F17, "flagged particle (y=NaN) in the array at a step boundary after a user removal in tree mode", dict(spec=spec, resolver=resolver))
            if spec["boundary"] == "periodic" and sorted(live) != sorted(alive):
                c.violation("lost-or-duplicated:user-edit", "after user remove/add: ids %s, expected %s" % (sorted(live), sorted(alive)), dict(spec=spec, resolver=resolver))
            if tree and spec["collision"] in ("tree", "linetree") and not h_holds(state, tuple(sim.max_radius)):
                c.violation("max-radius-bookkeeping", "after a user add with a larger radius max_radius0/1 = %r do not bound the radii" % (list(sim.max_radius),), dict(spec=spec))
        dim("user_add_remove_midrun")
    c.count(("restore", spec["collision"], resolver, tree))



# ----------------------------------------------------------------------------- event adjacency histories
EVENTS = ["none", "user_remove", "user_remove_hash", "user_add_big", "edit_radii", "continue_on_copy", "continue_on_file",
          "dt_change", "switch_resolver", "set_nactive"]
EVPAIRS_SEEN = set()


def event_sequences(rng, nseq, length):
    planned = set()
    out = []
    for _ in range(nseq):
        seq = [rng.choice(EVENTS)]
        while len(seq) < length:
            cands = [e for e in EVENTS if (seq[-1], e) not in planned] or EVENTS
            e = rng.choice(cands)
            planned.add((seq[-1], e))
            seq.append(e)
        out.append(seq)
    return out


def event_history(c, W, rng, idx, seq, stats):
    """one event before every step (user removal by index / by hash, user add of a larger body, radii edited, continuing on a
    copy() / on a file restore, dt change, resolver switch, N_active set) — every ordered pair of events occurs in adjacent
    steps somewhere.  Every step is first done on a copy() with a record-only resolver (search-time state, pairs found:
    brute-force oracle), then on the simulation itself with the real resolver (calls must be found pairs; accounting; sums)."""
    import tempfile
    rb = W.rebound
    spec = gen_history_spec(rng, idx)
    mode = spec["collision"]
    sim = make_sim(W, spec)
    resolver = ["merge"]
    line = mode in ("line", "linetree")
    prev = None
    for stepno, ev in enumerate(seq):
        n = sim.N
        tree = bool(sim._tree_root)
        try:
            if ev == "user_remove" and n >= 3:
                sim.remove(index=rng.randint(0, n - 1), keep_sorted=bool(spec["ks"]) and not tree)
                ENTRY_USED.add("reb_simulation_remove_particle")
            elif ev == "user_remove_hash" and n >= 3:
                h = int(sim._particles[rng.randint(0, n - 1)]._hash)
                W.clib.reb_simulation_remove_particle_by_hash.restype = ctypes.c_int
                W.clib.reb_simulation_remove_particle_by_hash(ctypes.byref(sim), ctypes.c_uint32(h), int(bool(spec["ks"]) and not tree))
                ENTRY_USED.add("reb_simulation_remove_particle_by_hash")
            elif ev == "user_add_big":
                Lb = spec["box"]
                big = max(list(sim.max_radius) + [1e-3 * Lb]) * 1.5
                sim.add(m=1.0, r=big, x=rng.uniform(-0.4, 0.4) * Lb, y=rng.uniform(-0.4, 0.4) * Lb, z=rng.uniform(-0.4, 0.4) * Lb,
                        vx=rng.normal(), hash=800000 + stepno)
            elif ev == "edit_radii" and n >= 1:
                q = sim._particles[rng.randint(0, n - 1)]
                q.r = q.r * 3.0 + 1e-3 * spec["box"]
            elif ev == "continue_on_copy":
                sim = sim.copy()
            elif ev == "continue_on_file":
                fn = os.path.join(tempfile.gettempdir(), "c13_ev_%d_%d.bin" % (os.getpid(), idx))
                if os.path.exists(fn):
                    os.remove(fn)
                sim.save_to_file(fn)
                sim = rb.Simulation(fn)
                os.remove(fn)
            elif ev == "dt_change":
                sim.dt = sim.dt * rng.choice([0.5, 2.0, -1.0])
            elif ev == "switch_resolver":
                resolver[0] = "hardsphere" if resolver[0] == "merge" else "merge"
            elif ev == "set_nactive" and n >= 1:
                sim.N_active = rng.randint(1, n)
        except RuntimeError:
            pass                # e.g. the tree refuses a (near-)coincident particle: reported by the code
        try:
            sim.process_messages()
        except Exception:
            pass
        # ---- phase A: the same step on a copy with a record-only resolver
        simc = sim.copy()
        callsA = []

        def cbA(simp, col):
            s_ = simp.contents
            callsA.append((int(s_._particles[col.p1]._hash), int(s_._particles[col.p2]._hash), gbhex((col.gb.x, col.gb.y, col.gb.z, col.gb.vx, col.gb.vy, col.gb.vz)), col.p1, col.p2))
            return 0
        simc.collision_resolve = cbA
        W.clib.reb_simulation_step(ctypes.byref(simc))
        stateA = pstate(simc)
        tab = gb_table(W, simc)
        tabhex = [gbhex(g) for g in tab]
        img_of = {}
        for im in images(spec):
            img_of.setdefault(tabhex[(im[0] + 1) * 9 + (im[1] + 1) * 3 + (im[2] + 1)], im)
        if not any(p[2] != p[2] for p in stateA):
            rep = set((p1, p2, img_of.get(g)) for (_, _, g, p1, p2) in callsA)
            orc = oracle_pairs(spec, stateA, tab, simc.dt_last_done, line)
            for key, cls in orc.items():
                i, j, im = key
                if mode == "line" and not i < j:
                    continue
                if cls == "yes" and key not in rep and not (mode in ("tree", "linetree") and (j, i, (-im[0], -im[1], -im[2])) in rep):
                    c.violation("missed-pair:after-%s:%s" % (ev, mode), "step %d after event %s (previous: %s): pair (%d,%d) image %s %s but is not handed to the resolver"
                                % (stepno, ev, prev, i, j, im, "came within r1+r2" if line else "overlaps while approaching"), dict(spec=spec, events=seq, step=stepno))
                elif cls == "no" and key in rep:
                    c.violation("spurious-pair:after-%s:%s" % (ev, mode), "step %d after event %s: pair (%d,%d) image %s handed to the resolver without cause" % (stepno, ev, i, j, im),
                                dict(spec=spec, events=seq, step=stepno))
        if mode in ("tree", "linetree") and not h_holds(stateA, tuple(simc.max_radius)):
            c.violation("max-radius-bookkeeping", "step %d after event %s: max_radius0/1 = %r do not bound the radii after a tree search" % (stepno, ev, list(simc.max_radius)),
                        dict(spec=spec, events=seq, step=stepno))
        # ---- phase B: the real step
        found = {}
        for (ha, hb, g, _, _) in callsA:
            found[(ha, hb, g)] = found.get((ha, hb, g), 0) + 1
        log = []

        def cbB(simp, col):
            s_ = simp.contents
            ha, hb = int(s_._particles[col.p1]._hash), int(s_._particles[col.p2]._hash)
            fnr = W.clib.reb_collision_resolve_merge if resolver[0] == "merge" else W.clib.reb_collision_resolve_hardsphere
            out = fnr(simp, col)
            log.append((ha, hb, gbhex((col.gb.x, col.gb.y, col.gb.z, col.gb.vx, col.gb.vy, col.gb.vz)), out))
            return out
        sim.collision_resolve = cbB
        pre = pstate(sim)
        W.clib.reb_simulation_step(ctypes.byref(sim))
        post = pstate(sim)
        alive = set(p[0] for p in stateA)
        nm = 0
        treeB = bool(sim._tree_root)
        for (ha, hb, g, out) in log:
            if found.get((ha, hb, g), 0) <= 0 and not (treeB and mode in ("tree", "linetree")):
                c.violation("resolved-pair-not-found:after-" + ev, "step %d after event %s: resolver called with ids (%d,%d), not a pair found on the identical copy" % (stepno, ev, ha, hb),
                            dict(spec=spec, events=seq, step=stepno))
                break
            found[(ha, hb, g)] = found.get((ha, hb, g), 0) - 1
            if ha not in alive or hb not in alive:
                c.violation("resolved-after-removal:after-" + ev, "step %d after event %s: ids (%d,%d), one already merged away" % (stepno, ev, ha, hb), dict(spec=spec, events=seq, step=stepno))
                break
            if out in (1, 2):
                nm += 1
                alive.discard(ha if out == 1 else hb)
        live = [p[0] for p in post if p[2] == p[2]]
        if len(live) != len(post):
            c.violation(K_F17, "step %d after event %s: flagged particle (y=NaN) in the array at the step boundary" % (stepno, ev), dict(spec=spec, events=seq, step=stepno))
        if spec["boundary"] == "periodic" and sorted(live) != sorted(alive) and not any(v != v for p in post for v in p[1:8]):
            c.violation("lost-or-duplicated:after-" + ev, "step %d after event %s: ids %s, expected %s" % (stepno, ev, sorted(live), sorted(alive)), dict(spec=spec, events=seq, step=stepno))
        if resolver[0] == "merge" and nm and spec["boundary"] == "periodic" and not any(v != v for p in post for v in p[1:8]):
            M0, P0, _, _ = sums(stateA); M1, P1, _, _ = sums(post)
            mv = math.fsum(abs(p[7]) * max(abs(p[4]), abs(p[5]), abs(p[6])) for p in stateA) + 1e-300
            if not abs(M1 - M0) <= 1e-13 * (1 + nm) * abs(M0) or not max(abs(P1[k] - P0[k]) for k in range(3)) <= 1e-12 * (1 + nm) * mv:
                c.violation("merge-conservation:after-" + ev, "step %d after event %s: mass %r -> %r, momentum %r -> %r over %d mergers" % (stepno, ev, M0, M1, P0, P1, nm),
                            dict(spec=spec, events=seq, step=stepno))
        stats["event_merges"] = stats.get("event_merges", 0) + nm
        if prev is not None:
            EVPAIRS_SEEN.add(("adj", prev, ev))
        EVPAIRS_SEEN.add(("mode", mode, ev))
        EVPAIRS_SEEN.add(("resolver", resolver[0], ev))
        prev = ev
    c.count(("events", mode, tuple(seq[:2])))


# ----------------------------------------------------------------------------- public entry points
ENTRY_USED = set()


def entry_points(repo):
    """public functions / Python spellings that reach the collision machinery, extracted from the current source"""
    import re
    hdr = open(os.path.join(repo, "src", "rebound.h")).read()
    cfun = set(re.findall(r"^DLLEXPORT[^\n(]*?\b(reb_\w+)\s*\(", hdr, flags=re.M))
    want = set(f for f in cfun if re.search(r"collision|remove_particle|^reb_simulation_step$|^reb_simulation_steps$|^reb_simulation_integrate$|configure_box|^reb_simulation_update_tree$|^reb_simulation_add$", f))
    for h in ("collision.h", "boundary.h"):
        want |= set(re.findall(r"^\w[\w\s\*]*?\b(reb_collision_search|reb_boundary_get_ghostbox)\s*\(", open(os.path.join(repo, "src", h)).read(), flags=re.M))
    py = open(os.path.join(repo, "rebound", "simulation.py")).read()
    m = re.search(r"^COLLISIONS\s*=\s*\{([^}]*)\}", py, flags=re.M)
    modes = re.findall(r"\"(\w+)\"\s*:\s*(\d+)", m.group(1)) if m else []
    blk = py[py.index("def collision_resolve(self, func)"):]
    blk = blk[:blk.index("\n    @property")]
    resolvers = re.findall(r"func\s*==\s*\"(\w+)\"", blk)
    pyattrs = [a for a in ("collision_resolve_keep_sorted", "minimum_collision_velocity", "track_energy_offset", "energy_offset", "collisions_plog",
                           "collisions_log_n", "N_ghost_x", "N_ghost_y", "N_ghost_z", "max_radius", "rand_seed", "coefficient_of_restitution",
                           "free_particle_ap") if re.search(r"[\"']_?%s[\"']|def %s\(" % (a, a), py)]
    return sorted(want), modes, resolvers, pyattrs


def entry_smoke(c, W):
    rb = W.rebound
    cfun, modes, resolvers, pyattrs = entry_points(common.REPO)
    c.cov["entry_points"] = {"c_functions": cfun, "collision_names": [m_[0] for m_ in modes], "resolver_names": resolvers, "python_attributes": pyattrs}
    if len(cfun) < 13 or len(modes) < 5 or len(resolvers) < 3 or len(pyattrs) < 13:
        c.broken.append("entry-point extraction found less than expected: %d C functions, %d collision names, %d resolver names, %d attributes" % (len(cfun), len(modes), len(resolvers), len(pyattrs)))
    expect_calls = {"none": 0, "direct": 2, "tree": 2, "line": 1, "linetree": 2}
    for name, val in modes:
        for spelling in (name, int(val)):
            sim = rb.Simulation()
            sim.integrator = "none"; sim.dt = 0.1
            sim.configure_box(10.0)
            sim.collision = spelling
            sim.add(m=1.0, r=1.0, x=-0.5, y=0.01, vx=1.0, hash=1)
            sim.add(m=1.0, r=1.0, x=0.5, vx=-1.0, hash=2)
            ncall = [0]

            def cb(simp, col):
                ncall[0] += 1
                return 0
            sim.collision_resolve = cb
            W.clib.reb_simulation_step(ctypes.byref(sim))
            if name in expect_calls and ncall[0] != expect_calls[name]:
                c.violation("entry:collision=%r" % (spelling,), "sim.collision = %r: resolver called %d times for one overlapping approaching pair, expected %d" % (spelling, ncall[0], expect_calls[name]),
                            dict(collision=spelling))
            ENTRY_USED.add("collision=" + name)
    # reb_simulation_steps and reb_simulation_integrate (+ the Collision exception of the halt resolver)
    for fn in ("steps", "integrate"):
        sim = rb.Simulation()
        sim.integrator = "leapfrog"; sim.dt = 0.01
        sim.collision = "direct"
        sim.add(m=1.0, r=0.1, x=-0.5, vx=1.0, hash=1)
        sim.add(m=1.0, r=0.1, x=0.5, vx=-1.0, hash=2)
        if fn == "steps":
            sim.collision_resolve = "merge"
            W.clib.reb_simulation_steps.restype = None
            W.clib.reb_simulation_steps(ctypes.byref(sim), ctypes.c_uint(60))
            if sim.N != 1:
                c.violation("entry:reb_simulation_steps", "60 steps towards a head-on collision with merge: N = %d" % sim.N, {})
            ENTRY_USED.add("reb_simulation_steps")
        else:
            sim.collision_resolve = "halt"
            raised = False
            try:
                sim.integrate(1.0)
            except rb.Collision:
                raised = True
            if not raised or sim._status != 7:
                c.violation("entry:integrate-halt", "integrate() with the halt resolver: Collision raised = %s, status %d" % (raised, sim._status), {})
            ENTRY_USED.add("reb_simulation_integrate")
    used_always = {"reb_simulation_configure_box", "reb_simulation_step", "reb_simulation_add", "reb_collision_search", "reb_boundary_get_ghostbox",
                   "reb_collision_resolve_merge", "reb_collision_resolve_hardsphere", "reb_collision_resolve_halt", "reb_simulation_set_collision_resolve",
                   "reb_simulation_update_tree", "reb_simulation_remove_particle"}      # called by scenario() / probes / switch_family on every run
    missing = [f for f in cfun if f not in ENTRY_USED and f not in used_always]
    missing += ["resolver=" + r_ for r_ in resolvers if DIMS.get("named_resolver_after_switching", 0) == 0]
    missing += ["collision=" + m_[0] for m_ in modes if "collision=" + m_[0] not in ENTRY_USED]
    c.cov["entry_points"]["not_exercised"] = missing
    if missing:
        c.broken.append("public entry points not exercised in this run: " + ", ".join(missing))


# ----------------------------------------------------------------------------- corpus
def corpus_specs():
    d = os.path.join(ROOT, "corpus", "C13")
    out = []
    if os.path.isdir(d):
        for f in sorted(os.listdir(d)):
            if f.endswith(".json"):
                out.append((f, json.load(open(os.path.join(d, f)))))
    return out


def run(c):
    d = build()
    rebound = use_scratch_rebound(d)
    W = World(rebound)
    # at most two replay files per violation key (a seeded bug typically fails hundreds of scenarios)
    raw_violation = c.violation
    seen_keys = {}

    def violation(key, what, replay):
        seen_keys[key] = seen_keys.get(key, 0) + 1
        if seen_keys[key] <= 2:
            return raw_violation(key, what, replay)
        return False
    c.violation = violation
    c.cov["violation_keys"] = seen_keys
    # which source-level variant of reb_simulation_remove_particle is this?  read from particle.c (translator,
    # with marker counts) and determined behaviourally; the behavioural answer is used, a disagreement is recorded
    sflags, counts, problems = remove_variant(common.REPO)
    flags = probe_variant(W)
    c.cov["extraction"] = {"remove_particle_markers": counts, "variant_from_source": sflags, "variant_from_probes": flags,
                           "agree": sflags == flags, "problems": problems}
    if sflags is None:
        c.broken.append("extraction: reb_simulation_remove_particle no longer has the structure the model mirrors: " + "; ".join(problems))
    VARIANT[:] = [str(flags[k]) for k in VARIANT_NAMES] + [str(flags["treePurgeAtEnd"]), str(flags["treeUpdateClampsNActive"])]
    PURGE[0] = bool(flags["treePurgeAtEnd"])
    KSFALLBACK[0] = bool(flags["keepSortedTreeFallback"])
    RESFLAGS.update(merge=str(flags["mergeMasslessMidpoint"]), hs=str(flags["hsMasslessEqual"]))
    if sflags is not None:
        sflags = dict(sflags, mergeMasslessMidpoint=flags["mergeMasslessMidpoint"], hsMasslessEqual=flags["hsMasslessEqual"])
        c.cov["extraction"]["agree"] = all(sflags[k] == flags[k] for k in VARIANT_NAMES)
    c.prove(["RV.Props.C13"])
    exe = lean_exe("drv_c13")
    c.cov["rule"] = ("clusters (chain / clump / star) of 2-8 mutually overlapping particles, radii equal / spread over 3 decades / partly zero / one big, "
                     "placed near faces, edges and corners of the box, plus fillers; boundary none/open/periodic/shear with N_ghost 0,1,2 per axis; "
                     "all four search modes; keep_sorted on/off, MERCURIUS/TRACE (forced sorted, Ninner=1), gravity tree with direct search (tree fix-up path), "
                     "N_active; resolver scripted from the particle hashes (outcomes 0-7) / merge / hardsphere / halt. A case is non-trivial when >=3 pending "
                     "entries exist and at least one removal happens (fix-up), >=2 overlapping pairs (oracle), >=2 mergers (merge)")
    c.cov["trusted_base"] = ["Lean 4.33 kernel", "Mathlib (kernel-checked)", "differential test drv_c13 vs compiled collision.c/particle.c on generated inputs",
                             "glibc rand_r (modelled, checked against the compiled code's seed on every case)",
                             "ctypes Particle/Simulation layout (checked by C18)", "reb_boundary_get_ghostbox (inputs of the model; C15)",
                             "tree walk order (pending list of the tree modes is taken from the code and un-shuffled)"]
    c.assumptions += ["theorems are exact-arithmetic over an ordered field; IEEE comparisons differ only within rounding of the thresholds (oracle 'edge' band)",
                      "resolver callback does not add/remove/reorder particles itself (it returns 0-3 and may change particle payloads)",
                      "hybrid-integrator bookkeeping in reb_simulation_remove_particle (dcrit, encounter_map) and MPI paths are not modelled",
                      "tree walks are represented by their leaf predicate and pruning inequality only (tree model: C15)"]
    stats = dict(N={}, dropped_by_boundary=0, missed={}, oracle_yes=0, oracle_edge=0, tie_fail=0, tie_search=0, tie_driver=0,
                 resolver={}, calls=0, paths={}, accounted=0, merges=0, worst_mass=0.0, worst_mom=0.0, worst_com=0.0,
                 merge_across_boundary=0, bounces=0, worst_hs_mom=0.0, worst_hs_energy=0.0, hs_ulp=0, tree_pruned_pairs=0,
                 histories=0, left_box=0, massless_merges=0, shuffle_order_differs=0, state_ulp_diffs=0, tree_cells=0, tie_walk=0, walk_order_differs=0, integ_pairs=0, integ_merges=0, worst_integ_mom=0.0,
                 integrate_steps=0, integrate_short_steps=0, restore_maxr_differs=0)
    ncases = 24000 if c.thorough else 450
    lines = []
    pend = []
    specs = [("corpus/" + f, s) for f, s in corpus_specs()]
    replay = None
    if "--replay" in sys.argv:
        # ./check C13 --replay replays/C13-<seed>-<k>.json : run exactly the recorded scenario again
        rp = json.load(open(sys.argv[sys.argv.index("--replay") + 1]))
        replay = rp.get("replay", rp)
        ncases = 0
        specs = []
        if "spec" in replay and "steps" not in replay:
            sp = dict(replay["spec"])
            if "res" in replay and isinstance(replay["res"], list):
                sp["res"] = replay["res"]
            specs = [("replay", sp)]
    nforced = 0 if replay is not None else (6000 if c.thorough else 260)
    forces = covering_forces(c.rng.fork(), nforced, triples=c.thorough)
    for i, f in enumerate(forces):
        specs.append(("cov%d" % i, gen_spec(c.rng.fork(), i, c.thorough, force=f)))
    for i in range(max(0, ncases - nforced)):
        specs.append(("gen%d" % i, gen_spec(c.rng.fork(), i, c.thorough)))
    for i in range(0 if replay is not None else (16 if c.thorough else 3)):
        specs.append(("big%d" % i, gen_big_spec(c.rng.fork(), i)))
    for i in range(0 if replay is not None else (400 if c.thorough else 30)):
        # MERCURIUS / TRACE (keep_sorted forced in the driver AND in reb_simulation_remove_particle, Ninner = 1): rejection-sampled
        rr = c.rng.fork()
        for _try in range(400):
            sp = gen_spec(rr.fork(), 4 * _try)
            if sp["integrator"] in ("mercurius", "trace"):
                # only pairs with particle 0 are searched (Ninner = 1): put the particle with the largest radius first and
                # keep the case if at least 3 others overlap it, so that removals meet later pending entries
                ps = sp["parts"]
                k0 = max(range(len(ps)), key=lambda k: ps[k]["r"])
                ps[0], ps[k0] = ps[k0], ps[0]
                nov = sum(1 for q in ps[1:] if (q["x"] - ps[0]["x"]) ** 2 + (q["y"] - ps[0]["y"]) ** 2 + (q["z"] - ps[0]["z"]) ** 2 <= (q["r"] + ps[0]["r"]) ** 2)
                if nov < 3:
                    continue
                sp["ks"] = 0
                sp["n_active"] = None
                sp.pop("res", None)
                sp.pop("com_offset", None)
                specs.append(("hyb%d" % i, sp))
                break
    for tag, spec in specs:
        try:
            pend.append((tag, spec) + scenario(c, W, lines, spec, tag, stats))
        except Infra:
            raise
        if len(c.cov["samples"]) < 3 and tag.startswith("gen"):
            c.sample({"tag": tag, "collision": spec["collision"], "boundary": spec["boundary"], "nghost": spec["nghost"], "ks": spec["ks"],
                      "N": len(spec["parts"]), "radii": [p["r"] for p in spec["parts"]][:8]})
    c.log("pass 1: %d model lines" % len(lines))
    out = run_driver(exe, lines) if lines else []
    if len(out) != len(lines):
        c.corr_break("driver returned %d lines for %d ops" % (len(out), len(lines)))
    else:
        lines2, back = [], []
        for tag, spec, checks, jobs2 in pend:
            for ch in checks:
                ch(out)
            for mk, chk2 in jobs2:
                l2 = mk(out)
                if l2 is not None:
                    lines2.append(l2); back.append(chk2)
        c.log("pass 2: %d model lines" % len(lines2))
        out2 = run_driver(exe, lines2) if lines2 else []
        if len(out2) != len(lines2):
            c.corr_break("driver returned %d lines for %d ops (pass 2)" % (len(out2), len(lines2)))
        else:
            for o, ch in zip(out2, back):
                ch(o)
    nh = 0 if replay is not None else (3000 if c.thorough else 80)
    for i in range(nh):
        history(c, W, gen_history_spec(c.rng.fork(), i), 6, stats)
    if replay is not None and "steps" in replay:
        history(c, W, replay["spec"], replay["steps"], stats)
    if replay is None:
        switch_family(c, W, stats)
        nint = 40 if c.thorough else 8
        for integ in ("mercurius", "trace", "whfast", "ias15"):
            for i in range(nint):
                integrator_family(c, W, c.rng.fork(), integ, stats)
        for i in range(240 if c.thorough else 24):
            integrate_split_case(c, W, c.rng.fork(), i, stats)
        for i in range(200 if c.thorough else 16):
            restore_case(c, W, c.rng.fork(), i, stats)
        nseq = 120 if c.thorough else 20
        for i, seq in enumerate(event_sequences(c.rng.fork(), nseq, 6)):
            event_history(c, W, c.rng.fork(), i, seq, stats)
        evtot = [("adj", a, b) for a in EVENTS for b in EVENTS] + [("mode", m_, e) for m_ in MODES for e in EVENTS] + [("resolver", r_, e) for r_ in ("merge", "hardsphere") for e in EVENTS]
        evmiss = [e for e in evtot if e not in EVPAIRS_SEEN]
        c.cov["event_pairs"] = {"covered": len(evtot) - len(evmiss), "total": len(evtot), "events": EVENTS, "missing": [list(m_) for m_ in evmiss[:12]]}
        if c.thorough and evmiss:
            c.broken.append("event adjacency coverage incomplete: %d of %d, e.g. %s" % (len(evmiss), len(evtot), evmiss[:3]))
        entry_smoke(c, W)
        for nm in REQUIRED_DIMS:
            DIMS.setdefault(nm, 0)
            if DIMS[nm] == 0:
                c.broken.append("dimension %s not covered" % nm)
    c.cov["dimensions"] = dict(sorted(DIMS.items()))
    tot, exc = all_pairs()
    miss = [p_ for p_ in tot if p_ not in PAIRS_SEEN]
    c.cov["pairs"] = {"covered": len(tot) - len(miss), "total": len(tot), "excluded": len(exc), "factors": {k: len(v) for k, v in FACTORS.items()},
                      "missing": [list(map(str, m_)) for m_ in miss[:25]],
                      "excluded_reasons": sorted(set(pair_excluded(*e_) for e_ in exc))}
    tot3, exc3 = all_triples()
    miss3 = [t_ for t_ in tot3 if t_ not in TRIPLES_SEEN]
    c.cov["triples_core"] = {"factors": list(CORE3), "covered": len(tot3) - len(miss3), "total": len(tot3), "excluded": len(exc3),
                             "missing": [list(map(str, m_)) for m_ in miss3[:15]]}
    if c.thorough and replay is None and miss:
        c.broken.append("pairwise coverage incomplete: %d of %d applicable factor pairs never generated, e.g. %s" % (len(miss), len(tot), miss[:3]))
    if c.thorough and replay is None and miss3:
        c.broken.append("3-way coverage of %s incomplete: %d of %d, e.g. %s" % (CORE3, len(miss3), len(tot3), miss3[:2]))
    for k in ("worst_mass", "worst_mom", "worst_com", "worst_hs_mom", "worst_hs_energy", "worst_integ_mom"):
        stats[k] = float("%.3g" % stats[k])
    stats["N"] = {str(k): v for k, v in sorted(stats["N"].items())}
    c.cov["measured"] = stats
    c.log(json.dumps(stats))


if __name__ == "__main__":
    main("C13", run)
