"""Shared plumbing for every check: scratch build of /repo, Lean build + axiom
audit, evidence files, known findings, PRNG, violation reporting."""
import atexit, ctypes, fcntl, json, os, re, shutil, struct, subprocess, sys, tempfile, time
from concurrent.futures import ThreadPoolExecutor

ROOT = os.path.dirname(os.path.dirname(os.path.abspath(__file__)))
REPO = os.environ.get("REBOUND_REPO", "/repo")
LEAN = os.path.join(ROOT, "lean")
# evidence/ and replays/ are written below OUT (default: /verif).  Seeded-bug runs redirect it
# so that the committed evidence always comes from runs against the unchanged /repo.
OUT = os.environ.get("VERIF_OUT", ROOT)
ACCEPTED_AXIOMS = {"propext", "Classical.choice", "Quot.sound"}
CFLAGS = ["-O3", "-std=c99", "-fPIC", "-fstrict-aliasing", "-Wno-unknown-pragmas", "-w",
          "-D_GNU_SOURCE", "-DLIBREBOUND", "-DSERVER", "-ffp-contract=off",
          "-DGITHASH=verif"]
SKIP_C = {"glad.c", "communication_mpi.c"}
SUFFIX = ".cpython-312-x86_64-linux-gnu.so"


class Infra(Exception):
    """infrastructure failure: exit 2, never a VIOLATION"""


# ----------------------------------------------------------------------------- PRNG
class SplitMix:
    def __init__(self, seed):
        self.s = seed & 0xFFFFFFFFFFFFFFFF

    def next(self):
        self.s = (self.s + 0x9E3779B97F4A7C15) & 0xFFFFFFFFFFFFFFFF
        z = self.s
        z = ((z ^ (z >> 30)) * 0xBF58476D1CE4E5B9) & 0xFFFFFFFFFFFFFFFF
        z = ((z ^ (z >> 27)) * 0x94D049BB133111EB) & 0xFFFFFFFFFFFFFFFF
        return z ^ (z >> 31)

    def uniform(self, a=0.0, b=1.0):
        return a + (b - a) * (self.next() >> 11) / float(1 << 53)

    def randint(self, a, b):  # inclusive
        return a + self.next() % (b - a + 1)

    def choice(self, xs):
        return xs[self.next() % len(xs)]

    def chance(self, p):
        return self.uniform() < p

    def loguniform(self, a, b):
        import math
        return math.exp(self.uniform(math.log(a), math.log(b)))

    def normal(self):
        import math
        u1 = max(self.uniform(), 1e-300)
        return math.sqrt(-2 * math.log(u1)) * math.cos(2 * math.pi * self.uniform())

    def shuffle(self, xs):
        for i in range(len(xs) - 1, 0, -1):
            j = self.next() % (i + 1)
            xs[i], xs[j] = xs[j], xs[i]

    def fork(self):
        return SplitMix(self.next())


def d2h(x):
    """double -> 16 hex digits (nan canonical)"""
    if x != x:
        return "nan"
    return "%016x" % struct.unpack("<Q", struct.pack("<d", x))[0]


def h2d(s):
    if s == "nan":
        return float("nan")
    return struct.unpack("<d", struct.pack("<Q", int(s, 16)))[0]


# ----------------------------------------------------------------------------- scratch build
_scratch = []


def _cleanup():
    for d in _scratch:
        shutil.rmtree(d, ignore_errors=True)


atexit.register(_cleanup)


def build(python_pkg=True, sanitize=False, extra_c=None):
    """Copy /repo/src (+ /repo/rebound) to a fresh scratch dir, compile librebound
    with the repo's flags, return the scratch dir.  Removed at exit."""
    t0 = time.time()
    d = tempfile.mkdtemp(prefix="rbv.", dir=os.environ.get("VERIF_TMP", "/tmp"))
    _scratch.append(d)
    src = os.path.join(d, "src")
    shutil.copytree(os.path.join(REPO, "src"), src,
                    ignore=shutil.ignore_patterns("*.o", "*.so", "Makefile*"))
    cs = sorted(f for f in os.listdir(src) if f.endswith(".c") and f not in SKIP_C)
    cc = ["clang"] if sanitize else ["gcc"]
    flags = list(CFLAGS)
    if os.environ.get("REBOUND_VERIF"):
        flags.append("-DREBOUND_VERIF=1")
    if sanitize:
        flags = [f for f in flags if f != "-O3"] + ["-O1", "-g", "-fsanitize=address,undefined",
                                                     "-fno-omit-frame-pointer"]

    def comp(f):
        p = subprocess.run(cc + flags + ["-c", f, "-o", f[:-2] + ".o"], cwd=src,
                           capture_output=True, text=True)
        return f, p.returncode, p.stderr

    with ThreadPoolExecutor(16) as ex:
        res = list(ex.map(comp, cs))
    bad = [(f, e) for f, rc, e in res if rc != 0]
    if bad:
        raise Infra("scratch build failed: %s\n%s" % (bad[0][0], bad[0][1][:2000]))
    so = os.path.join(d, "librebound" + SUFFIX)
    link = cc + (["-fsanitize=address,undefined"] if sanitize else []) + \
        ["-shared", "-o", so] + [f[:-2] + ".o" for f in cs] + ["-lm", "-lpthread", "-lrt"]
    p = subprocess.run(link, cwd=src, capture_output=True, text=True)
    if p.returncode != 0:
        raise Infra("link failed: " + p.stderr[:2000])
    if python_pkg:
        shutil.copytree(os.path.join(REPO, "rebound"), os.path.join(d, "rebound"),
                        ignore=shutil.ignore_patterns("__pycache__", "tests", "*.pyc"))
        # rebound/__init__ also wants rebound.h next to it in some code paths
    return d


def use_scratch_rebound(d):
    """make `import rebound` resolve to the scratch package (call before import)."""
    sys.path.insert(0, d)
    for m in [m for m in sys.modules if m == "rebound" or m.startswith("rebound.")]:
        del sys.modules[m]
    import warnings
    warnings.filterwarnings("ignore")
    import rebound
    assert os.path.abspath(rebound.__file__).startswith(os.path.abspath(d)), rebound.__file__
    return rebound


def compile_harness(d, cfile, out, extra=()):
    """compile a small C program against the scratch lib"""
    so = os.path.join(d, "librebound" + SUFFIX)
    p = subprocess.run(["gcc", "-O1", "-std=gnu99", "-w", "-I", os.path.join(d, "src"), cfile, so,
                        "-Wl,-rpath," + d, "-lm", "-lpthread", "-o", out] + list(extra),
                       capture_output=True, text=True)
    if p.returncode != 0:
        raise Infra("harness compile failed: " + p.stderr[:3000])
    return out


# ----------------------------------------------------------------------------- Lean
class LeanResult:
    def __init__(self):
        self.ok = True
        self.errors = []       # text of failures
        self.theorems = []     # names audited
        self.axioms = {}       # name -> set
        self.bad_axioms = {}
        self.forbidden = []    # grep hits
        self.wall = 0.0

    @property
    def obligations(self):
        return len(self.theorems)

    @property
    def discharged(self):
        return len([t for t in self.theorems if t in self.axioms and t not in self.bad_axioms])


def write_if_changed(path, content):
    try:
        with open(path) as f:
            if f.read() == content:
                return False
    except FileNotFoundError:
        pass
    os.makedirs(os.path.dirname(path), exist_ok=True)
    with open(path, "w") as f:
        f.write(content)
    return True


class LeanLock:
    def __enter__(self):
        self.f = open(os.path.join(LEAN, ".lock"), "w")
        fcntl.flock(self.f, fcntl.LOCK_EX)
        return self

    def __exit__(self, *a):
        fcntl.flock(self.f, fcntl.LOCK_UN)
        self.f.close()


FORBID = re.compile(r"\bsorry\b|\badmit\b|^\s*axiom\s|native_decide|bv_decide|implemented_by|\bunsafe\s|maxHeartbeats\s+0\b", re.M)


def strip_comments(src):
    src = re.sub(r"/-.*?-/", "", src, flags=re.S)
    return re.sub(r"--.*", "", src)


def _module_path(mod):
    return os.path.join(LEAN, *mod.split(".")) + ".lean"


def _imports_closure(mod, seen=None):
    """RV.* modules transitively imported by `mod` (for the forbidden-token grep)."""
    seen = seen if seen is not None else set()
    if mod in seen or not mod.startswith("RV"):
        return seen
    p = _module_path(mod)
    if not os.path.exists(p):
        return seen
    seen.add(mod)
    for m in re.findall(r"^import\s+(\S+)", open(p).read(), flags=re.M):
        _imports_closure(m, seen)
    return seen


def theorem_names(mod):
    src = strip_comments(open(_module_path(mod)).read())
    ns = re.findall(r"^namespace\s+(\S+)", src, flags=re.M)
    # simple: Props files use exactly one namespace (or none)
    prefix = (ns[0] + ".") if ns else ""
    return [prefix + n for n in re.findall(r"^\s*theorem\s+([A-Za-z_][\w'.]*)", src, flags=re.M)]


def lean_check(prop_mods, extra_targets=(), timeout=1500):
    """lake build the property modules, grep for forbidden tokens, audit axioms of every
    theorem in the property modules.  Returns LeanResult (ok=False on any failure)."""
    r = LeanResult()
    t0 = time.time()
    with LeanLock():
        targets = list(prop_mods) + list(extra_targets)
        p = subprocess.run(["lake", "build"] + targets, cwd=LEAN, capture_output=True, text=True,
                           timeout=timeout)
        if p.returncode != 0:
            r.ok = False
            out = p.stdout + p.stderr
            errs = [l for l in out.splitlines() if "error" in l.lower()]
            r.errors.append("lake build failed: " + "\n".join(errs[:20]) + "\n--- tail ---\n" + out[-3000:])
        mods = set()
        for m in prop_mods:
            _imports_closure(m, mods)
        for m in sorted(mods):
            hits = FORBID.findall(strip_comments(open(_module_path(m)).read()))
            if hits:
                r.ok = False
                r.forbidden.append((m, hits))
                r.errors.append("forbidden token in %s: %s" % (m, hits))
        if p.returncode == 0:
            for m in prop_mods:
                names = theorem_names(m)
                r.theorems += names
                audit = "import %s\n" % m + "".join("#print axioms %s\n" % n for n in names)
                af = os.path.join(LEAN, ".audit_%s.lean" % m.replace(".", "_"))
                with open(af, "w") as f:
                    f.write(audit)
                q = subprocess.run(["lake", "env", "lean", af], cwd=LEAN, capture_output=True,
                                   text=True, timeout=timeout)
                os.remove(af)
                out = q.stdout + q.stderr
                # "'name' depends on axioms: [a, b]"  /  "'name' does not depend on any axioms"
                for mm in re.finditer(r"'([^']+)' depends on axioms: \[([^\]]*)\]", out, flags=re.S):
                    ax = {a.strip() for a in mm.group(2).replace("\n", " ").split(",") if a.strip()}
                    r.axioms[mm.group(1)] = ax
                    if not ax <= ACCEPTED_AXIOMS:
                        r.bad_axioms[mm.group(1)] = ax - ACCEPTED_AXIOMS
                for mm in re.finditer(r"'([^']+)' does not depend on any axioms", out):
                    r.axioms[mm.group(1)] = set()
                missing = [n for n in names if n not in r.axioms]
                if missing or q.returncode != 0:
                    r.ok = False
                    r.errors.append("axiom audit incomplete for %s: missing=%s\n%s" % (m, missing[:5], out[-1500:]))
                if r.bad_axioms:
                    r.ok = False
                    r.errors.append("unaccepted axioms: %s" % r.bad_axioms)
    r.wall = time.time() - t0
    return r


def lean_exe(name, timeout=600):
    """build (if needed) and return the path of a native driver"""
    with LeanLock():
        p = subprocess.run(["lake", "build", name], cwd=LEAN, capture_output=True, text=True, timeout=timeout)
        if p.returncode != 0:
            raise Infra("driver build failed: " + (p.stdout + p.stderr)[-3000:])
    return os.path.join(LEAN, ".lake", "build", "bin", name)


def run_driver(exe, lines, timeout=600):
    """pipe op lines to a Lean driver, return output lines"""
    p = subprocess.run([exe], input="\n".join(lines) + "\n", capture_output=True, text=True, timeout=timeout)
    if p.returncode != 0:
        raise Infra("driver %s failed rc=%d: %s" % (exe, p.returncode, p.stderr[-2000:]))
    return p.stdout.splitlines()


# ----------------------------------------------------------------------------- findings
def load_findings(pid):
    """known_findings.jsonl (committed, never written at run time).  One JSON object per line:
    {"property": "C06", "key": "<stable id of the failing input / call site>", "status": "known"|"fixed",
     "what": "<one line>", "repro": {...}, "commit": "<sha, for fixed>"}"""
    out = []
    fns = [os.path.join(ROOT, "known_findings.jsonl")]
    fd = os.path.join(ROOT, "findings")
    if os.path.isdir(fd):
        fns += sorted(os.path.join(fd, f) for f in os.listdir(fd) if f.endswith(".jsonl"))
    for fn in fns:
        if os.path.exists(fn):
            for l in open(fn):
                l = l.strip()
                if l and not l.startswith("#"):
                    e = json.loads(l)
                    if e["property"] == pid:
                        out.append(e)
    return out


# ----------------------------------------------------------------------------- check context
class Check:
    def __init__(self, pid, level="proof"):
        self.pid = pid
        self.level = level
        self.tier = os.environ.get("VERIF_TIER", "quick")
        for i, a in enumerate(sys.argv):
            if a == "--tier" and i + 1 < len(sys.argv):
                self.tier = sys.argv[i + 1]
        if self.tier not in ("quick", "thorough"):
            self.tier = "quick"
        self.seed = int(os.environ.get("VERIF_SEED", "1"))
        for i, a in enumerate(sys.argv):      # `--seed n` is accepted as well as the VERIF_SEED environment variable
            if a == "--seed" and i + 1 < len(sys.argv):
                self.seed = int(sys.argv[i + 1])
                os.environ["VERIF_SEED"] = sys.argv[i + 1]
        self.rng = SplitMix(self.seed * 1000003 + int(pid[1:]))
        self.t0 = time.time()
        self.cov = {"evaluations": 0, "distinct_nontrivial": 0, "rule": "", "samples": [],
                    "obligations": 0, "discharged": 0, "checker_cmd": "", "trusted_base": []}
        self.assumptions = []
        self.violations = []        # (what, replay_path, found_input: bool)
        self.known_hit = []
        self.findings = load_findings(pid)
        self.broken = []            # broken proof obligations / correspondences (text)
        self.lean = None
        self._distinct = set()

    @property
    def thorough(self):
        return self.tier == "thorough"

    def log(self, *a):
        print("[%s %6.1fs]" % (self.pid, time.time() - self.t0), *a, flush=True)

    # -- counting
    def count(self, key=None, nontrivial=True, n=1):
        self.cov["evaluations"] += n
        if nontrivial and key is not None:
            self._distinct.add(key if isinstance(key, (str, int, tuple)) else json.dumps(key, sort_keys=True))

    def sample(self, s, maxn=6):
        if len(self.cov["samples"]) < maxn:
            self.cov["samples"].append(s)

    # -- lean
    def prove(self, prop_mods, extra_targets=()):
        self.log("lake build", prop_mods)
        try:
            r = lean_check(prop_mods, extra_targets)
        except subprocess.TimeoutExpired:
            raise Infra("lake build timed out")
        self.lean = r
        self.cov["obligations"] += r.obligations
        self.cov["discharged"] += r.discharged
        self.cov["checker_cmd"] = "cd lean && lake build " + " ".join(prop_mods) + " && #print axioms per theorem (accepted: propext, Classical.choice, Quot.sound)"
        self.cov["theorems"] = r.theorems
        self.cov["axioms_used"] = sorted(set().union(*r.axioms.values())) if r.axioms else []
        self.log("lean: %d/%d theorems, %.1fs, ok=%s" % (r.discharged, r.obligations, r.wall, r.ok))
        if not r.ok:
            for e in r.errors:
                self.broken.append("proof obligation: " + e)
        if self.thorough and r.ok:
            mods = list(prop_mods)
            with LeanLock():
                p = subprocess.run(["lake", "env", "leanchecker"] + mods, cwd=LEAN, capture_output=True, text=True, timeout=3000)
            self.cov["leanchecker"] = "ok" if p.returncode == 0 else "FAILED"
            if p.returncode != 0:
                self.broken.append("leanchecker rejected: " + (p.stdout + p.stderr)[-1500:])
        return r.ok

    # -- violations
    def is_known(self, key):
        for e in self.findings:
            if e.get("status", "known") == "known" and e["key"] == key:
                return e
        return None

    def violation(self, key, what, replay):
        """a failing input on the real code. key identifies the input/call-site class."""
        e = self.is_known(key)
        if e is not None:
            if key not in [k for k, _ in self.known_hit]:
                self.known_hit.append((key, e["what"]))
            return False
        path = os.path.join(OUT, "replays", "%s-%d-%d.json" % (self.pid, self.seed, len(self.violations)))
        os.makedirs(os.path.dirname(path), exist_ok=True)
        with open(path, "w") as f:
            json.dump({"property": self.pid, "key": key, "what": what, "seed": self.seed,
                       "tier": self.tier, "replay": replay}, f, indent=1, default=str)
        self.violations.append((what, path, True))
        self.log("FAILING INPUT:", what)
        return True

    def corr_break(self, what, detail=None):
        self.broken.append("correspondence: " + what)
        self.log("CORRESPONDENCE BROKEN:", what, (json.dumps(detail, default=str)[:400] if detail is not None else ""))
        self._corr_detail = detail

    def finish(self):
        self.cov["distinct_nontrivial"] = len(self._distinct)
        for key, what in self.known_hit:
            print("KNOWN-FINDING: property=%s %s" % (self.pid, what))
        rc = 0
        if self.violations:
            rc = 1
            for what, path, _ in self.violations[:1]:
                print("VIOLATION property=%s replay=%s" % (self.pid, os.path.relpath(path, ROOT) if OUT == ROOT else path))
        elif self.broken:
            rc = 1
            path = os.path.join(OUT, "replays", "%s-%d-broken.json" % (self.pid, self.seed))
            os.makedirs(os.path.dirname(path), exist_ok=True)
            with open(path, "w") as f:
                json.dump({"property": self.pid, "seed": self.seed, "tier": self.tier,
                           "no_longer_checks": self.broken,
                           "detail": getattr(self, "_corr_detail", None),
                           "note": "the search for a failing input on the real code found none within its budget"},
                          f, indent=1, default=str)
            print("VIOLATION property=%s replay=%s no-failing-input-found" % (self.pid, os.path.relpath(path, ROOT) if OUT == ROOT else path))
        ev = {"property_id": self.pid, "tier": self.tier, "seed": self.seed, "level": self.level,
              "coverage": self.cov, "assumptions": self.assumptions,
              "wall_s": round(time.time() - self.t0, 2),
              "violations": len(self.violations) + (1 if (self.broken and not self.violations) else 0)}
        ev["coverage"]["known_findings_reproduced"] = [k for k, _ in self.known_hit]
        os.makedirs(os.path.join(OUT, "evidence"), exist_ok=True)
        with open(os.path.join(OUT, "evidence", self.pid + ".json"), "w") as f:
            json.dump(ev, f, indent=1, default=str)
        self.log("done rc=%d evaluations=%d distinct=%d" % (rc, self.cov["evaluations"], self.cov["distinct_nontrivial"]))
        return rc


def main(pid, fn, level="proof"):
    c = Check(pid, level)
    try:
        fn(c)
        rc = c.finish()
    except Infra as e:
        print("INFRA-FAILURE %s: %s" % (pid, e), file=sys.stderr)
        rc = 2
    except subprocess.TimeoutExpired as e:
        print("INFRA-FAILURE %s: timeout %s" % (pid, e), file=sys.stderr)
        rc = 2
    sys.stdout.flush()
    _cleanup()
    os._exit(rc)
